"""C05: see vlib/rexec_run.py (shared native-execution harness, value judgement)."""
from . import rexec_run


def run(tier):
    return rexec_run.run_property("C05", tier)


def selftest():
    from . import rexec
    src = '''
#[cfg(target_arch = "wasm32")]
#[link(wasm_import_module = "t:w/i")]
unsafe extern "C" {
  #[link_name = "f"]
  fn wit_import1(_: *mut u8, _: usize, ) -> i32;
}

#[cfg(not(target_arch = "wasm32"))]
unsafe extern "C" fn wit_import1(_: *mut u8, _: usize, ) -> i32 { unreachable!() }
'''
    out, n = rexec.nativise(src)
    if n != 1 or 'import_call("t:w/i|f"' not in out:
        print("selftest C05: nativise broken")
        return 2
    print("selftest C05 ok")
    return 0
