"""Adversarial-name worlds shared by C09 (Rust), C12 (C) and C31 (C++): keywords of the target
language, names equal to generated temporaries, names that differ only by case or separator."""

RUST_KW = ["type", "self", "super", "crate", "fn", "match", "loop", "move", "ref", "box", "async", "await", "dyn", "impl", "trait",
           "use", "mod", "pub", "where", "unsafe", "static", "const", "enum", "struct", "yield", "try", "macro", "gen", "abstract", "final",
           "override", "priv", "typeof", "unsized", "virtual", "become", "do", "in", "let", "mut", "as", "break", "continue", "else", "extern",
           "false", "true", "for", "if", "return", "while"]
RUST_PRELUDE = ["option", "result", "vec", "string", "box", "some", "none", "ok", "err", "drop", "clone", "default", "from", "into", "iterator", "send", "sync", "copy", "sized"]
RUST_TEMPS = ["ptr0", "len0", "result0", "ret", "base", "e", "t", "v0", "val", "vec0", "array0", "handle0", "l0", "e0", "bytes0", "ptr", "len", "layout0", "dealloc-lists0", "cleanup-list", "rt", "wit-bindgen"]
C_KW = ["int", "char", "float", "double", "void", "struct", "union", "enum", "typedef", "static", "extern", "const", "volatile", "register", "auto",
        "if", "else", "while", "for", "do", "switch", "case", "default", "break", "continue", "return", "goto", "sizeof", "short", "long", "signed",
        "unsigned", "inline", "restrict", "typeof", "asm", "bool", "true", "false", "errno", "main", "ret", "ptr", "len", "payload", "tag", "val", "is-some", "is-err"]
CPP_KW = C_KW + ["class", "namespace", "template", "typename", "new", "delete", "this", "operator", "private", "public", "protected", "virtual",
                 "friend", "using", "try", "catch", "throw", "concept", "requires", "co-await", "co-return", "co-yield", "export", "import", "module",
                 "nullptr", "explicit", "mutable", "and", "or", "not", "xor", "std", "wit"]


ISOLATED = {"rust": ["self"]}


def _world(names, lang, title):
    """one interface whose type, field, case, function and parameter names are the adversarial names"""
    ids = [n for n in names]
    fields = ", ".join(f"%{n}: u32" for n in ids[:12])
    cases = ", ".join(f"%{n}(string)" if i % 2 else f"%{n}" for i, n in enumerate(ids[:12]))
    enums = ", ".join(f"%{n}" for n in ids[:12])
    funcs = "\n".join(f"  %{n}: func(%{ids[(i + 1) % len(ids)]}: u32, %{ids[(i + 2) % len(ids)]}: string) -> list<u8>;" for i, n in enumerate(ids[:14]))
    tname = ids[0]
    return f"""package t:adv;
interface names {{
  record %{tname}-rec {{ {fields} }}
  variant %{tname}-var {{ {cases} }}
  enum %{tname}-enum {{ {enums} }}
  flags %{tname}-flags {{ {enums} }}
{funcs}
  use-them: func(a: %{tname}-rec, b: %{tname}-var, c: %{tname}-enum, d: %{tname}-flags) -> result<%{tname}-rec, %{tname}-var>;
}}
world w {{
  import names;
  export names;
}}
"""


def adversarial_worlds(lang):
    groups = {"rust": [RUST_KW, RUST_PRELUDE, RUST_TEMPS], "c": [C_KW], "cpp": [CPP_KW]}[lang]
    out = []
    for kws in groups:
        # WIT identifiers are kebab-case words; every keyword is a valid word after `%`
        valid = [k for k in dict.fromkeys(kws) if k.replace("-", "").isalnum() and not k[0].isdigit()]
        # names with a listed finding of their own get a world of their own, so that the finding cannot hide what the other names do
        for k in ISOLATED.get(lang, []):
            if k in valid:
                valid.remove(k)
                out.append((k, _world([k, "plain-a", "plain-b"], lang, "kw")))
        # worlds are named after their first name, so that a world keeps its identity when a list grows
        for i in range(0, len(valid), 14):
            chunk = valid[i:i + 14]
            if len(chunk) < 3:
                chunk = valid[-3:]
            out.append((f"kw-{chunk[0]}", _world(chunk, lang, "kw")))
    # names that collide after case / separator folding
    out.append(("fold", """package t:fold;
interface a-b { record foo-bar { x: u32 } f: func(a: foo-bar) -> u32; }
interface a-b2 { record foo-bar { x: u32 } f: func(a: foo-bar) -> u32; }
interface ab { record foobar { x: u32 } record foo-bar { y: string } f: func(a: foobar, b: foo-bar) -> u32; g: func(a-b: u32, ab: u32, a-b2: u32); }
world w { import a-b; import a-b2; import ab; export a-b; export ab; export a-b-c: func(); export ab-c: func(); export abc: func(); }
"""))
    out.append(("ids", """package t:ids;
interface i {
  record r { a1: u32, a-1: u32, a1b: u32, a-1b: u32, a1-b: u32 }
  variant v { none, some(u32), ok, err(string) }
  enum e { a, a1, a-1 }
  f1: func(x1: u32, x-1: u32) -> r;
  f-1: func(v: v, e: e) -> option<v>;
}
world w { import i; export i; }
"""))
    return out
