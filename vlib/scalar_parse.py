"""C14: parser of the conversion expressions the backends emit (C, C++, C#, D, Go, MoonBit, Rust)
into the term language of specs/abi/ScalarConv.tla.  Fail-closed: unknown syntax raises ScanError.

Terms: {"op": "x"} | {"op": "lit", "v": n} | {"op": "conv", "to": T, "e": E} | {"op": "conv64", "e": E}
       | {"op": "sub"|"add"|"and", "e": E, "k": n} | {"op": "ne0", "e": E} | {"op": "b2i", "e": E}
       | {"op": "ite", "c": C, "a": A, "b": B} | {"op": "ge"|"lt", "e": E, "k": n}
`kind(term)` is "int", "bool" or "wide" (64-bit integers and floats, judged structurally)."""
import re

from .surface_scan import ScanError

# type spellings -> conversion target
TYPES = {
    # C / C++
    "int8_t": "s8", "uint8_t": "u8", "int16_t": "s16", "uint16_t": "u16", "int32_t": "s32", "uint32_t": "u32", "int64_t": "w", "uint64_t": "w",
    "float": "w", "double": "w", "bool": "bool",
    # C#
    "sbyte": "s8", "byte": "u8", "short": "s16", "ushort": "u16", "int": "s32", "uint": "u32", "long": "w", "ulong": "w",
    # D (byte is signed, ubyte unsigned)
    "ubyte": "u8", "dchar": "u32",
    # Go
    "int8": "s8", "uint8": "u8", "int16": "s16", "uint16": "u16", "int32": "s32", "uint32": "u32", "int64": "w", "uint64": "w", "rune": "s32",
    "float32": "w", "float64": "w",
    # Rust
    "i8": "s8", "u8": "u8", "i16": "s16", "u16": "u16", "i32": "s32", "u32": "u32", "i64": "w", "u64": "w", "f32": "w", "f64": "w",
}
D_BYTE = {"byte": "s8"}          # in D `byte` is the signed 8-bit type, in C# the unsigned one


def tokenize(s):
    toks, i = [], 0
    while i < len(s):
        c = s[i]
        if c.isspace():
            i += 1
        elif c.isalpha() or c == "_":
            j = i
            while j < len(s) and (s[j].isalnum() or s[j] in "_" or s[j:j + 2] == "::"):
                j += 2 if s[j:j + 2] == "::" else 1
            toks.append(("id", s[i:j]))
            i = j
        elif c.isdigit():
            m = re.match(r"0[xX][0-9a-fA-F_]+|\d[\d_]*", s[i:])
            toks.append(("num", int(m.group(0).replace("_", ""), 0)))
            i += len(m.group(0))
        elif s[i:i + 2] in ("!=", "==", "=>", ">=", "<="):
            toks.append(("p", s[i:i + 2]))
            i += 2
        else:
            toks.append(("p", c))
            i += 1
    return toks


_XKIND = ["int"]


class P:
    def __init__(self, text, operand, lang):
        self.t = tokenize(text)
        self.i = 0
        self.operand = operand
        self.lang = lang
        self.text = text

    def peek(self, k=0):
        return self.t[self.i + k] if self.i + k < len(self.t) else ("eof", None)

    def eat(self, kind=None, val=None):
        tk = self.peek()
        if (kind and tk[0] != kind) or (val is not None and tk[1] != val):
            raise ScanError(f"{self.lang}: cannot parse conversion `{self.text}` (expected {val or kind}, found {tk[1]!r})")
        self.i += 1
        return tk

    def ty(self, name):
        if self.lang == "d" and name in D_BYTE:
            return D_BYTE[name]
        if name in TYPES:
            return TYPES[name]
        return None

    def conv(self, tname, e):
        t = self.ty(tname)
        if t is None:
            raise ScanError(f"{self.lang}: unknown type `{tname}` in conversion `{self.text}`")
        if t == "w":
            return {"op": "conv64", "e": e}
        if t == "bool":
            return {"op": "ne0", "e": e} if kind(e) != "bool" else e
        if kind(e) == "bool":
            e = {"op": "b2i", "e": e}
        return {"op": "conv", "to": t, "e": e}

    # expr := cmp ('?' expr ':' expr)?
    def expr(self):
        c = self.cmp()
        if self.peek() == ("p", "?"):
            self.eat()
            a = self.expr()
            self.eat("p", ":")
            b = self.expr()
            return ite(c, a, b)
        return c

    def cmp(self):
        a = self.arith()
        tk = self.peek()
        if tk[0] == "p" and tk[1] in ("!=", "=="):
            self.eat()
            b = self.arith()
            if b != {"op": "lit", "v": 0}:
                raise ScanError(f"{self.lang}: comparison with something other than 0 in `{self.text}`")
            r = {"op": "ne0", "e": a}
            return r if tk[1] == "!=" else ite(r, {"op": "lit", "v": 0}, {"op": "lit", "v": 1})
        return a

    def arith(self):
        a = self.postfix()
        while self.peek()[0] == "p" and self.peek()[1] in ("-", "+", "&"):
            op = self.eat()[1]
            b = self.postfix()
            if b["op"] != "lit":
                raise ScanError(f"{self.lang}: non-constant operand in `{self.text}`")
            a = {"op": {"-": "sub", "+": "add", "&": "and"}[op], "e": a, "k": b["v"]}
        return a

    def postfix(self):
        e = self.unary()
        while True:
            tk = self.peek()
            if tk == ("p", "."):
                self.eat()
                m = self.eat("id")[1]
                args = []
                if self.peek() == ("p", "("):
                    self.eat()
                    while self.peek() != ("p", ")"):
                        args.append(self.expr())
                        if self.peek() == ("p", ","):
                            self.eat()
                    self.eat("p", ")")
                e = self.method(e, m, args)
            elif tk == ("id", "as"):
                self.eat()
                e = self.conv(self.eat("id")[1], e)
            else:
                return e

    def method(self, e, m, args):
        # MoonBit
        if m in ("to_int", "reinterpret_as_int", "reinterpret_as_uint", "to_uint"):
            return {"op": "conv", "to": "s32", "e": e}
        if m == "to_byte":
            return {"op": "conv", "to": "u8", "e": e}
        if m in ("to_int64", "to_uint64", "reinterpret_as_int64", "reinterpret_as_uint64", "to_float", "to_double", "reinterpret_as_float", "reinterpret_as_double"):
            return {"op": "conv64", "e": e}
        if m == "land" and len(args) == 1 and args[0]["op"] == "lit":
            return {"op": "and", "e": e, "k": args[0]["v"]}
        if m in ("to_bits", "assume_init"):
            return {"op": "conv64", "e": e}
        raise ScanError(f"{self.lang}: unknown method `.{m}` in conversion `{self.text}`")

    def call(self, f, args):
        base = f.split("::")[-1]
        one = args[0] if len(args) == 1 else None
        if one is not None:
            if f in ("_rt::as_i32",):
                return {"op": "conv", "to": "s32", "e": one if kind(one) != "bool" else {"op": "b2i", "e": one}}
            if f in ("_rt::as_i64", "_rt::as_f32", "_rt::as_f64"):
                return {"op": "conv64", "e": one}
            if f == "_rt::bool_lift":
                return {"op": "ne0", "e": one}
            if f == "_rt::char_lift":
                return one
            if f == "Int::unsafe_to_char":
                return one
            if f == "mbt_ffi_extend8":
                return {"op": "conv", "to": "s8", "e": one}
            if f == "mbt_ffi_extend16":
                return {"op": "conv", "to": "s16", "e": one}
            if f == "unchecked":
                return one
            if self.ty(base) is not None and "::" not in f:
                return self.conv(base, one)            # C++ / Go functional casts
        raise ScanError(f"{self.lang}: unknown function `{f}` in conversion `{self.text}`")

    def unary(self):
        tk = self.peek()
        if tk == ("p", "&") or tk == ("p", "*"):
            self.eat()
            return self.unary()
        if tk == ("id", "cast"):            # D: cast(T)(e)
            self.eat()
            self.eat("p", "(")
            t = self.eat("id")[1]
            self.eat("p", ")")
            return self.conv(t, self.unary())
        if tk == ("id", "if"):              # MoonBit: if c { 1 } else { 0 }
            self.eat()
            c = self.expr()
            self.eat("p", "{")
            a = self.expr()
            self.eat("p", "}")
            self.eat("id", "else")
            self.eat("p", "{")
            b = self.expr()
            self.eat("p", "}")
            return ite(c, a, b)
        if tk == ("id", "match"):           # Rust: match e { true => 1, false => 0 }
            self.eat()
            c = self.unary() if self.peek() == ("p", "&") else self.postfix()
            self.eat("p", "{")
            arms = {}
            while self.peek() != ("p", "}"):
                k = self.eat("id")[1]
                self.eat("p", "=>")
                arms[k] = self.expr()
                if self.peek() == ("p", ","):
                    self.eat()
            self.eat("p", "}")
            if set(arms) != {"true", "false"}:
                raise ScanError(f"{self.lang}: unknown match in `{self.text}`")
            return ite(c, arms["true"], arms["false"])
        if tk == ("p", "("):
            # C cast `(T) e` / `(T)e`, or a parenthesised expression
            if self.peek(1)[0] == "id" and self.peek(2) == ("p", ")") and self.ty(self.peek(1)[1]) is not None and self.peek(1)[1] != self.operand:
                nxt = self.peek(3)
                if nxt[0] in ("id", "num") or nxt == ("p", "("):
                    self.eat(); t = self.eat("id")[1]; self.eat("p", ")")
                    return self.conv(t, self.unary())
            self.eat()
            e = self.expr()
            self.eat("p", ")")
            return e
        if tk[0] == "num":
            self.eat()
            return {"op": "lit", "v": tk[1]}
        if tk[0] == "id":
            self.eat()
            name = tk[1]
            if self.peek() == ("p", "("):
                self.eat()
                args = []
                while self.peek() != ("p", ")"):
                    args.append(self.expr())
                    if self.peek() == ("p", ","):
                        self.eat()
                self.eat("p", ")")
                return self.call(name, args)
            if name == self.operand:
                return {"op": "x"}
            if name in ("true", "false"):
                return {"op": "lit", "v": 1 if name == "true" else 0}
            raise ScanError(f"{self.lang}: unknown identifier `{name}` in conversion `{self.text}` (operand is `{self.operand}`)")
        raise ScanError(f"{self.lang}: cannot parse conversion `{self.text}` at {tk}")


def ite(c, a, b):
    if kind(c) != "bool":
        c = {"op": "ne0", "e": c}
    if a == {"op": "lit", "v": 1} and b == {"op": "lit", "v": 0}:
        return {"op": "b2i", "e": c}
    return {"op": "ite", "c": c, "a": a, "b": b}


def kind(e, xkind=None):
    op = e["op"]
    if op == "x":
        return xkind or _XKIND[0]
    if op in ("ne0", "ge", "lt"):
        return "bool"
    if op == "conv64":
        return "wide"
    if op == "ite":
        return kind(e["a"], xkind)
    return "int"


def parse(text, operand, lang, xkind="int"):
    """xkind: the kind of the operand (`bool` when a bool is lowered, `wide` for 64-bit integers and floats)"""
    _XKIND[0] = xkind
    p = P(text, operand, lang)
    e = p.expr()
    if p.peek()[0] != "eof":
        raise ScanError(f"{lang}: trailing tokens in conversion `{text}`: {p.t[p.i:]}")
    return e


def retag_x(e, xkind):
    """operand of kind bool: `x` used where an int is expected gets an explicit b2i, and vice versa is left to the judge"""
    return e
