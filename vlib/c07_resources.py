"""C07  Rust guest bindings keep resource and handle ownership exact.

specs/rt/ResourceOwn.tla: (1) the histories -- every sequence of at most MaxLen guest-side and
host-side operations on the fixed world harness/res-exec/res.wit (imported resource with
constructor / method / static, own and borrow parameters, own handles nested in a record, a list, a
tuple and an option; exported resource with constructor, method, own and borrow parameters, results
x and option<x>); (2) the monitor of the handle discipline over an event log.
TLC enumerates the histories (MC_ResourceOwn, GEN); the REAL generated bindings for the world are
compiled natively (core imports routed to the test program's permissive host, exports and the
destructor called through their real symbols), a guest interpreter and a host execute each history,
every boundary event is logged, and TLC validates the log (Trace_ResourceOwn): handles are dropped
or given away exactly once, never used afterwards, borrows are never dropped, the Rust value of an
exported resource is destroyed exactly once, inside its destructor call, after the last handle went."""
import glob
import re
import os
import shutil
import time

from .core import *
from .genprobe import run_commands, run_matrix
from . import rexec, rustprobe

PID = "C07"
RES = os.path.join(HARNESS, "res-exec")


def run(tier):
    t0 = time.time()
    wd = workdir(PID)
    out = Outcome(PID)
    cli = cli_exe()
    vhost_dir = cargo_build("vhost")
    cfg = "rt/MC_ResourceOwn" if tier == "quick" else None
    if cfg is None:
        cfg = os.path.join(wd, "deep.cfg")
        open(cfg, "w").write(open(os.path.join(SPECS, "rt/MC_ResourceOwn.cfg")).read().replace("MaxLen = 3", "MaxLen = 4"))
    g = tlc("rt/MC_ResourceOwn", cfg, workers=8, wd=wd, xmx="8g", timeout=3000)
    histories = [v["ops"] for v in g.vecs]
    configs = [("default", []), ("borrowing", ["--ownership=borrowing"])] if tier != "quick" else [("default", [])]
    stats = {"histories": len(histories), "events": 0, "configs": [c for c, _ in configs]}
    states = g.distinct
    for cname, cargs in configs:
        d = os.path.join(wd, cname)
        os.makedirs(d, exist_ok=True)
        shutil.copy(os.path.join(RES, "res.wit"), os.path.join(d, "w.wit"))
        gen = run_matrix(cli, [{"lang": "rust", "wit": os.path.join(d, "w.wit"), "out": os.path.join(d, "gen"), "args": cargs}], workers=1, wd=wd)
        if gen[0]["res"]["status"] != "ok":
            out.violation(f"generator:{cname}", f"the Rust generator fails on the resource world: {gen[0]['res']}", gen[0]["res"])
            continue
        nat, n = rexec.nativise(open(os.path.join(d, "gen", "w.rs")).read())
        open(os.path.join(d, "w_native.rs"), "w").write(nat)
        shutil.copy(os.path.join(RES, "main.rs"), os.path.join(d, "main.rs"))
        envs, cmd, _ = rustprobe.probe_rustc(wd)
        for k, a in enumerate(cmd):
            if a == "--crate-type" and k + 1 < len(cmd):
                cmd[k + 1] = "bin"
        pre, argv = rustprobe.replay(envs, cmd, os.path.join(d, "main.rs"), os.path.join(d, "bin"), emit="link",
                                     extra=["--extern", f"vhost={os.path.join(vhost_dir, 'libvhost.rlib')}", "-L", f"dependency={os.path.join(vhost_dir, 'deps')}"])
        r = run_commands([("b", pre + argv)], wd, workers=1, timeout_ms=900000)["b"]
        if r["rc"] != 0:
            err = r.get("stderr_head", "") + r["stderr"]
            first = next((l for l in err.splitlines() if l.startswith("error")), err[-300:])
            out.violation(f"compile:{cname}", f"the test program over the generated bindings does not compile [{cname}]: {first[:300]}", {"stderr": err[:4000]})
            continue
        exe = [f for f in glob.glob(os.path.join(d, "bin", "*")) if os.access(f, os.X_OK) and os.path.isfile(f) and not f.endswith(".d")][0]
        json.dump({"cases": [], "histories": histories}, open(os.path.join(d, "vector.json"), "w"))
        op = os.path.join(d, "out.ndjson")
        rr = run_commands([("r", ["env", "VERIF_LOW_ARENA=1", f"VERIF_VECTOR={os.path.join(d, 'vector.json')}", f"VERIF_OUT={op}", exe])], wd, workers=1, timeout_ms=900000)["r"]
        rows = read_ndjson(op) if os.path.exists(op) else []
        if not rows or "done" not in rows[-1]:
            det = next((x["detail"] for x in rows if x.get("problem") == "panic"), (rr.get("stderr_head", "") + rr["stderr"])[-300:])
            hist = [x["k"] for x in rows if x.get("ev") == "history"]
            out.violation(f"died:{cname}", f"the test program died in history {hist[-1] if hist else '?'} [{cname}]: {det[:300]}",
                          {"history": histories[hist[-1]] if hist else None, "detail": det})
        cur = None
        for x in rows:
            if x.get("ev") == "history":
                cur = x["k"]
            if "problem" in x and x["problem"] != "panic":
                det = re.sub(r"0x[0-9a-f]+", "0xN", x["detail"])
                out.violation(f"heap:{cname}:{x['problem']}:{re.sub(chr(92) + 'd+', 'N', det)[:60]}", f"history {cur} [{cname}]: {x['detail'][:300]}",
                              {"history": histories[cur] if cur is not None else None, "detail": x["detail"]})
        trace = [x for x in rows if "ev" in x]
        stats["events"] += len(trace)
        tp = os.path.join(d, "trace.ndjson")
        write_ndjson(tp, trace)
        t = tlc("rt/Trace_ResourceOwn", "rt/Trace_ResourceOwn", workers=1, wd=wd, env={"TRACE": tp}, dfs=True, xmx="8g", timeout=3000)
        states += t.distinct
        seen = set()
        for b in t.tagged.get("BREACH", []):
            # the history this event belongs to
            k = max((x["k"] for x in trace[:b["at"]] if x.get("ev") == "history"), default=None)
            if (k, b["what"]) in seen:
                continue
            seen.add((k, b["what"]))
            ops = histories[k] if k is not None else None
            shape = "+".join(o["op"] for o in ops) if ops else "?"
            out.violation(f"breach:{cname}:{b['what'][:70]}:{shape}", f"history {k} = {shape} [{cname}]: {b['what']} -- at event {b['event']}", {"history": ops, "breach": b})
        if t.tagged.get("REJECTED") and not t.tagged.get("BREACH"):
            raise ToolError(f"Trace_ResourceOwn rejected the log without a diagnosis: {t.tagged['REJECTED'][:1]}")
    write_ndjson(os.path.join(wd, "violations.ndjson"), [{"key": k, "desc": d_} for k, d_, _ in out.violations])
    rc, unlisted = out.finish()
    write_evidence(PID, tier, "model_checking", {
        "states": states, "transitions": states, "traces_validated_against_impl": stats["histories"] * len(configs),
        "samples": [histories[len(histories) // 3], histories[-1]], **stats,
        "spec": "specs/rt/ResourceOwn.tla (histories + monitor), MC_ResourceOwn.tla (GEN, all histories <= MaxLen), Trace_ResourceOwn.tla (log validation)",
    }, ["the bindings run natively; the permissive host of harness/res-exec/main.rs records every intrinsic call ([resource-drop], [resource-new], "
        "[resource-rep]) and every function call with handle arguments; the verdict is TLC's over that log",
        "error-context handles and fallible constructors are not in the fixed world"], time.time() - t0, unlisted)
    return rc


def selftest():
    wd = workdir(PID + "_self")
    tr = [{"ev": "history", "k": 0}, {"ev": "r.new", "h": 11, "via": "constructor"}, {"ev": "r.drop", "h": 11}, {"ev": "r.drop", "h": 11}, {"ev": "history-end", "k": 0}]
    tp = os.path.join(wd, "t.ndjson")
    write_ndjson(tp, tr)
    t = tlc("rt/Trace_ResourceOwn", "rt/Trace_ResourceOwn", workers=1, wd=wd, env={"TRACE": tp}, dfs=True)
    if not t.tagged.get("BREACH"):
        log("selftest C07: a double drop was accepted")
        return 2
    log("selftest C07 ok")
    return 0
