"""C10: see vlib/cexec_run.py (native execution of generated C, value judgement)."""
from . import cexec_run


def run(tier):
    return cexec_run.run_property("C10", tier)


def selftest():
    from . import cexec
    t = {"k": "record", "fs": [{"k": "u8"}, {"k": "option", "t": {"k": "string"}}]}
    if cexec.text(t, [[7], {"some": True, "v": [97]}]) != "{7,some(s61)}":
        print("selftest C10: canonical text broken")
        return 2
    print("selftest C10 ok")
    return 0
