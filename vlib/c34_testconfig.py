"""C34  Test configuration is read from exactly the leading comment block."""
import os
import time

from .core import *
from .small import *

PID = "C34"


def run(tier):
    t0 = time.time()
    wd = workdir(PID)
    out = Outcome(PID)
    exe = small_exe()
    cfg = "gen/MC_TestConfig" if tier == "quick" else with_constants("gen/MC_TestConfig", wd, "mc5", {"MaxLines = 4": "MaxLines = 5"})
    g = tlc("gen/MC_TestConfig", cfg, workers=8, wd=wd, xmx="12g", timeout=3000)
    if g.violated:
        raise ToolError(f"the TestConfig spec is not self-consistent: {g.violated}")
    witnesses("gen/MC_TestConfig", "gen/MC_TestConfig", ["W_LaterMarkerIgnored"], wd)
    vp = os.path.join(wd, "vecs.ndjson")
    write_ndjson(vp, g.vecs)
    rp = os.path.join(wd, "replay.ndjson")
    sh([exe, "testconfig", "replay", vp, rp], check=True)
    rows = read_ndjson(rp)
    if rows[-1].get("done") != len(g.vecs):
        raise ToolError("testconfig replay did not finish")
    for r in rows[:-1]:
        key = "replay:" + "/".join(f"{l['ind']}{l['pre']}:{l['body']}" for l in r["file"])
        out.violation(key, f"parse_test_config({r['text']!r}, {r['marker']!r}) gave {r['got']}, the spec says {r['expected']}", r)
    n_obs = 3000 if tier == "quick" else 30000
    op = os.path.join(wd, "obs.ndjson")
    sh([exe, "testconfig", "record", str(seed()), str(n_obs), op], check=True)
    t = tlc("gen/Obs_TestConfig", "gen/Obs_TestConfig", workers=1, wd=wd, env={"OBS": op}, xmx="4g")
    for o in t.tagged.get("MISMATCH", []):
        key = "val:" + "/".join(f"{l['ind']}{l['pre']}:{l['body']}" for l in o["obs"]["file"])
        out.violation(key, f"observed config {o['obs']['config']} for {o['obs']['text']!r}; spec expects {o['expected']}", o)
    rc, unlisted = out.finish()
    nontriv = sum(1 for v in g.vecs if any(l["pre"] == "m" and l["ind"] == 0 for l in v["file"][1:])
                  and any(not (l["pre"] == "m" and l["ind"] == 0) for l in v["file"]))
    write_evidence(PID, tier, "model_checking", {
        "states": g.distinct + t.distinct,
        "transitions": g.generated + t.generated,
        "traces_validated_against_impl": n_obs,
        "samples": [g.vecs[len(g.vecs) // 2], g.vecs[-1]],
        "exhaustive": True,
        "evaluations": rows[-1]["runs"] + n_obs,
        "distinct_nontrivial": nontriv,
        "rule": "every file of <= MaxLines lines over 17 line kinds (marker/plain comment/other marker/none x indentation x "
                "8 TOML bodies) is rendered with 3 comment markers x 2 concrete spellings and parsed by the real "
                "parse_test_config; non-trivial = contains both marker and non-marker lines with a marker line after position 1",
        "gen": {"files": len(g.vecs), "parser_runs": rows[-1]["runs"]},
        "val": {"observations": n_obs},
    }, ["TLC", "the rendering of abstract lines to text in harness/small/src/testconfig.rs", "the toml crate"],
        time.time() - t0, unlisted)
    return rc


def selftest():
    wd = workdir(PID + "_self")
    exe = small_exe()
    op = os.path.join(wd, "obs.ndjson")
    sh([exe, "testconfig", "record", "5", "60", op], check=True)
    rows = read_ndjson(op)
    k = next(i for i, r in enumerate(rows) if r["config"].get("ok"))
    rows[k]["config"]["args"].append("--extra")
    write_ndjson(op, rows)
    t = tlc("gen/Obs_TestConfig", "gen/Obs_TestConfig", workers=1, wd=wd, env={"OBS": op})
    if not t.tagged.get("MISMATCH"):
        log("selftest C34: corrupted observation accepted")
        return 2
    log("selftest C34 ok")
    return 0
