"""gen-probe: runs the real generators (the CLI built from /repo) on WIT worlds, derives each
backend's declared exclusions from crates/test/src/<lang>.rs at run time, and provides the
world enumeration of specs/gen/WorldGrammar.tla.  Used by C09, C12, C13, C15, C16, C17, C29-C31."""
import concurrent.futures
import glob
import os
import re
import shutil
import subprocess

from .core import *
from .witgen import render_world

BACKENDS = ["rust", "c", "cpp", "csharp", "go", "moonbit", "d", "markdown"]
TEST_SRC = os.path.join(REPO, "crates", "test", "src")
CORPUS = os.path.join(REPO, "tests", "codegen")


def _fn_body(src, name):
    i = src.find(f"fn {name}")
    if i < 0:
        return ""
    j = src.find("{", src.find(")", i) if "->" not in src[i:i + 400] else src.find("->", i))
    depth, k = 0, j
    while k < len(src):
        if src[k] == "{":
            depth += 1
        elif src[k] == "}":
            depth -= 1
            if depth == 0:
                return src[j:k + 1]
        k += 1
    return ""


def backend_info(lang):
    """default args, variants and the should_fail_verify rule of one backend, read from the repository."""
    path = os.path.join(TEST_SRC, f"{lang}.rs")
    if not os.path.exists(path):
        return {"default_args": [], "variants": [], "fail_names": set(), "never_fail": set(), "flag_error_context": False, "flag_async": False}
    src = open(path).read()
    strs = lambda body: re.findall(r'"((?:[^"\\]|\\.)*)"', body)
    default_args = strs(_fn_body(src, "default_bindgen_args(")) + strs(_fn_body(src, "default_bindgen_args_for_codegen("))
    vb = _fn_body(src, "codegen_test_variants(")
    variants = []
    for m in re.finditer(r'\(\s*"([^"]+)"\s*,\s*&\[([^\]]*)\]', vb):
        variants.append((m.group(1), strs(m.group(2))))
    fb = _fn_body(src, "should_fail_verify(")
    never = set()
    for m in re.finditer(r'if\s+name\s*==\s*"([^"]+)"\s*\{\s*return\s+false', fb):
        never.add(m.group(1))
    # toolchain-dependent clauses (`runner.go_async_supported()`) concern compiling, not generating
    fb_core = re.sub(r'if\s+!runner\.\w+\(\)\s*\{[^}]*\}', '', fb)
    names = {s for s in strs(fb_core) if ".wit" in s or s.startswith("wasi-") or "-" in s} - never
    return {"default_args": default_args, "variants": variants, "fail_names": names, "never_fail": never,
            "flag_error_context": "config.error_context" in fb_core, "flag_async": "config.async_" in fb_core}


def cli_args(lang, variant_args=()):
    info = backend_info(lang)
    args = list(info["default_args"]) + list(variant_args)
    if lang == "rust" and "--generate-all" not in args:
        args.append("--generate-all")
    if lang == "csharp" and not any(a.startswith("--runtime") for a in args):
        args.append("--runtime=native-aot")
    return args


_FEAT_CACHE = {}


def wit_features(paths):
    """feature sets of WIT files/dirs through `small witfeatures` (wit-parser based)."""
    exe = os.path.join(cargo_build("small"), "small")
    todo = [p for p in paths if p not in _FEAT_CACHE]
    for i in range(0, len(todo), 200):
        chunk = todo[i:i + 200]
        p = sh([exe, "witfeatures"] + chunk, check=True)
        for ln in p.stdout.splitlines():
            o = json.loads(ln)
            _FEAT_CACHE[o["path"]] = o
    return {p: _FEAT_CACHE[p] for p in paths}


def corpus_files():
    return sorted(glob.glob(os.path.join(CORPUS, "*.wit")) + [d.rstrip("/") for d in glob.glob(os.path.join(CORPUS, "*/"))])


def _unit_features(feats, variant):
    f = set(feats)
    if variant:
        f |= {f"variant:{variant}"} | {f"{t}&variant:{variant}" for t in feats}
    return f


def excluded_features(lang):
    """Features that occur in corpus units the backend declares failing and in no unit it
    declares passing (DESIGN.md C16).  Returns (excluded set, details for the evidence)."""
    info = backend_info(lang)
    feats = wit_features(corpus_files())
    failing, passing = [], []
    for path, o in feats.items():
        if "error" in o:
            continue
        name = os.path.basename(path)
        for variant in [""] + [v for v, _ in info["variants"]]:
            unit = name + (f"-{variant}" if variant else "")
            fails = (unit in info["fail_names"] or (not variant and name in info["fail_names"])
                     or (name in info["fail_names"]) )
            # a literal with a variant suffix only excludes that variant
            if name in info["fail_names"]:
                fails = True
            elif unit in info["fail_names"]:
                fails = True
            else:
                fails = False
            if info["flag_error_context"] and o["config"]["error_context"]:
                fails = True
            if info["flag_async"] and o["config"]["async"]:
                fails = True
            if name in info["never_fail"]:
                fails = False
            (failing if fails else passing).append(_unit_features(o["features"], variant))
    bad = set().union(*failing) if failing else set()
    good = set().union(*passing) if passing else set()
    excl = bad - good
    # a rule keyed on a header flag excludes that feature as such (blanket exclusion)
    if info["flag_error_context"]:
        excl.add("error-context")
    if info["flag_async"]:
        excl.add("async")
    return excl, {"failing_units": len(failing), "passing_units": len(passing)}


def declared_failing(lang, path, variant, feat):
    """the repository's own verdict for one of its tests/codegen files (exact, by name and header flags)"""
    info = backend_info(lang)
    name = os.path.basename(path)
    if name in info["never_fail"]:
        return False
    unit = name + (f"-{variant}" if variant else "")
    if name in info["fail_names"] or unit in info["fail_names"]:
        return True
    cfg = feat.get("config", {})
    return bool((info["flag_error_context"] and cfg.get("error_context")) or (info["flag_async"] and cfg.get("async")))


def supported(lang, features, variant, excl, path=None, feat=None):
    """generated worlds: feature rule; corpus files: the declared verdict itself"""
    if path is not None and path.startswith(CORPUS):
        return not declared_failing(lang, path, variant, feat or {})
    return not (_unit_features(features, variant) & excl)


def grammar_worlds(wd, full=False, k=1):
    cfg = os.path.join(wd, "wg.cfg")
    open(cfg, "w").write(f"CONSTANTS\n  Full = {'TRUE' if full else 'FALSE'}\n  K = {k}\nINIT Init\nNEXT Next\nINVARIANT Emit\n")
    g = tlc("gen/WorldGrammar", cfg, workers=8, wd=wd, xmx="8g", timeout=1800)
    # one world per distinct vector
    seen, out = set(), []
    for v in g.vecs:
        key = (v["ctor"], v["wrap"], v["role"], v["fkind"], v["dir"])
        if key not in seen:
            seen.add(key)
            v["features"] = sorted(v["features"])      # a TLA+ set: TLC prints it in an order that differs from run to run
            out.append(v)
    out.sort(key=lambda v: (v["ctor"], v["wrap"], v["role"], v["fkind"], v["dir"]))
    return g, out


def write_worlds(worlds, d):
    """Renders each world to <d>/<i>/w.wit; returns list of paths."""
    paths = []
    for i, v in enumerate(worlds):
        wd = os.path.join(d, str(i))
        os.makedirs(wd, exist_ok=True)
        p = os.path.join(wd, "w.wit")
        open(p, "w").write(render_world(v))
        paths.append(p)
    return paths


def run_cli(cli, lang, wit, out_dir, args, timeout=60, check=False):
    cmd = [cli, lang, wit, "--out-dir", out_dir, "--all-features"] + args
    if check:
        cmd.append("--check")
    try:
        p = subprocess.run(cmd, stdout=subprocess.PIPE, stderr=subprocess.PIPE, text=True, timeout=timeout)
    except subprocess.TimeoutExpired:
        return {"status": "timeout", "stderr": ""}
    if p.returncode == 0:
        return {"status": "ok", "stderr": ""}
    if "panicked at" in p.stderr or p.returncode == 101 or p.returncode < 0:
        m = re.search(r"panicked at ([^\n]*)\n([^\n]*)", p.stderr)
        where = m.group(1).strip() if m else ""
        what = m.group(2).strip() if m else p.stderr.strip()[-200:]
        return {"status": "panic", "where": where, "what": what, "rc": p.returncode}
    return {"status": "error", "stderr": p.stderr.strip()[-300:]}


def run_commands(cmds, wd, workers=14, timeout_ms=60000, stderr_chars=None):
    """cmds: list of (id, argv[, cwd]).  Runs them with the Rust worker pool; returns {id: result}.
    stderr is kept as its first 600 + last 1500 characters unless stderr_chars asks for the last N as a whole."""
    exe = os.path.join(cargo_build("small"), "small")
    jp = os.path.join(wd, "matrix_jobs.ndjson")
    op = os.path.join(wd, "matrix_out.ndjson")
    rows = []
    for c in cmds:
        r = {"id": c[0], "cmd": c[1], "timeout_ms": timeout_ms}
        if len(c) > 2 and c[2]:
            r["cwd"] = c[2]
        if stderr_chars:
            r["stderr_chars"] = stderr_chars
        rows.append(r)
    write_ndjson(jp, rows)
    sh([exe, "runmatrix", jp, op, str(workers)], check=True, timeout=7200)
    return {r["id"]: r for r in read_ndjson(op)}


def classify_cli(r):
    if r.get("timeout"):
        return {"status": "timeout"}
    if r["rc"] == 0:
        return {"status": "ok"}
    err = r.get("stderr_head", "") + r.get("stderr", "")
    if "panicked at" in err or r["rc"] == 101 or r.get("signal"):
        m = re.search(r"panicked at ([^\n]*)\n([^\n]*)", err)
        return {"status": "panic", "where": m.group(1).strip() if m else "", "what": m.group(2).strip() if m else err.strip()[-200:], "rc": r["rc"]}
    return {"status": "error", "stderr": err.strip()[-300:]}


def run_matrix(cli, jobs, workers=14, wd=None):
    """jobs: list of dicts with lang, wit, out, args -> adds 'res'."""
    wd = wd or workdir("matrix", clean=False)
    cmds = []
    for i, j in enumerate(jobs):
        os.makedirs(j["out"], exist_ok=True)
        cmds.append((i, [cli, j["lang"], j["wit"], "--out-dir", j["out"], "--all-features"] + j["args"]))
    res = run_commands(cmds, wd, workers)
    for i, j in enumerate(jobs):
        j["res"] = classify_cli(res[i])
    return jobs
