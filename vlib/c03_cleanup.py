"""C03  Cleanup code frees exactly the heap data the lowering allocated."""
import os
import time

from .core import *
from .abi import *
from .c01_abi import classify

PID = "C03"


def run(tier):
    t0 = time.time()
    wd = workdir(PID)
    out = Outcome(PID)
    exe = interp_exe()
    g = gen_vectors(wd, 1 if tier == "quick" else 2)
    vp = os.path.join(wd, "vecs.ndjson")
    write_ndjson(vp, g.vecs)
    rp = os.path.join(wd, "replay.ndjson")
    sh([exe, "c03", "replay", vp, rp], check=True, timeout=3000)
    rows = read_ndjson(rp)
    done = rows[-1]
    if done.get("done") != len(g.vecs):
        raise ToolError("abi-interp c03 replay did not finish")
    for r in rows[:-1]:
        pr = r["problem"]
        msg = pr.get("error") or ("panic: " + pr.get("panic", ""))
        cls = msg.split(":")[0] if msg.split(":")[0].isupper() or "-" in msg.split(":")[0] else msg[:60]
        key = f"{r['scenario']}:{cls}:{classify(r['t'])}"[:200]
        out.violation(key, f"{r['scenario']} on {classify(r['t'])} = {json.dumps(r['v'])[:160]} (W={r['W']}): {msg}", r)
    rc, unlisted = out.finish()
    heap = [v for v in g.vecs if v["blocks"] or v["handles"]]
    write_evidence(PID, tier, "model_checking", {
        "states": g.distinct,
        "transitions": g.generated,
        "traces_validated_against_impl": done["runs"],
        "samples": [{k: v[k] for k in ("t", "v", "W", "blocks", "handles", "mayOwnHeap")} for v in (heap[len(heap) // 2], heap[-1])],
        "exhaustive": True,
        "evaluations": done["runs"],
        "distinct_nontrivial": len({classify(v["t"]) for v in heap}),
        "rule": "every vector of MC_CanonABI (types x boundary values x pointer width): the real lowering allocates, then the "
                "instruction streams of deallocate_lists_in_types / deallocate_lists_and_own_in_types (direct and indirect "
                "operands) and post_return are executed; frees must equal the spec's block multiset (address, size, align, "
                "once each), dropped handles the spec's OwnedHandles, and guest_export_needs_post_return must equal MayOwnHeap; "
                "non-trivial = distinct type shapes whose value owns a heap block or handle",
        "vectors_with_heap_or_handles": len(heap),
    }, ["TLC", "harness/abi-interp", "specs/abi/CanonABI.tla (Store blocks, OwnedHandles, MayOwnHeap)"], time.time() - t0, unlisted)
    return rc


def selftest():
    wd = workdir(PID + "_self")
    exe = interp_exe()
    g = gen_vectors(wd, 1)
    vs = [v for v in g.vecs if len(v["blocks"]) >= 1 and v["t"]["k"] == "list"][:20]
    for v in vs:
        v["blocks"][0]["size"] += 1   # the spec now claims a different block size
        v["blocks"][0]["cells"].append(0)
    vp = os.path.join(wd, "v.ndjson")
    write_ndjson(vp, vs)
    rp = os.path.join(wd, "o.ndjson")
    sh([exe, "c03", "replay", vp, rp], check=True)
    bad = {(r["ti"], r["vi"], r["W"]) for r in read_ndjson(rp) if "problem" in r}
    if len(bad) < len(vs):
        log(f"selftest C03: {len(bad)} of {len(vs)} corrupted vectors rejected")
        return 2
    log("selftest C03 ok")
    return 0
