"""C33  CLI check mode succeeds exactly when outputs are up to date."""
import hashlib
import os
import shutil
import time

from .core import *

PID = "C33"

WIT = """package t:check;
interface i {
  /// a record
  record r { a: u32, b: string }
  f: func(x: r) -> list<string>;
}
world w {
  import i;
  export g: func(s: string) -> u32;
}
"""

GENERATORS = [("rust", ["--generate-all"]), ("c", []), ("markdown", []), ("csharp", ["--runtime", "mono"]), ("go", []), ("moonbit", [])]


def _snapshot(d):
    out = {}
    for root, _, files in os.walk(d):
        for f in files:
            p = os.path.join(root, f)
            st = os.stat(p)
            out[os.path.relpath(p, d)] = (st.st_size, st.st_mtime_ns, hashlib.sha256(open(p, "rb").read()).hexdigest())
    return out


def _is_text(b):
    try:
        s = b.decode("utf-8")
    except UnicodeDecodeError:
        return False
    return not any((ord(c) < 32 and c not in "\n\r\t") for c in s) and "\n" in s and "\r" not in s


def run(tier):
    t0 = time.time()
    wd = workdir(PID)
    out = Outcome(PID)
    cli = cli_exe()
    maxf = 3 if tier == "quick" else 4
    cfg = os.path.join(wd, "mc.cfg")
    open(cfg, "w").write(f"CONSTANTS\n  MaxFiles = {maxf}\nINIT Init\nNEXT Next\nINVARIANT Emit\n")
    g = tlc("gen/MC_CheckMode", cfg, workers=2, wd=wd)
    wit = os.path.join(wd, "t.wit")
    open(wit, "w").write(WIT)
    obs = []
    gens = GENERATORS if tier == "thorough" else GENERATORS[:3]
    for lang, extra in gens:
        base = os.path.join(wd, "base_" + lang)
        p = sh([cli, lang, wit, "--out-dir", base] + extra)
        if p.returncode != 0:
            raise ToolError(f"cannot generate the {lang} baseline: {p.stderr[-300:]}")
        files = sorted(_snapshot(base).keys())
        contents = {f: open(os.path.join(base, f), "rb").read() for f in files}
        text = [f for f in files if _is_text(contents[f])]
        for v in g.vecs:
            states = v["files"]
            if len(states) > len(files):
                continue
            # the first len(states) files (sorted by name) get the vector's states, the rest stay identical
            full = states + ["same"] * (len(files) - len(states))
            if any(s == "crlf" and f not in text for f, s in zip(files, full)):
                continue
            for extra_file in (False, True):
                d = os.path.join(wd, "out")
                shutil.rmtree(d, ignore_errors=True)
                os.makedirs(d)
                for f, s in zip(files, full):
                    dst = os.path.join(d, f)
                    os.makedirs(os.path.dirname(dst), exist_ok=True)
                    b = contents[f]
                    if s == "missing":
                        continue
                    if s == "altered":
                        b = b[:len(b) // 2] + bytes([(b[len(b) // 2] ^ 0x20) if b else 0x41]) + b[len(b) // 2 + 1:]
                    if s == "crlf":
                        b = b.replace(b"\n", b"\r\n")
                    if s == "truncated":
                        b = b[:max(len(b) - 7, 0)]
                    if s == "extended":
                        b = b + b"// stale\n"
                    if s == "empty":
                        b = b""
                    open(dst, "wb").write(b)
                if extra_file:
                    open(os.path.join(d, "unrelated.txt"), "w").write("keep me\n")
                before = _snapshot(d)
                p = sh([cli, lang, wit, "--out-dir", d, "--check"] + extra)
                after = _snapshot(d)
                if p.returncode not in (0, 1):
                    out.violation(f"crash:{lang}:{'/'.join(full)}", f"check mode exited with {p.returncode}: {p.stderr[-300:]}", {"lang": lang, "files": full})
                obs.append({"lang": lang, "files": full, "extra": extra_file,
                            "obs": {"exit0": p.returncode == 0,
                                    "saysLineEndings": "line endings" in p.stderr,
                                    "dirChanged": before != after},
                            "stderr": p.stderr.strip().splitlines()[-1][:200] if p.stderr.strip() else ""})
    op = os.path.join(wd, "obs.ndjson")
    write_ndjson(op, obs)
    t = tlc("gen/Obs_CheckMode", "gen/Obs_CheckMode", workers=1, wd=wd, env={"OBS": op})
    for o in t.tagged.get("MISMATCH", []):
        out.violation(f"check:{o['lang']}:{'/'.join(o['files'])}:extra={o['extra']}",
                      f"--check on a directory with file states {o['files']} behaved as {o['obs']} ({o['stderr']})", o)
    rc, unlisted = out.finish()
    write_evidence(PID, tier, "model_checking", {
        "states": g.distinct + t.distinct,
        "transitions": g.generated + t.generated,
        "traces_validated_against_impl": len(obs),
        "samples": [obs[1], obs[len(obs) // 2]],
        "exhaustive": True,
        "evaluations": len(obs),
        "distinct_nontrivial": len({(o["lang"], tuple(o["files"])) for o in obs if any(s != "same" for s in o["files"])}),
        "rule": f"all assignments of {{same, missing, altered, crlf}} to the first <= {maxf} generated files (sorted by name) of {len(gens)} "
                "generators, with and without an unrelated extra file; the real CLI (built from the working tree) runs with --check; "
                "exit status, the line-ending message and a before/after snapshot (names, sizes, mtimes, sha256) are judged by "
                "CheckMode.tla; non-trivial = some file is not identical",
    }, ["TLC", "the CLI binary is built from /repo by harness/cli", "mtime+sha256 snapshot as the 'no write' observation"], time.time() - t0, unlisted)
    return rc


def selftest():
    wd = workdir(PID + "_self")
    op = os.path.join(wd, "obs.ndjson")
    write_ndjson(op, [{"lang": "x", "files": ["same", "crlf"], "extra": False, "obs": {"exit0": True, "saysLineEndings": False, "dirChanged": False}},
                      {"lang": "x", "files": ["same"], "extra": False, "obs": {"exit0": True, "saysLineEndings": False, "dirChanged": True}}])
    t = tlc("gen/Obs_CheckMode", "gen/Obs_CheckMode", workers=1, wd=wd, env={"OBS": op})
    if not t.tagged.get("MISMATCH"):
        log("selftest C33: bad observation accepted")
        return 2
    log("selftest C33 ok")
    return 0
