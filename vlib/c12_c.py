"""C12  Generated C builds and componentizes as exactly the requested world.

Worlds come from specs/gen/WorldGrammar.tla (TLC, GEN mode) plus adversarial-name worlds and the
tests/codegen corpus, minus the C backend's declared exclusions; every option variant of
crates/test/src/c.rs plus --string-encoding utf16.  The oracle is the real tool chain: clang
--target=wasm32 with the repository runner's flags (-Wall -Wextra -Werror -Wc++-compat), wasm-ld
together with the generated *_component_type.o, then wit_component::ComponentEncoder (validation
on) on the linked module; the decoded component's world must be the requested one."""
import glob
import os
import re
import shutil
import time

from .core import *
from .genprobe import *
from . import surface_scan as ss

PID = "C12"


def variants(tier):
    vs = [("", [])] + [(n, a) for n, a in backend_info("c")["variants"]]
    vs.append(("utf16", ["--string-encoding=utf16"]))
    return vs


def run(tier):
    t0 = time.time()
    wd = workdir(PID)
    out = Outcome(PID)
    cli = cli_exe()
    sx = os.path.join(cargo_build("surface"), "surface")
    ss.ensure_libc()
    g, worlds = grammar_worlds(wd, full=False, k=0 if tier == "quick" else 4)
    if tier == "quick":
        worlds = worlds[::2]
    wdir = os.path.join(wd, "worlds")
    paths = write_worlds(worlds, wdir)
    from .c09_names import adversarial_worlds
    for n, (name, wit) in enumerate(adversarial_worlds("c")):
        d = os.path.join(wdir, f"adv-{name}")
        os.makedirs(d, exist_ok=True)
        open(os.path.join(d, "w.wit"), "w").write(wit)
        paths.append(os.path.join(d, "w.wit"))
    inputs = paths + corpus_files()
    feats = wit_features(inputs)
    excl, _ = excluded_features("c")
    units = []
    for vname, vargs in variants(tier):
        for i, p in enumerate(inputs):
            f = feats[p]
            if "error" in f or not supported("c", f["features"], vname if vname != "utf16" else "", excl, p, f):
                continue
            if tier == "quick" and vname in ("autodrop", "utf16", "no-sig-flattening") and i % 3:
                continue
            units.append({"variant": vname, "args": cli_args("c", vargs), "i": i, "wit": p, "out": os.path.join(wd, "out", f"{vname or 'default'}-{i}")})
    gen = run_matrix(cli, [{"lang": "c", "wit": u["wit"], "out": u["out"], "args": u["args"]} for u in units], workers=16, wd=wd)
    cc, links = [], []
    for n, (u, j) in enumerate(zip(units, gen)):
        u["gen"] = j["res"]["status"]
        if u["gen"] != "ok":
            continue
        cmds, link = ss.c_compile_cmds(u["out"])
        cc += [(f"{n}:{m}", c) for m, c in enumerate(cmds)]
        links.append((str(n), link))
    rcc = run_commands(cc, wd, workers=16, timeout_ms=120000)
    failed = {}
    for cid, r in sorted(rcc.items()):
        if r["rc"] != 0:
            failed.setdefault(int(cid.split(":")[0]), (r.get("stderr_head", "") + r["stderr"]))
    rl = run_commands([l for l in links if int(l[0]) not in failed], wd, workers=16, timeout_ms=120000)

    def name_of(u):
        p = u["wit"]
        return os.path.basename(p) if "tests/codegen" in p else "gen:" + os.path.basename(os.path.dirname(p))

    def ctx_of(u, extra=None):
        c = {"name": name_of(u), "variant": u["variant"], "args": u["args"], "wit": open(u["wit"]).read() if os.path.isfile(u["wit"]) else u["wit"]}
        c.update(extra or {})
        return c
    jobs = []
    compiled = 0
    for n, u in enumerate(units):
        if u["gen"] != "ok":
            continue
        if n in failed:
            err = failed[n]
            first = next((l for l in err.splitlines() if "error" in l), err[-200:])
            first = re.sub(r"/verif/work/C12/out/[^/]*/", "", first)
            msg = re.sub(r"'[^']*'", "'_'", first.split("error:")[-1].strip())
            out.violation("clang:" + re.sub(r"\d+", "N", msg)[:110], f"generated C for {name_of(u)} [{u['variant'] or 'default'}] does not compile: {first[:300]}", ctx_of(u, {"stderr": err[-1500:]}))
            continue
        r = rl.get(str(n))
        if r is None or r["rc"] != 0:
            err = (r or {}).get("stderr", "no link result")
            first = next((l for l in err.splitlines() if "error" in l), err[-200:])
            out.violation("wasm-ld:" + re.sub(r"\d+", "N", re.sub(r"/verif/work/\S*", "_", first))[:110], f"generated C for {name_of(u)} [{u['variant'] or 'default'}] does not link: {first[:300]}",
                          ctx_of(u, {"stderr": err[-1500:]}))
            continue
        compiled += 1
        jobs.append({"id": str(n), "wit": u["wit"], "module": os.path.join(u["out"], "linked.wasm")})
    write_ndjson(os.path.join(wd, "comp_jobs.ndjson"), jobs)
    sh([sx, "component", os.path.join(wd, "comp_jobs.ndjson"), os.path.join(wd, "comp_out.ndjson")], check=True, timeout=3000)
    res = {r["id"]: r for r in read_ndjson(os.path.join(wd, "comp_out.ndjson"))}
    # applicability of the encoder: `--async=all` over functions the WIT declares sync cannot be encoded at all
    # (wasmparser wants an `async func` type for an async lift/lower), and neither can flags > 32 / stream<char>:
    # the reference surface of the same input decides (same rule as C13)
    ref_jobs = [{"id": j["id"], "wit": j["wit"], "async": ["all"] if units[int(j["id"])]["variant"] == "async" else []} for j in jobs]
    write_ndjson(os.path.join(wd, "ref_jobs.ndjson"), ref_jobs)
    sh([sx, "reference", os.path.join(wd, "ref_jobs.ndjson"), os.path.join(wd, "ref_out.ndjson")], check=True, timeout=3000)
    base = []
    for r in read_ndjson(os.path.join(wd, "ref_out.ndjson")):
        if "tool_error" in r:
            continue
        base.append({"id": r["id"], "wit": units[int(r["id"])]["wit"], "imports": [{k: x[k] for k in ("module", "name", "params", "results")} for x in r["imports"]],
                     "exports": [e for e in r["exports"] if e["required"]]})
    write_ndjson(os.path.join(wd, "base_jobs.ndjson"), base)
    sh([sx, "encode", os.path.join(wd, "base_jobs.ndjson"), os.path.join(wd, "base_out.ndjson")], check=True, timeout=3000)
    encodable = {r["id"] for r in read_ndjson(os.path.join(wd, "base_out.ndjson")) if r.get("encoder") == "ok"}
    accepted = not_applicable = 0
    for j in jobs:
        u = units[int(j["id"])]
        r = res[j["id"]]
        if "tool_error" in r:
            raise ToolError(f"surface component failed on {name_of(u)}: {r['tool_error']}")
        if j["id"] not in encodable:
            not_applicable += 1
            continue
        if r["encoder"] != "ok":
            msg = re.sub(r"`[^`]*`", "`_`", re.sub(r"\d+", "N", r["error"]))[:110]
            out.violation("encoder:" + msg, f"the component encoder rejects the module linked from the generated C for {name_of(u)} [{u['variant'] or 'default'}]: {r['error'][:400]}", ctx_of(u))
            continue
        accepted += 1
        want, got = r["want"], r["got"]
        enc_want = "UTF16" if u["variant"] == "utf16" else "UTF8"
        if set(r.get("encodings", [])) - {enc_want}:
            out.violation("string-encoding", f"{name_of(u)} [{u['variant'] or 'default'}]: the component-type object declares string encoding {r['encodings']}, "
                          f"the bindings were generated for {enc_want}", ctx_of(u))
        if want["exports"] != got["exports"]:
            out.violation("world:exports", f"{name_of(u)} [{u['variant'] or 'default'}]: the component exports {sorted(got['exports'])}, the world {sorted(want['exports'])}", ctx_of(u))
        for nm, item in got["imports"].items():
            w = want["imports"].get(nm)
            if w is None or w["kind"] != item["kind"] or (item["kind"] == "interface" and not set(item["funcs"]) <= set(w["funcs"])):
                out.violation("world:imports-extra", f"{name_of(u)} [{u['variant'] or 'default'}]: the component imports `{nm}` {item}, which the world does not", ctx_of(u))
        for nm, item in want["imports"].items():
            gi = got["imports"].get(nm)
            if item["kind"] == "func" and gi is None:
                out.violation("world:imports-missing", f"{name_of(u)} [{u['variant'] or 'default'}]: the world imports function `{nm}` but the generated bindings never import it", ctx_of(u))
            if item["kind"] == "interface" and item["funcs"] and (gi is None or set(gi["funcs"]) != set(item["funcs"])):
                out.violation("world:imports-missing", f"{name_of(u)} [{u['variant'] or 'default'}]: imported interface `{nm}` has functions {item['funcs']}, the component imports "
                              f"{gi['funcs'] if gi else 'nothing'}", ctx_of(u))
    shutil.rmtree(os.path.join(wd, "out"), ignore_errors=True)
    write_ndjson(os.path.join(wd, "violations.ndjson"), [{"key": k, "desc": d, "name": r.get("name", "")} for k, d, r in out.violations])
    rc, unlisted = out.finish()
    write_evidence(PID, tier, "exploration", {
        "evaluations": sum(1 for u in units if u["gen"] == "ok"),
        "distinct_nontrivial": len({(w["ctor"], w["wrap"]) for w in worlds}),
        "rule": "worlds of WorldGrammar.tla (TLC GEN mode) + adversarial-name worlds (C keywords, generated temporaries, case/separator "
                "collisions) + tests/codegen, minus the C backend's declared exclusions, x {default, no-sig-flattening, autodrop, async, utf16}; "
                "clang --target=wasm32 -Wall -Wextra -Werror -Wc++-compat, wasm-ld with the component-type object, ComponentEncoder with "
                "validation, decoded world compared with the requested one; non-trivial = distinct (constructor, position) cells",
        "samples": [{"wit": open(units[5]["wit"]).read(), "variant": units[5]["variant"]}],
        "units": len(units), "generation_failed_not_judged_here": sum(1 for u in units if u["gen"] != "ok"),
        "compiled_and_linked": compiled, "encoder_accepted": accepted, "encoder_not_applicable": not_applicable,
        "tlc": {"distinct": g.distinct, "generated": g.generated},
    }, ["clang 14 / wasm-ld 14 with a freestanding libc shim (harness/cshim) instead of wasi-sdk",
        "--no-gc-sections keeps every generated import wrapper referenced, so the component imports everything the bindings can import",
        "where even the reference surface cannot be encoded (`--async=all` over functions declared sync, flags > 32, stream<char>) the "
        "check stops after linking"], time.time() - t0, unlisted)
    return rc


def selftest():
    wd = workdir(PID + "_self")
    ss.ensure_libc()
    open(os.path.join(wd, "bad.c"), "w").write("#include <stdint.h>\nint32_t f(void) { return undeclared; }\n")
    r = run_commands([("x", ["clang"] + ss.CLANG_FLAGS + [os.path.join(wd, "bad.c"), "-o", os.path.join(wd, "bad.o")])], wd)
    if r["x"]["rc"] == 0:
        log("selftest C12: ill-formed C accepted")
        return 2
    log("selftest C12 ok")
    return 0
