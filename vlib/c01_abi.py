"""C01  Shared ABI generator encodes and decodes every WIT value per the spec."""
import os
import time

from .core import *
from .abi import *

PID = "C01"


def _key(r, p):
    t = json.dumps(r["t"], sort_keys=True)
    return f"{p.get('scenario')}:W{r['W']}:canon{int(r['canon'])}:{t}"[:300]


def classify(t):
    """type-shape class used for the distinct_nontrivial count"""
    k = t["k"]
    if k in ("list", "option", "flist", "future", "stream"):
        return f"{k}<{classify(t['t']) if t['t'].get('k') != 'none' else '_'}>"
    if k == "map":
        return f"map<{classify(t['key'])},{classify(t['val'])}>"
    if k in ("record", "tuple"):
        return f"{k}<{','.join(classify(f) for f in t['fs'])}>"
    if k == "variant":
        return "variant<" + ",".join(classify(c) if c.get("k") != "none" else "_" for c in t["cs"]) + ">"
    if k == "result":
        return "result<" + ",".join(classify(c) if c.get("k") != "none" else "_" for c in (t["ok"], t["err"])) + ">"
    if k in ("enum", "flags"):
        return f"{k}{t['n']}"
    return k


def run(tier):
    t0 = time.time()
    wd = workdir(PID)
    out = Outcome(PID)
    exe = interp_exe()
    level = 1 if tier == "quick" else 2
    g = gen_vectors(wd, level)
    vp = os.path.join(wd, "vecs.ndjson")
    write_ndjson(vp, g.vecs)
    rp = os.path.join(wd, "replay.ndjson")
    sh([exe, "c01", "replay", vp, rp], check=True, timeout=3000)
    rows = read_ndjson(rp)
    done = rows[-1]
    if done.get("done") != len(g.vecs):
        raise ToolError("abi-interp c01 replay did not finish")
    skipped = [r for r in rows[:-1] if "skipped" in r]
    if done["skipped"] > len(g.vecs) // 20:
        raise ToolError(f"{done['skipped']} vectors skipped (WIT rejected), e.g. {skipped[:2]}")
    for r in rows[:-1]:
        if "skipped" in r:
            continue
        p = r["problems"][0]
        out.violation(_key(r, p), f"type {classify(r['t'])} value {json.dumps(r['v'])[:200]} W={r['W']} canon={r['canon']}: {p}", r)
    rc, unlisted = out.finish()
    shapes = {classify(v["t"]) for v in g.vecs if v["t"]["k"] not in
              ("bool", "u8", "s8", "u16", "s16", "u32", "s32", "u64", "s64", "f32", "f64", "char", "errctx")}
    write_evidence(PID, tier, "model_checking", {
        "states": g.distinct,
        "transitions": g.generated,
        "traces_validated_against_impl": done["runs"],
        "samples": [{k: g.vecs[i][k] for k in ("t", "v", "W", "flat", "mem", "blocks")} for i in (len(g.vecs) // 3, len(g.vecs) - 1)],
        "exhaustive": True,
        "evaluations": done["runs"] * 5,
        "distinct_nontrivial": len(shapes),
        "rule": f"TLC enumerates the level-{level} type closure of MC_CanonABI.tla x boundary values x pointer width {{4,8}}; "
                "each vector is run through the real abi::lower_flat, lower_to_memory and lift_from_memory (twice: what was "
                "lowered, and the spec's own image with garbage in padding) in both list modes; non-trivial = distinct "
                "non-scalar type shapes",
        "vectors": len(g.vecs),
        "skipped_invalid_wit": done["skipped"],
    }, ["TLC", "the interpreter harness/abi-interp (instruction semantics as documented on abi::Instruction)",
        "the transcription of the Component Model canonical ABI in specs/abi/CanonABI.tla",
        "wit-parser's SizeAlign is part of the pipeline under test (offsets are taken from it)"],
        time.time() - t0, unlisted)
    return rc


def selftest():
    wd = workdir(PID + "_self")
    exe = interp_exe()
    g = gen_vectors(wd, 1)
    vs = [v for v in g.vecs if v["t"]["k"] == "tuple" and len(v["mem"]) > 4][:40]
    for v in vs:
        # corrupt one expected byte
        for i, c in enumerate(v["mem"]):
            if 0 <= c < 255:
                v["mem"][i] = c + 1
                break
    vp = os.path.join(wd, "v.ndjson")
    write_ndjson(vp, vs)
    rp = os.path.join(wd, "o.ndjson")
    sh([exe, "c01", "replay", vp, rp], check=True)
    bad = [r for r in read_ndjson(rp) if "problems" in r]
    if len(bad) < len(vs):
        log(f"selftest C01: only {len(bad)} of {len(vs)} corrupted vectors rejected")
        return 2
    log("selftest C01 ok")
    return 0
