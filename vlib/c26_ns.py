"""C26  Fresh temporary names never collide with defined names (crates/core/src/ns.rs)."""
import os
import time

from .core import *

PID = "C26"


def _small():
    return os.path.join(cargo_build("small"), "small")


def _mc(wd, cfg, outcome):
    r = tlc("gen/MC_Ns", cfg, workers=4, wd=wd)
    if r.violated:
        # the *design* (faithful model of ns.rs) violates the property
        outcome.violation(f"model:{r.violated}", "TLC found a behaviour of the Ns model violating " + r.violated,
                          {"tlc_trace": r.trace})
    return r


def _witness(wd, cfg_src, names):
    """Non-vacuity: every witness predicate (negated reachability) must be violated."""
    cfg = open(os.path.join(SPECS, cfg_src + ".cfg")).read()
    for w in names:
        path = os.path.join(wd, f"wit_{w}.cfg")
        lines = [l for l in cfg.splitlines() if not l.startswith("INVARIANT")]
        open(path, "w").write("\n".join(lines) + f"\nINVARIANT {w}\n")
        r = tlc("gen/MC_Ns", path, workers=2, wd=wd)
        if r.violated != w:
            raise ToolError(f"vacuity: witness {w} not reachable in the bounded model")


def run(tier):
    t0 = time.time()
    wd = workdir(PID)
    out = Outcome(PID)
    exe = _small()
    # 1. model checking of the faithful model (no history variable)
    mc = _mc(wd, "gen/MC_Ns", out)
    _witness(wd, "gen/MC_Ns", ["W_TmpWithSuffix", "W_TmpSkipsDefinedSuffix", "W_InsertErr"])
    # 2. GEN: every history of the bound, replayed into the real Ns
    gen_cfg = "gen/MC_Ns_gen"
    if tier == "thorough":
        gen_cfg = os.path.join(wd, "gen6.cfg")
        open(gen_cfg, "w").write(open(os.path.join(SPECS, "gen/MC_Ns_gen.cfg")).read().replace("MaxOps = 5", "MaxOps = 6"))
    g = tlc("gen/MC_Ns", gen_cfg, workers=8, wd=wd, xmx="8g")
    if g.violated:
        out.violation(f"model:{g.violated}", "model violates " + g.violated, {"tlc_trace": g.trace})
    vec_path = os.path.join(wd, "vecs.ndjson")
    write_ndjson(vec_path, g.vecs)
    res_path = os.path.join(wd, "replay_out.ndjson")
    sh([exe, "ns", "replay", vec_path, res_path], check=True)
    rows = read_ndjson(res_path)
    if not rows or rows[-1].get("done") != len(g.vecs):
        raise ToolError("replay did not finish")
    for r in rows[:-1]:
        hist = r["vec"]["hist"]
        key = "replay:" + ",".join(f"{s['op']}({s['arg']})" for s in hist)
        out.violation(key, f"real Ns returned {r['got']} where the spec expects {[s['res'] for s in hist]}"
                      f" (final state ok: {r['state_ok']})", r)
    # 3. VAL/TRACE: seeded random longer histories over a wider alphabet, validated by TLC
    n_hist = 400 if tier == "quick" else 4000
    tr = os.path.join(wd, "trace.ndjson")
    sh([exe, "ns", "record", str(seed()), str(n_hist), tr], check=True)
    nev = sum(1 for _ in open(tr))
    t = tlc("gen/Trace_Ns", "gen/Trace_Ns", workers=1, wd=wd, env={"TRACE": tr}, dfs=True, xmx="2g")
    traces_ok = n_hist
    if t.violated or t.tagged.get("REJECTED"):
        traces_ok = 0
        info = (t.tagged.get("REJECTED") or [{}])[0]
        out.violation(f"trace:{t.violated or 'rejected'}",
                      f"recorded Ns history not accepted by the spec: {info}", {"trace_file": tr, "info": info,
                      "tlc": t.trace[:60]})
    rc, unlisted = out.finish()
    hist_sample = [g.vecs[0], g.vecs[len(g.vecs) // 2]] if g.vecs else []
    write_evidence(PID, tier, "model_checking", {
        "states": mc.distinct + g.distinct + t.distinct,
        "transitions": mc.generated + g.generated + t.generated,
        "traces_validated_against_impl": traces_ok,
        "samples": hist_sample,
        "exhaustive": True,
        "evaluations": len(g.vecs) + n_hist,
        "distinct_nontrivial": sum(1 for v in g.vecs if any(s["op"] == "tmp" and s["res"] != s["arg"] for s in v["hist"])),
        "rule": "every history of MaxOps calls over Names/Bases (GEN) is replayed on the real Ns; non-trivial = "
                "a history in which some tmp() had to append a numeric suffix",
        "mc": {"distinct": mc.distinct, "generated": mc.generated, "constants": "MC_Ns.cfg"},
        "gen": {"vectors": len(g.vecs), "cfg": os.path.basename(gen_cfg)},
        "trace_validation": {"histories": n_hist, "events": nev, "tlc_states": t.distinct},
    }, ["TLC", "harness/small/src/ns.rs projection (probing insert on the alphabet)"], time.time() - t0, unlisted)
    return rc


def selftest():
    """The binding must be able to fail: corrupt one expected result and one recorded event."""
    wd = workdir(PID + "_self")
    exe = _small()
    g = tlc("gen/MC_Ns", "gen/MC_Ns_gen", workers=4, wd=wd)
    v = g.vecs[:50]
    # flip one expected result
    for x in v:
        for s in x["hist"]:
            if s["op"] == "tmp":
                s["res"] = s["res"] + "9"
                break
    write_ndjson(os.path.join(wd, "v.ndjson"), v)
    sh([exe, "ns", "replay", os.path.join(wd, "v.ndjson"), os.path.join(wd, "o.ndjson")], check=True)
    bad = [r for r in read_ndjson(os.path.join(wd, "o.ndjson")) if "i" in r]
    if not bad:
        log("selftest C26: corrupted vector not rejected")
        return 2
    tr = os.path.join(wd, "t.ndjson")
    sh([exe, "ns", "record", "7", "20", tr], check=True)
    rows = read_ndjson(tr)
    k = next(i for i, r in enumerate(rows) if r["op"] == "tmp")
    rows[k]["res"] = rows[k]["res"] + "x"
    write_ndjson(tr, rows)
    t = tlc("gen/Trace_Ns", "gen/Trace_Ns", workers=1, wd=wd, env={"TRACE": tr}, dfs=True)
    if not (t.violated or t.tagged.get("REJECTED")):
        log("selftest C26: corrupted trace accepted")
        return 2
    log("selftest C26 ok")
    return 0
