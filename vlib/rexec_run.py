"""C05 / C06: generated Rust bindings executed natively against the spec-driven host.
TLC (MC_RustExec over CallConv/CanonABI) produces, for every function and value of the universe,
the canonical core-level encoding at pointer width 8; the real generator's bindings for that
function are compiled for the host, their core imports routed to harness/vhost (`nativise`), and
run.  C05 judges values (what the bindings lower must be the spec's encoding; what they lift is
lowered again and compared), C06 judges the heap ledger."""
import glob
import os
import re
import shutil
import time

from .core import *
from .genprobe import cli_args, run_commands, run_matrix
from . import rexec, rustprobe

PROPS = {"C05": ("lowered-args", "lowered-result", "panic", "unexpected-import", "not-done", "compile"),
         "C06": ("leak", "free-unknown", "free-wrong-layout", "freed-foreign")}
CONFIGS = {"default": [], "borrowing": ["--ownership=borrowing"], "merge-equal": ["--merge-structurally-equal-types"],
           "hashmap": ["--map-type=std::collections::HashMap"], "raw-strings": ["--raw-strings"], "no-std": ["--std-feature"]}


def shape(t):
    k = t["k"]
    if k in ("list", "option"):
        return f"{k}<{shape(t['t'])}>"
    if k == "result":
        return f"result<{shape(t['ok'])},{shape(t['err'])}>"
    if k in ("tuple", "record"):
        fs = t["fs"]
        return f"{k}{len(fs)}" if len(fs) > 3 else f"{k}<" + ",".join(shape(f) for f in fs) + ">"
    if k == "variant":
        cs = t["cs"]
        return f"variant{len(cs)}" if len(cs) > 3 else "variant<" + ",".join(shape(c) for c in cs) + ">"
    if k in ("enum", "flags"):
        return f"{k}{t['n']}"
    return k


def sig_shape(u):
    return "(" + ",".join(shape(p) for p in u["ps"]) + ")->" + shape(u["r"])


def run_all(tier, wd, unit_filter=None):
    cli = cli_exe()
    vhost_dir = cargo_build("vhost")
    cfg = "abi/MC_RustExec" if tier == "quick" else None
    if cfg is None:
        cfg = os.path.join(wd, "deep.cfg")
        open(cfg, "w").write(open(os.path.join(SPECS, "abi/MC_RustExec.cfg")).read().replace("Deep = FALSE", "Deep = TRUE"))
    g = tlc("abi/MC_RustExec", cfg, workers=12, wd=wd, xmx="12g", timeout=3400)
    units = {}
    for v in g.vecs:
        key = json.dumps([v["ps"], v["r"]], sort_keys=True)
        u = units.setdefault(key, {"ps": v["ps"], "r": v["r"], "cases": [], "kind": v["kind"]})
        if len(u["cases"]) < (6 if tier == "quick" else 12):
            u["cases"].append({"args": v["args"], "res": v["res"], "enc": v["enc"], "encEcho": v["encEcho"]})
    units = list(units.values())
    if unit_filter is not None:
        units = [u for u in units if unit_filter(u)]
    if os.environ.get("VERIF_UNIT_FILTER"):      # development aid: only the signatures whose shape contains the text
        units = [u for u in units if os.environ["VERIF_UNIT_FILTER"] in sig_shape(u)]
    # the test programs are written against the API of the default options; the other option sets change the API shapes
    # (borrowed views, byte strings) in ways the literal renderer covers only partly, so they are not executed (that their
    # bindings compile is C09's business)
    configs = ["default"]
    jobs = []
    for n, u in enumerate(units):
        for cfgname in configs:
            if cfgname != "default" and n % 3:
                continue
            d = os.path.join(wd, "units", f"{n}-{cfgname}")
            os.makedirs(d, exist_ok=True)
            wit, defs = rexec.unit_world(u["ps"], u["r"])
            open(os.path.join(d, "w.wit"), "w").write(wit)
            jobs.append({"n": n, "u": dict(u, defs=defs), "cfg": cfgname, "d": d, "wit": wit})
    gen = run_matrix(cli, [{"lang": "rust", "wit": os.path.join(j["d"], "w.wit"), "out": os.path.join(j["d"], "gen"), "args": CONFIGS[j["cfg"]]} for j in jobs], workers=16, wd=wd)
    envs, cmd, _ = rustprobe.probe_rustc(wd)
    cmd = [a for a in cmd]
    for k, a in enumerate(cmd):
        if a == "--crate-type" and k + 1 < len(cmd):
            cmd[k + 1] = "bin"
    findings, cmds = [], []
    skipped_views = 0
    for j, r in zip(jobs, gen):
        j["gen"] = r["res"]
        if r["res"]["status"] != "ok":
            findings.append({"kind": "compile", "unit": j, "detail": f"the Rust generator fails on the unit's world: {r['res']}"})
            continue
        src = open(os.path.join(j["d"], "gen", "w.rs")).read()
        try:
            nat, nimports = rexec.nativise(src)
            open(os.path.join(j["d"], "w_native.rs"), "w").write(nat)
            post = "cabi_post_t:w/e#f" in src
            open(os.path.join(j["d"], "main.rs"), "w").write(rexec.test_main(j["u"], src, post))
        except rexec.Inexpressible:
            skipped_views += 1          # only under --ownership=borrowing: the signature wants nested borrowed views
            continue
        except ToolError as e:
            raise ToolError(f"unit {sig_shape(j['u'])} [{j['cfg']}]: {e}")
        json.dump(rexec.unit_vector(j["u"]), open(os.path.join(j["d"], "vector.json"), "w"))
        pre, argv = rustprobe.replay(envs, cmd, os.path.join(j["d"], "main.rs"), os.path.join(j["d"], "bin"), emit="link",
                                     extra=["--extern", f"vhost={os.path.join(vhost_dir, 'libvhost.rlib')}", "-L", f"dependency={os.path.join(vhost_dir, 'deps')}"])
        cmds.append((str(len(cmds)), pre + argv))
        j["cmd_id"] = str(len(cmds) - 1)
    res = run_commands(cmds, wd, workers=16, timeout_ms=600000)
    runs = []
    for j in jobs:
        if "cmd_id" not in j:
            continue
        r = res[j["cmd_id"]]
        if r["rc"] != 0:
            err = r.get("stderr_head", "") + r["stderr"]
            first = next((l for l in err.splitlines() if l.startswith("error")), err[-300:])
            findings.append({"kind": "compile", "unit": j, "detail": f"the nativised bindings + test do not compile: {first[:300]}", "stderr": err[:3000]})
            continue
        exes = [f for f in glob.glob(os.path.join(j["d"], "bin", "*")) if os.access(f, os.X_OK) and os.path.isfile(f) and not f.endswith(".d")]
        if len(exes) != 1:
            raise ToolError(f"expected one executable in {j['d']}/bin: {exes}")
        j["out"] = os.path.join(j["d"], "out.ndjson")
        runs.append((j["cmd_id"], ["env", f"VERIF_VECTOR={os.path.join(j['d'], 'vector.json')}", f"VERIF_OUT={j['out']}", exes[0]]))
    rr = run_commands(runs, wd, workers=16, timeout_ms=120000)
    stats = {"units": len(units), "jobs": len(jobs), "executed": 0, "cases": 0, "import_calls": 0, "export_calls": 0, "tlc": g,
             "not_executed_nested_borrowed_views": skipped_views}
    for j in jobs:
        if "out" not in j:
            continue
        r = rr[j["cmd_id"]]
        rows = read_ndjson(j["out"]) if os.path.exists(j["out"]) else []
        stats["executed"] += 1
        case = 0
        done = False
        for row in rows:
            if "case" in row:
                case = row["case"]
                stats["cases"] += 1
            elif "import_called" in row:
                stats["import_calls"] += 1
            elif "export_returned" in row:
                stats["export_calls"] += 1
            elif "done" in row:
                done = True
            elif "problem" in row:
                findings.append({"kind": row["problem"], "unit": j, "case": case, "detail": row["detail"]})
        if not done and not any(f["unit"] is j and f["kind"] == "panic" for f in findings):
            findings.append({"kind": "not-done", "unit": j, "case": case,
                             "detail": f"the test program died (rc={r['rc']}, signal={r.get('signal')}): {(r.get('stderr_head', '') + r['stderr'])[-300:]}"})
    return findings, stats


def _tree_key(tier):
    """identifies the code under test and the machinery: the sibling property reuses a run only for exactly the same trees"""
    import hashlib
    h = hashlib.sha256(tier.encode())
    for d in (REPO, VERIF):
        for cmd in (["git", "-C", d, "rev-parse", "HEAD"], ["git", "-C", d, "diff", "HEAD"], ["git", "-C", d, "status", "--porcelain"]):
            h.update(sh(cmd).stdout.encode())
    h.update(str(seed()).encode())
    return h.hexdigest()


def cached_run_all(tier, wd):
    """C05/C06 (C10/C11) are two judgements of one run: the second property reuses the findings of the first when /repo and
    /verif are byte-for-byte the same trees (key: HEAD + diff + status of both)."""
    import pickle
    key = _tree_key(tier)
    cp = os.path.join(WORK, f"%s_{tier}.cache" % __name__.split(".")[-1])
    if os.path.exists(cp):
        try:
            k, data = pickle.load(open(cp, "rb"))
            if k == key:
                os.remove(cp)            # one reuse only: a third run is a fresh one
                log(f"[cache] reusing the run of the sibling property ({os.path.basename(cp)})")
                return data
        except Exception:
            pass
    findings, stats = run_all(tier, wd)
    for f in findings:
        f["unit"]["u"].pop("defs", None)
    stats2 = dict(stats)
    g = stats2.pop("tlc")
    import types
    stats2["tlc"] = types.SimpleNamespace(distinct=g.distinct, generated=g.generated)
    try:
        pickle.dump((key, (findings, stats2)), open(cp, "wb"))
    except Exception as e:
        log(f"[cache] not written: {e}")
    return findings, stats


def run_property(pid, tier):
    t0 = time.time()
    wd = workdir(pid)
    out = Outcome(pid)
    findings, stats = cached_run_all(tier, wd)
    mine = [f for f in findings if f["kind"] in PROPS[pid]]
    for f in mine:
        u = f["unit"]
        ctx = {"signature": sig_shape(u["u"]), "config": u["cfg"], "wit": u["wit"], "case": f.get("case"), "detail": f["detail"]}
        if "case" in f and f["case"] is not None and f["case"] < len(u["u"]["cases"]):
            c = u["u"]["cases"][f["case"]]
            ctx["args"], ctx["res"] = c["args"], c["res"]
        if "stderr" in f:
            ctx["stderr"] = f["stderr"]
        det = re.sub(r"0x[0-9a-f]+", "0xN", f["detail"])
        det = re.sub(r"\d+", "N", det)
        out.violation(f"{f['kind']}:{u['cfg']}:{sig_shape(u['u'])}:{det[:60]}", f"{sig_shape(u['u'])} [{u['cfg']}] case {f.get('case')}: {f['detail'][:400]}", ctx)
    shutil.rmtree(os.path.join(wd, "units"), ignore_errors=True)
    write_ndjson(os.path.join(wd, "violations.ndjson"), [{"key": k, "desc": d} for k, d, _ in out.violations])
    rc, unlisted = out.finish()
    g = stats.pop("tlc")
    write_evidence(pid, tier, "model_checking", {
        "states": g.distinct, "transitions": g.generated, "traces_validated_against_impl": stats["cases"],
        "samples": [{"signature": "see rule", "note": "vectors of MC_RustExec.tla"}],
        **stats,
        "spec": "specs/abi/MC_RustExec.tla over CallConv.tla/CanonABI.tla: functions f(x: T) -> T for every type of the universe with every boundary "
                "value, and the multi-parameter functions that cross the flattening limits; CallEncoding gives the canonical core-level encoding at "
                "pointer width 8 that the host (harness/vhost) compares with / builds in real memory",
    }, ["the bindings run natively (x86-64, pointer width 8), their core imports routed to the host by a textual rewrite of the generator's own "
        "non-wasm32 fallback stubs; exports are called through their real export_name symbols, post-return included",
        "lifted values are judged by lowering them again through a second import (the lowering itself is judged directly from literals)",
        "the heap ledger is a counting global allocator; stack and static memory cannot be judged"], time.time() - t0, unlisted)
    return rc
