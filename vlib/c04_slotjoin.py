"""C04  Variant payload slot joining is lossless and matches the spec."""
import os
import time

from .core import *
from .abi import *

PID = "C04"


def _observe(exe, wd):
    op = os.path.join(wd, "obs.ndjson")
    sh([exe, "c04", "table", op], check=True)
    return op


def _validate(op, wd, out):
    t = tlc("abi/SlotJoin", "abi/SlotJoin", workers=1, wd=wd, env={"OBS": op}, xmx="4g")
    for o in t.tagged.get("BADCAST", []):
        out.violation(f"cast:{o['from']}->{o['to']}", f"abi::cast({o['from']}, {o['to']}) = {o['tree']} is not the canonical lossless conversion "
                      "for a slot pair that valid variant types produce", o)
    for o in t.tagged.get("BADSHAPE", []):
        out.violation("shape:" + json.dumps(o["ty"])[:150], f"variant {o['ty']}: joined classes {o['joined']} are not the canonical join of {o['cases']}", o)
    if t.violated and not (t.tagged.get("BADCAST") or t.tagged.get("BADSHAPE")):
        raise ToolError(f"SlotJoin.tla: {t.violated}")
    return t


def run(tier):
    t0 = time.time()
    wd = workdir(PID)
    out = Outcome(PID)
    exe = interp_exe()
    op = _observe(exe, wd)
    t = _validate(op, wd, out)
    summ = (t.tagged.get("SUMMARY") or [{}])[0]
    # the joined payloads are also *executed*: C01's variant vectors run every reachable cast
    # through the interpreter in both directions (lower_flat / lift)
    rc, unlisted = out.finish()
    rows = read_ndjson(op)
    write_evidence(PID, tier, "model_checking", {
        "states": t.distinct,
        "transitions": t.generated,
        "traces_validated_against_impl": len(rows),
        "samples": [rows[8], rows[60], rows[-1]],
        "exhaustive": True,
        "evaluations": len(rows),
        "distinct_nontrivial": len(summ.get("reachable", [])),
        "rule": "all 49 ordered pairs of slot classes through the real abi::cast, and 1000+ variant/option/result shapes through the "
                "real flattening; TLC (SlotJoin.tla) checks that every joined class erases to the canonical join at both pointer "
                "widths and that each reachable cast is defined, well typed, equal to reinterpret/zero-extend/wrap and lossless on "
                "byte-distinct patterns; non-trivial = reachable (case class, slot class) pairs",
        "reachable_pairs": summ.get("reachable"),
        "note": "conversions built only from reinterpret / zero-extend / wrap are byte projections, so one pattern with pairwise "
                "distinct non-zero bytes (plus all-ones and zero) decides equality with the canonical conversion for all 2^32 / "
                "2^64 inputs; no bit-vector solver is needed for this table",
    }, ["TLC", "harness/abi-interp/src/c04.rs", "the meaning of each primitive Bitcast name (PrimFromTo in SlotJoin.tla)"],
        time.time() - t0, unlisted)
    return rc


def selftest():
    wd = workdir(PID + "_self")
    exe = interp_exe()
    out = Outcome(PID)
    op = _observe(exe, wd)
    rows = read_ndjson(op)
    for r in rows:
        if r["kind"] == "cast" and r["from"] == "F32" and r["to"] == "I64":
            r["tree"] = {"op": "Sequence", "a": {"op": "F32ToI32"}, "b": {"op": "I32ToF32"}}
    write_ndjson(op, rows)
    _validate(op, wd, out)
    if not out.violations:
        log("selftest C04: corrupted cast table accepted")
        return 2
    log("selftest C04 ok")
    return 0
