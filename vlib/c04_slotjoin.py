"""C04  Variant payload slot joining is lossless and matches the spec."""
import os
import re
import shutil
import time

from .core import *
from .abi import *

PID = "C04"


def _observe(exe, wd):
    op = os.path.join(wd, "obs.ndjson")
    sh([exe, "c04", "table", op], check=True)
    return op


def _validate(op, wd, out):
    t = tlc("abi/SlotJoin", "abi/SlotJoin", workers=1, wd=wd, env={"OBS": op}, xmx="4g")
    for o in t.tagged.get("BADCAST", []):
        out.violation(f"cast:{o['from']}->{o['to']}", f"abi::cast({o['from']}, {o['to']}) = {o['tree']} is not the canonical lossless conversion "
                      "for a slot pair that valid variant types produce", o)
    for o in t.tagged.get("BADSHAPE", []):
        out.violation("shape:" + json.dumps(o["ty"])[:150], f"variant {o['ty']}: joined classes {o['joined']} are not the canonical join of {o['cases']}", o)
    if t.violated and not (t.tagged.get("BADCAST") or t.tagged.get("BADSHAPE")):
        raise ToolError(f"SlotJoin.tla: {t.violated}")
    return t


def core_flat(t):
    """the core types of a value of type t at pointer width 8 (pointer and length kept apart from the integers)"""
    k = t["k"]
    if k in ("bool", "u8", "s8", "u16", "s16", "u32", "s32", "char", "enum"):
        return ["i32"]
    if k in ("u64", "s64"):
        return ["i64"]
    if k in ("f32", "f64"):
        return [k]
    if k in ("string", "list"):
        return ["ptr", "len"]
    if k == "flags":
        return ["i32"] if t["n"] <= 32 else ["i32", "i32"]
    if k in ("tuple", "record"):
        return [c for f in t["fs"] for c in core_flat(f)]
    if k == "none":
        return []
    cases = {"variant": lambda: t["cs"], "option": lambda: [{"k": "none"}, t["t"]], "result": lambda: [t["ok"], t["err"]]}[k]()
    width = max(len(core_flat(c)) for c in cases)
    return ["i32"] + ["joined"] * width


def has_join(t):
    """does a value of type t contain a variant-like type two of whose cases put different core types into one slot"""
    k = t["k"]
    if k in ("list", "option"):
        if has_join(t["t"]):
            return True
    if k in ("tuple", "record"):
        return any(has_join(f) for f in t["fs"])
    cases = {"variant": lambda: t["cs"], "result": lambda: [t["ok"], t["err"]]}.get(k, lambda: [])()
    if any(has_join(c) for c in cases if c["k"] != "none"):
        return True
    fl = [core_flat(c) for c in cases]
    for i in range(max((len(f) for f in fl), default=0)):
        if len({f[i] for f in fl if i < len(f)}) > 1:
            return True
    return False


def unit_has_join(u):
    return any(has_join(p) for p in u["ps"]) or (u["r"]["k"] != "none" and has_join(u["r"]))


def _execute(tier, wd, out):
    """the backends' own Bitcast emitters (perform_cast) executed: the signatures of MC_RustExec whose values contain a joined
    slot run through the real Rust and C bindings natively, exactly as C05 / C10 do (same host, same judgement); a payload
    that does not survive the join and the cast back arrives changed"""
    from . import rexec_run, cexec_run
    from .rexec_run import sig_shape
    n = {}
    for lang, mod, kinds in (("rust", rexec_run, ("lowered-args", "lowered-result", "panic", "not-done", "compile")),
                             ("c", cexec_run, ("lowered-args", "lowered-result", "dump", "not-done", "compile"))):
        sub = os.path.join(wd, "exec-" + lang)
        os.makedirs(sub, exist_ok=True)
        findings, stats = mod.run_all(tier, sub, unit_filter=unit_has_join)
        n[lang] = {"signatures": stats["units"], "cases": stats["cases"]}
        for f in findings:
            if f["kind"] not in kinds:
                continue
            u = f["unit"]
            det = re.sub(r"\d+", "N", re.sub(r"0x[0-9a-f]+", "0xN", f["detail"]))
            out.violation(f"exec:{lang}:{f['kind']}:{sig_shape(u['u'])}:{det[:60]}",
                          f"{lang} bindings, {sig_shape(u['u'])} [{u['cfg']}] case {f.get('case')}: {f['detail'][:400]}",
                          {"signature": sig_shape(u["u"]), "config": u["cfg"], "wit": u["wit"], "detail": f["detail"]})
        shutil.rmtree(os.path.join(sub, "units"), ignore_errors=True)
    return n


def run(tier):
    t0 = time.time()
    wd = workdir(PID)
    out = Outcome(PID)
    exe = interp_exe()
    op = _observe(exe, wd)
    t = _validate(op, wd, out)
    summ = (t.tagged.get("SUMMARY") or [{}])[0]
    executed = _execute(tier, wd, out)
    # the joined payloads are also *executed*: C01's variant vectors run every reachable cast
    # through the interpreter in both directions (lower_flat / lift)
    rc, unlisted = out.finish()
    rows = read_ndjson(op)
    write_evidence(PID, tier, "model_checking", {
        "states": t.distinct,
        "transitions": t.generated,
        "traces_validated_against_impl": len(rows),
        "samples": [rows[8], rows[60], rows[-1]],
        "exhaustive": True,
        "evaluations": len(rows),
        "distinct_nontrivial": len(summ.get("reachable", [])),
        "rule": "all 49 ordered pairs of slot classes through the real abi::cast, and 1000+ variant/option/result shapes through the "
                "real flattening; TLC (SlotJoin.tla) checks that every joined class erases to the canonical join at both pointer "
                "widths and that each reachable cast is defined, well typed, equal to reinterpret/zero-extend/wrap and lossless on "
                "byte-distinct patterns; non-trivial = reachable (case class, slot class) pairs",
        "reachable_pairs": summ.get("reachable"),
        "backend_emitters_executed": executed,
        "note": "conversions built only from reinterpret / zero-extend / wrap are byte projections, so one pattern with pairwise "
                "distinct non-zero bytes (plus all-ones and zero) decides equality with the canonical conversion for all 2^32 / "
                "2^64 inputs; no bit-vector solver is needed for this table",
    }, ["TLC", "harness/abi-interp/src/c04.rs", "the meaning of each primitive Bitcast name (PrimFromTo in SlotJoin.tla)",
        "the per-backend Bitcast emitters are executed for Rust and C only (native execution of the real bindings on the joined-slot "
        "signatures of MC_RustExec, host harness/vhost); MoonBit, C#, C++, D, Go emitters are not executed (no toolchain here)"],
        time.time() - t0, unlisted)
    return rc


def selftest():
    wd = workdir(PID + "_self")
    exe = interp_exe()
    out = Outcome(PID)
    op = _observe(exe, wd)
    rows = read_ndjson(op)
    for r in rows:
        if r["kind"] == "cast" and r["from"] == "F32" and r["to"] == "I64":
            r["tree"] = {"op": "Sequence", "a": {"op": "F32ToI32"}, "b": {"op": "I32ToF32"}}
    write_ndjson(op, rows)
    _validate(op, wd, out)
    if not out.violations:
        log("selftest C04: corrupted cast table accepted")
        return 2
    log("selftest C04 ok")
    return 0
