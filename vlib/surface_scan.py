"""Declaration scanners (DESIGN.md Appendix C): the core imports and exports a backend's generated
text declares, with their core signatures.  Fail-closed: a declaration form or a type spelling the
scanner does not know raises ScanError (a tool error, exit 2), never a silent skip.

    scan(lang, out_dir) -> {"imports": [{module, name, params, results, ident, file}],
                            "exports": [{name, params, results, ident, file}], "text": <all text>}

C is not scanned as text: its output is compiled with clang --target=wasm32 and linked with
wasm-ld, and the surface is read from the real module (c_link below)."""
import glob
import json
import os
import re
import subprocess

from .core import ToolError, HARNESS


class ScanError(ToolError):
    pass


def _split(params):
    out, depth, cur = [], 0, ""
    for ch in params:
        if ch in "(<[":
            depth += 1
        elif ch in ")>]":
            depth -= 1
        if ch == "," and depth == 0:
            out.append(cur)
            cur = ""
        else:
            cur += ch
    if cur.strip():
        out.append(cur)
    return [p.strip() for p in out if p.strip()]


def _files(out_dir, exts):
    fs = []
    for root, _, names in os.walk(out_dir):
        for n in sorted(names):
            if n.endswith(exts):
                fs.append(os.path.join(root, n))
    return sorted(fs)


# ---------------------------------------------------------------- Rust
_RUST_TY = {"i32": "i32", "u32": "i32", "i64": "i64", "u64": "i64", "f32": "f32", "f64": "f64", "usize": "i32", "isize": "i32",
            "u8": "i32", "i8": "i32", "u16": "i32", "i16": "i32"}


def _rust_ty(t, where):
    t = t.strip()
    if t.startswith("*mut") or t.startswith("*const"):
        return "i32"
    if t in _RUST_TY:
        return _RUST_TY[t]
    if t in ("::core::mem::MaybeUninit<u64>", "::core::mem::MaybeUninit::<u64>"):   # WasmType::PointerOrI64
        return "i64"
    raise ScanError(f"rust scanner: unknown type spelling `{t}` in {where}")


def _rust_sig(params, ret, where):
    ps = []
    for p in _split(params):
        if ":" not in p:
            raise ScanError(f"rust scanner: parameter without type `{p}` in {where}")
        ps.append(_rust_ty(p.split(":", 1)[1], where))
    rs = [_rust_ty(ret, where)] if ret and ret.strip() else []
    return ps, rs


def _squeeze(src):
    """token-level whitespace normalisation (the `--format` option re-flows macro bodies token by token):
    whitespace survives only between two word characters; string literals are copied verbatim"""
    out, i, n = [], 0, len(src)
    while i < n:
        ch = src[i]
        if ch == '"':
            j = i + 1
            while j < n and src[j] != '"':
                j += 2 if src[j] == "\\" else 1
            out.append(src[i:j + 1])
            i = j + 1
        elif ch.isspace():
            j = i
            while j < n and src[j].isspace():
                j += 1
            prev = out[-1][-1] if out else ""
            nxt = src[j] if j < n else ""
            if (prev.isalnum() or prev == "_") and (nxt.isalnum() or nxt == "_"):
                out.append(" ")
            i = j
        else:
            out.append(ch)
            i += 1
    return "".join(out)


def scan_rust(out_dir):
    imports, exports, text = [], [], ""
    blk = re.compile(r'#\[link\(wasm_import_module="([^"]*)"\)\](?:unsafe )?extern"C"\{')
    item = re.compile(r'#\[link_name="([^"]*)"\](?:pub )?(?:safe |unsafe )?fn (\w+)\(([^)]*)\)(?:->([^;]+))?;')
    ex = re.compile(r'#\[unsafe\(export_name="([^"]*)"\)\](?:#\[[^\]]*\])*(?:pub )?unsafe extern"C"fn (\w+)\(([^)]*)\)(?:->([^{]+?))?\{')
    for f in _files(out_dir, (".rs",)):
        src = _squeeze(open(f).read())
        text += src
        for m in blk.finditer(src):
            pos = m.end()
            n = 0
            while True:
                im = item.match(src, pos)
                if not im:
                    break
                ps, rs = _rust_sig(im.group(3), im.group(4), f"{f}: {im.group(1)}")
                imports.append({"module": m.group(1), "name": im.group(1), "params": ps, "results": rs, "ident": im.group(2), "file": f})
                pos = im.end()
                n += 1
            if n == 0 or src[pos:pos + 1] != "}":
                raise ScanError(f"rust scanner: unrecognised extern block body in {f} at {src[m.start():m.start() + 200]!r}")
        if src.count("wasm_import_module=") != len(blk.findall(src)):
            raise ScanError(f"rust scanner: a wasm_import_module attribute in {f} has an unknown form")
        found = ex.findall(src)
        if src.count("export_name=") != len(found):
            raise ScanError(f"rust scanner: an export_name attribute in {f} has an unknown form")
        for name, ident, params, ret in found:
            ps, rs = _rust_sig(params, ret, f"{f}: {name}")
            exports.append({"name": name, "params": ps, "results": rs, "ident": ident, "file": f})
    return {"imports": imports, "exports": exports, "text": text, "precise_refs": False}


# ---------------------------------------------------------------- Go
_GO_TY = {"int32": "i32", "uint32": "i32", "int64": "i64", "uint64": "i64", "float32": "f32", "float64": "f64", "uintptr": "i32",
          "unsafe.Pointer": "i32", "bool": "i32", "uint8": "i32", "int8": "i32", "uint16": "i32", "int16": "i32"}


def _go_ty(t, where):
    t = t.strip()
    if t.startswith("*"):
        return "i32"
    if t in _GO_TY:
        return _GO_TY[t]
    raise ScanError(f"go scanner: unknown type spelling `{t}` in {where}")


def _go_sig(params, ret, where):
    ps, pending = [], 0
    for p in _split(params):
        parts = p.split(None, 1)
        if len(parts) == 1:
            pending += 1           # `a, b int32`
            continue
        t = _go_ty(parts[1], where)
        ps += [t] * (pending + 1)
        pending = 0
    if pending:
        raise ScanError(f"go scanner: untyped parameters in {where}")
    ret = (ret or "").strip()
    rs = [_go_ty(ret, where)] if ret else []
    return ps, rs


def scan_go(out_dir):
    imports, exports, text = [], [], ""
    for f in _files(out_dir, (".go",)):
        src = open(f).read()
        text += src
        for m in re.finditer(r'^//go:wasmimport (\S+) (.+)\nfunc (\w+)\(([^)]*)\)([^\n{]*)', src, re.M):
            ps, rs = _go_sig(m.group(4), m.group(5), f"{f}: {m.group(2)}")
            imports.append({"module": m.group(1), "name": m.group(2), "params": ps, "results": rs, "ident": m.group(3), "file": f})
        for m in re.finditer(r'^//go:wasmexport (.+)\nfunc (\w+)\(([^)]*)\)([^\n{]*)', src, re.M):
            ps, rs = _go_sig(m.group(3), m.group(4), f"{f}: {m.group(1)}")
            exports.append({"name": m.group(1), "params": ps, "results": rs, "ident": m.group(2), "file": f})
        n = len(re.findall(r'^//go:wasm(?:import|export) ', src, re.M))
        got = len(re.findall(r'^//go:wasm(?:import \S+ .+|export .+)\nfunc \w+\(', src, re.M))
        if n != got:
            raise ScanError(f"go scanner: a //go:wasmimport or //go:wasmexport directive in {f} has an unknown form")
    return {"imports": imports, "exports": exports, "text": text, "precise_refs": True}


# ---------------------------------------------------------------- C#
_CS_TY = {"int": "i32", "uint": "i32", "long": "i64", "ulong": "i64", "float": "f32", "double": "f64", "nint": "i32", "nuint": "i32",
          "byte": "i32", "sbyte": "i32", "short": "i32", "ushort": "i32", "bool": "i32", "IntPtr": "i32", "UIntPtr": "i32"}


def _cs_ty(t, where):
    t = t.strip()
    if t.endswith("*"):
        return "i32"
    if t in _CS_TY:
        return _CS_TY[t]
    raise ScanError(f"csharp scanner: unknown type spelling `{t}` in {where}")


def _cs_sig(params, ret, where):
    ps = []
    for p in _split(params):
        parts = p.rsplit(None, 1)
        if len(parts) != 2:
            raise ScanError(f"csharp scanner: parameter `{p}` in {where}")
        ps.append(_cs_ty(parts[0], where))
    ret = ret.strip()
    rs = [] if ret == "void" else [_cs_ty(ret, where)]
    return ps, rs


def scan_csharp(out_dir):
    imports, exports, text = [], [], ""
    for f in _files(out_dir, (".cs",)):
        src = open(f).read()
        text += src
        imp = re.compile(r'DllImportAttribute\("([^"]*)", EntryPoint = "([^"]*)"\)[^\n]*\]\s*(?:(?:public|internal|private|protected|static|extern|unsafe)\s+)+([\w*]+)\s+(\w+)\(([^)]*)\)\s*;')
        found = list(imp.finditer(src))
        if src.count("DllImportAttribute(") != len(found):
            raise ScanError(f"csharp scanner: a DllImport attribute in {f} has an unknown form")
        for m in found:
            ps, rs = _cs_sig(m.group(5), m.group(3), f"{f}: {m.group(2)}")
            imports.append({"module": m.group(1), "name": m.group(2), "params": ps, "results": rs, "ident": m.group(4), "file": f})
        exp = re.compile(r'UnmanagedCallersOnlyAttribute\(EntryPoint = "([^"]*)"\)\]\s*(?:(?:public|internal|private|static|unsafe)\s+)+([\w*]+)\s+(\w+)\(([^)]*)\)\s*\{')
        found = list(exp.finditer(src))
        if src.count("UnmanagedCallersOnlyAttribute(") != len(found):
            raise ScanError(f"csharp scanner: an UnmanagedCallersOnly attribute in {f} has an unknown form")
        for m in found:
            ps, rs = _cs_sig(m.group(4), m.group(2), f"{f}: {m.group(1)}")
            exports.append({"name": m.group(1), "params": ps, "results": rs, "ident": m.group(3), "file": f})
    return {"imports": imports, "exports": exports, "text": text, "precise_refs": True}


# ---------------------------------------------------------------- MoonBit
_MBT_TY = {"Int": "i32", "UInt": "i32", "Int64": "i64", "UInt64": "i64", "Float": "f32", "Double": "f64"}


def _mbt_ty(t, where):
    t = t.strip()
    if t in _MBT_TY:
        return _MBT_TY[t]
    raise ScanError(f"moonbit scanner: unknown type spelling `{t}` in {where}")


def _mbt_sig(params, ret, where):
    ps = []
    for p in _split(params):
        if ":" not in p:
            raise ScanError(f"moonbit scanner: parameter `{p}` in {where}")
        ps.append(_mbt_ty(p.split(":", 1)[1], where))
    ret = (ret or "").strip()
    rs = [] if ret in ("", "Unit") else [_mbt_ty(ret, where)]
    return ps, rs


def scan_moonbit(out_dir):
    imports, exports, text = [], [], ""
    for f in _files(out_dir, (".mbt",)):
        src = open(f).read()
        text += src
        if "/async-core/" in f.replace(out_dir, "/"):
            pass
        for m in re.finditer(r'^(?:pub |priv )?(?:extern "wasm" )?fn (\w+)\(([^)]*)\)\s*(?:->\s*([\w]+))?\s*=\s*"([^"]*)"\s+"([^"]*)"', src, re.M):
            ps, rs = _mbt_sig(m.group(2), m.group(3), f"{f}: {m.group(5)}")
            imports.append({"module": m.group(4), "name": m.group(5), "params": ps, "results": rs, "ident": m.group(1), "file": f})
        n = len(re.findall(r'=\s*"[^"\n]*"\s+"[^"\n]*"\s*$', src, re.M))
        got = len(re.findall(r'^(?:pub |priv )?(?:extern "wasm" )?fn \w+\([^)]*\)\s*(?:->\s*\w+)?\s*=\s*"[^"]*"\s+"[^"]*"', src, re.M))
        if n != got:
            raise ScanError(f"moonbit scanner: an FFI import in {f} has an unknown form")
    for pj in _files(out_dir, ("moon.pkg.json",)):
        src = open(pj).read()
        text += src
        try:
            cfg = json.loads(src)
        except Exception as e:
            raise ScanError(f"moonbit scanner: {pj} is not valid JSON: {e}")
        exps = cfg.get("link", {}).get("wasm", {}).get("exports", [])
        if not exps:
            continue
        d = os.path.dirname(pj)
        defs = "".join(open(f).read() for f in sorted(glob.glob(os.path.join(d, "*.mbt"))))
        for e in exps:
            fn, _, name = e.partition(":")
            if not name:
                name = fn
            m = re.search(r'^pub fn ' + re.escape(fn) + r'\(([^)]*)\)\s*(?:->\s*(\w+))?\s*\{', defs, re.M)
            if not m:
                if fn == "mbt_ffi_cabi_realloc" or name == "cabi_realloc":
                    exports.append({"name": name, "params": ["i32", "i32", "i32", "i32"], "results": ["i32"], "ident": fn, "file": pj, "assumed_sig": True})
                    continue
                raise ScanError(f"moonbit scanner: exported function `{fn}` of {pj} has no `pub fn` definition in its package")
            ps, rs = _mbt_sig(m.group(1), m.group(2), f"{pj}: {name}")
            exports.append({"name": name, "params": ps, "results": rs, "ident": fn, "file": pj})
    return {"imports": imports, "exports": exports, "text": text, "precise_refs": True}


# ---------------------------------------------------------------- C++
_C_TY = {"int32_t": "i32", "uint32_t": "i32", "int64_t": "i64", "uint64_t": "i64", "float": "f32", "double": "f64", "size_t": "i32",
         "int": "i32", "unsigned": "i32", "uintptr_t": "i32", "intptr_t": "i32", "bool": "i32", "uint8_t": "i32", "int8_t": "i32",
         "uint16_t": "i32", "int16_t": "i32", "char32_t": "i32", "ptrdiff_t": "i32"}


def _c_ty(t, where):
    t = t.strip()
    if "*" in t:
        return "i32"
    t = re.sub(r"^const\s+", "", t)
    if t in _C_TY:
        return _C_TY[t]
    raise ScanError(f"c++ scanner: unknown type spelling `{t}` in {where}")


def _c_sig(params, ret, where):
    ps = []
    for p in _split(params):
        if p == "void":
            continue
        if "*" in p:
            ps.append("i32")
            continue
        parts = p.split()
        if len(parts) >= 2 and parts[-1] not in _C_TY:
            p = " ".join(parts[:-1])
        ps.append(_c_ty(p, where))
    ret = ret.strip()
    rs = [] if ret == "void" else [_c_ty(ret, where)]
    return ps, rs


def scan_cpp(out_dir):
    imports, exports, text = [], [], ""
    for f in _files(out_dir, (".cpp", ".h")):
        src = open(f).read()
        text += src
        imp = re.compile(r'__attribute__\(\(import_module\("([^"]*)"\)\)\)\s*__attribute__\(\(import_name\("([^"]*)"\)\)\)\s*([\w ]+?[\s*]+)(\w+)\(([^)]*)\)\s*;')
        found = list(imp.finditer(src))
        if src.count("import_module(") != len(found):
            raise ScanError(f"c++ scanner: an import_module attribute in {f} has an unknown form")
        for m in found:
            ps, rs = _c_sig(m.group(5), m.group(3), f"{f}: {m.group(2)}")
            imports.append({"module": m.group(1), "name": m.group(2), "params": ps, "results": rs, "ident": m.group(4), "file": f})
        exp = re.compile(r'__attribute__\(\((?:__weak__, )?__export_name__\("([^"]*)"\)\)\)\s*([\w ]+?[\s*]+)(\w+)\(([^)]*)\)\s*\{')
        found = list(exp.finditer(src))
        if src.count("__export_name__(") != len(found):
            raise ScanError(f"c++ scanner: an __export_name__ attribute in {f} has an unknown form")
        for m in found:
            ps, rs = _c_sig(m.group(4), m.group(2), f"{f}: {m.group(1)}")
            exports.append({"name": m.group(1), "params": ps, "results": rs, "ident": m.group(3), "file": f})
    return {"imports": imports, "exports": exports, "text": text, "precise_refs": True}


# ---------------------------------------------------------------- D
_D_TY = {"uint": "i32", "int": "i32", "ulong": "i64", "long": "i64", "float": "f32", "double": "f64", "size_t": "i32", "ptrdiff_t": "i32",
         "bool": "i32", "ubyte": "i32", "byte": "i32", "ushort": "i32", "short": "i32", "dchar": "i32", "char": "i32"}


def _d_ty(t, where):
    t = t.strip()
    if t.endswith("*"):
        return "i32"
    if t in _D_TY:
        return _D_TY[t]
    raise ScanError(f"d scanner: unknown type spelling `{t}` in {where}")


def _d_sig(params, ret, where):
    ps = []
    for p in _split(params):
        if "*" in p:
            ps.append("i32")
            continue
        parts = p.rsplit(None, 1)
        t = parts[0] if len(parts) == 2 and parts[1] not in _D_TY else p
        ps.append(_d_ty(t, where))
    ret = ret.strip()
    rs = [] if ret == "void" else [_d_ty(ret, where)]
    return ps, rs


def scan_d(out_dir):
    imports, exports, text = [], [], ""
    quals = r'(?:(?:static|private|public|package|extern\(C\)|export)\s+)*'
    for f in _files(out_dir, (".d",)):
        src = open(f).read()
        text += src
        imp = re.compile(r'@wasmImport!\("([^"]*)",\s*"([^"]*)"\)\s*(?:pragma\(mangle,\s*"[^"]*"\)\s*)?' + quals + r'([\w.*]+)\s+(\w+)\(([^)]*)\)[^;{]*;')
        found = list(imp.finditer(src))
        if len(re.findall(r'@wasmImport!\(', src)) != len(found):
            raise ScanError(f"d scanner: a @wasmImport in {f} has an unknown form")
        for m in found:
            ps, rs = _d_sig(m.group(5), m.group(3), f"{f}: {m.group(2)}")
            imports.append({"module": m.group(1), "name": m.group(2), "params": ps, "results": rs, "ident": m.group(4), "file": f})
        exp = re.compile(r'@wasmExport!\("([^"]*)"\)\s*(?:pragma\(mangle,\s*"[^"]*"\)\s*)?' + quals + r'([\w.*]+)\s+(\w+)\(([^)]*)\)[^;{]*\{')
        found = list(exp.finditer(src))
        if len(re.findall(r'@wasmExport!\(', src)) != len(found):
            raise ScanError(f"d scanner: a @wasmExport in {f} has an unknown form")
        for m in found:
            ps, rs = _d_sig(m.group(4), m.group(2), f"{f}: {m.group(1)}")
            exports.append({"name": m.group(1), "params": ps, "results": rs, "ident": m.group(3), "file": f})
    return {"imports": imports, "exports": exports, "text": text, "precise_refs": False}


SCANNERS = {"rust": scan_rust, "go": scan_go, "csharp": scan_csharp, "moonbit": scan_moonbit, "cpp": scan_cpp, "d": scan_d}


def scan(lang, out_dir):
    s = SCANNERS[lang](out_dir)
    for i in s["imports"]:
        # "actually references": the declared identifier occurs somewhere besides its declaration
        i["referenced"] = (not s["precise_refs"]) or len(re.findall(r"\b" + re.escape(i["ident"]) + r"\b", s["text"])) > 1
    return s


# ---------------------------------------------------------------- C: the real thing
CSHIM = os.path.join(HARNESS, "cshim")
CLANG_FLAGS = ["--target=wasm32", "-isystem", CSHIM, "-Wall", "-Wextra", "-Werror", "-Wc++-compat", "-Wno-unused-parameter", "-c"]


def c_compile_cmds(out_dir):
    """argv lists that compile every generated .c file and link them with the component-type object."""
    cs = sorted(glob.glob(os.path.join(out_dir, "*.c")))
    objs = []
    cmds = []
    for c in cs:
        o = c[:-2] + ".verif.o"
        cmds.append(["clang"] + CLANG_FLAGS + [c, "-o", o])
        objs.append(o)
    tos = [o for o in sorted(glob.glob(os.path.join(out_dir, "*.o"))) if not o.endswith(".verif.o")]
    link = ["wasm-ld", "--no-entry", "--no-gc-sections", "--unresolved-symbols=ignore-all"] + objs + tos + \
           [os.path.join(CSHIM, "libc.o"), "-o", os.path.join(out_dir, "linked.wasm")]
    return cmds, link


def ensure_libc():
    o = os.path.join(CSHIM, "libc.o")
    src = os.path.join(CSHIM, "libc.c")
    if not os.path.exists(o) or os.path.getmtime(o) < os.path.getmtime(src):
        p = subprocess.run(["clang", "--target=wasm32", "-O1", "-c", src, "-o", o], stdout=subprocess.PIPE, stderr=subprocess.STDOUT, text=True)
        if p.returncode != 0:
            raise ToolError("cannot build the libc shim: " + p.stdout[-500:])
    return o
