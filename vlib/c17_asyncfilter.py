"""C17  Async selection directives select exactly the documented functions."""
import os
import shutil
import time

from .core import *
from .small import *

PID = "C17"


def core_part(tier, wd, out):
    exe = small_exe()
    mc = tlc("gen/MC_AsyncFilter", "gen/MC_AsyncFilter", workers=8, wd=wd, xmx="8g", timeout=1800)
    if mc.violated:
        raise ToolError(f"AsyncFilter spec is not self-consistent: {mc.violated}")
    witnesses("gen/MC_AsyncFilter", "gen/MC_AsyncFilter", ["W_Shadowed", "W_DeclAsyncOverridden"], wd)
    gcfg = "gen/MC_AsyncFilter_gen" if tier == "quick" else with_constants("gen/MC_AsyncFilter_gen", wd, "gen3", {"MaxDirs = 2": "MaxDirs = 3"})
    g = tlc("gen/MC_AsyncFilter", gcfg, workers=8, wd=wd, xmx="12g", timeout=3000)
    vp = os.path.join(wd, "vecs.ndjson")
    write_ndjson(vp, g.vecs)
    rp = os.path.join(wd, "replay.ndjson")
    sh([exe, "asyncfilter", "replay", vp, rp], check=True)
    rows = read_ndjson(rp)
    if rows[-1].get("done") != len(g.vecs):
        raise ToolError("asyncfilter replay did not finish")
    for r in rows[:-1]:
        key = "filter:" + ",".join(r["dirs"]) + "@" + "+".join(r["world"])
        out.violation(key, f"AsyncFilterSet disagrees with the spec: {r['problems']}", r)
    n_obs = 3000 if tier == "quick" else 30000
    op = os.path.join(wd, "obs.ndjson")
    sh([exe, "asyncfilter", "record", str(seed()), str(n_obs), op], check=True)
    t = tlc("gen/Obs_AsyncFilter", "gen/Obs_AsyncFilter", workers=1, wd=wd, env={"OBS": op}, xmx="4g")
    for o in t.tagged.get("MISMATCH", []):
        out.violation("val:" + json.dumps(o["dirs"], sort_keys=True)[:150], f"observed answers not derivable from the spec: {o}", o)
    return mc, g, t, n_obs


ITEMS = {"if": "  import f: func();\n", "ef": "  export f: func();\n", "ii": "  import i;\n", "ei": "  export i;\n", "ek": "  export k: async func();\n",
         "ir": "  resource c { f: func(); }\n"}
GEN_LANGS = ["rust", "c", "go", "moonbit"]


def directive(d):
    body = {"all": "all", "fn": d["name"], "import": "import:" + d["name"], "export": "export:" + d["name"]}[d["kind"]]
    return body if d["en"] else "-" + body


def world_wit(items):
    return ("package t:p;\ninterface i {\n  g: func();\n  h: async func();\n  resource r { m: func(); }\n}\nworld w {\n"
            + "".join(ITEMS[it] for it in sorted(items)) + "}\n")


def expected_surface(v):
    """the core surface the spec's `async` set implies (all probe functions are () -> (), methods take self)"""
    asy = {(f["name"], f["imp"]) for f in v["async"]}
    imps, exps = {}, {}
    for f in v["funcs"]:
        a = (f["name"], f["imp"]) in asy
        iface, _, fn = f["name"].rpartition("#")
        ps = ["i32"] if "[method]" in fn else []
        if f["imp"]:
            imps[(iface or "$root", ("[async-lower]" if a else "") + fn)] = (ps, ["i32"] if a else [])
        elif a:
            exps["[async-lift]" + f["name"]] = (ps, ["i32"])
            exps["[callback][async-lift]" + f["name"]] = (["i32", "i32", "i32"], ["i32"])
        else:
            exps[f["name"]] = (ps, [])
    return imps, exps


def generators_part(tier, wd, out, vecs):
    """the generated code uses the asynchronous ABI for precisely the functions the spec selects (Rust, C, Go, MoonBit),
    and the Rust generator rejects a directive that matched nothing"""
    from . import genprobe as gp
    from . import surface_scan as ss
    cli = cli_exe()
    ss.ensure_libc()
    n = 150 if tier == "quick" else 1500
    inter = [v for v in vecs if len(v["dirs"]) >= 1]
    # deterministic sample that keeps the interesting classes: rejected lists, shadowing, direction-specific directives
    rej = [v for v in inter if v["mustReject"]][:: max(1, len([v for v in inter if v["mustReject"]]) // (n // 5))]
    acc = [v for v in inter if v["mustAccept"] and len(v["dirs"]) == 2 and len(v["decisive"]) == 2]
    acc = acc[:: max(1, len(acc) // (n // 2))]
    rest = [v for v in inter if not v["mustReject"] and not v["mustAccept"]]
    rest = rest[:: max(1, len(rest) // (n // 4))]
    sample = rej + acc + rest
    units = []
    for k, v in enumerate(sample):
        d = os.path.join(wd, "gen", str(k))
        os.makedirs(d, exist_ok=True)
        open(os.path.join(d, "w.wit"), "w").write(world_wit(v["world"]))
        for lang in GEN_LANGS:
            units.append({"k": k, "v": v, "lang": lang, "wit": os.path.join(d, "w.wit"), "out": os.path.join(d, lang),
                          "args": gp.cli_args(lang) + [f"--async={directive(x)}" for x in v["dirs"]]})
    gen = gp.run_matrix(cli, [{"lang": u["lang"], "wit": u["wit"], "out": u["out"], "args": u["args"]} for u in units], workers=16, wd=wd)
    cc, links = [], []
    for i, (u, j) in enumerate(zip(units, gen)):
        u["res"] = j["res"]
        if u["lang"] == "c" and u["res"]["status"] == "ok":
            cmds, link = ss.c_compile_cmds(u["out"])
            cc += [(f"{i}:{m}", c) for m, c in enumerate(cmds)]
            links.append((str(i), link))
    rcc = gp.run_commands(cc, wd, workers=16) if cc else {}
    bad = {int(c.split(":")[0]) for c, r in rcc.items() if r["rc"] != 0}
    rl = gp.run_commands([l for l in links if int(l[0]) not in bad], wd, workers=16) if links else {}
    sx = os.path.join(cargo_build("surface"), "surface")
    stats = {"units": len(units), "judged_surfaces": 0, "rust_reject_judged": 0, "rust_accept_judged": 0, "not_generated": 0}
    for i, u in enumerate(units):
        v, lang, st = u["v"], u["lang"], u["res"]["status"]
        dirs = [directive(x) for x in v["dirs"]]
        ctx = {"dirs": dirs, "world": sorted(v["world"]), "lang": lang, "wit": open(u["wit"]).read(), "cli": u["res"]}
        dkey = lang + ":" + ",".join(dirs) + "@" + "+".join(sorted(v["world"]))
        if lang == "rust":
            if v["mustReject"]:
                stats["rust_reject_judged"] += 1
                if st == "ok":
                    out.violation("rust-accepts-unmatched:" + dkey, f"rust accepts --async {dirs} although a directive matches no function of the world", ctx)
            if v["mustAccept"]:
                stats["rust_accept_judged"] += 1
                if st != "ok":
                    out.violation("rust-rejects-decisive:" + dkey, f"rust rejects --async {dirs} although every directive decides a function: {u['res']}", ctx)
        if st == "panic":
            out.violation("panic:" + dkey, f"{lang} panics on --async {dirs}: {u['res']}", ctx)
        if st != "ok":
            stats["not_generated"] += 1
            continue
        if lang == "c":
            if i in bad or str(i) not in rl or rl[str(i)]["rc"] != 0:
                out.violation("c-not-compilable:" + dkey, f"generated C for --async {dirs} does not compile/link", ctx)
                continue
            sc = json.loads(sh([sx, "module", os.path.join(u["out"], "linked.wasm")], check=True).stdout)
        else:
            sc = ss.scan(lang, u["out"])
        imps, exps = expected_surface(v)
        got_i = {(x["module"], x["name"]): (x["params"], x["results"]) for x in sc["imports"]}
        got_e = {x["name"]: (x["params"], x["results"]) for x in sc["exports"]}
        stats["judged_surfaces"] += 1
        for f in v["funcs"]:
            iface, _, fn = f["name"].rpartition("#")
            if f["imp"]:
                a_key, s_key = (iface or "$root", "[async-lower]" + fn), (iface or "$root", fn)
                is_a, is_s = a_key in got_i, s_key in got_i
                want = a_key in imps
                sig_ok = got_i.get(a_key if want else s_key) == imps[a_key if want else s_key]
            else:
                a_key, s_key = "[async-lift]" + f["name"], f["name"]
                is_a, is_s = a_key in got_e, s_key in got_e
                want = a_key in exps
                sig_ok = got_e.get(a_key if want else s_key) == exps[a_key if want else s_key] and (not want or "[callback]" + a_key in got_e)
            side = "import" if f["imp"] else "export"
            if is_a == is_s:
                if not is_a and lang in ("rust",) and f["imp"]:
                    pass
                out.violation(f"binding-count:{lang}:{side}:{f['name']}:" + ",".join(dirs),
                              f"{lang}: {side} {f['name']} is bound {'both sync and async' if is_a else 'neither sync nor async'} under --async {dirs}", ctx)
            elif is_a != want:
                out.violation(f"selection:{lang}:{side}:{f['name']}:" + ",".join(dirs),
                              f"{lang}: {side} {f['name']} is bound {'async' if is_a else 'sync'} under --async {dirs}; the first matching directive says {'async' if want else 'sync'}", ctx)
            elif not sig_ok:
                out.violation(f"abi:{lang}:{side}:{f['name']}:" + ",".join(dirs),
                              f"{lang}: {side} {f['name']} has the {'async' if want else 'sync'} name but not the matching core signature / callback", ctx)
    shutil.rmtree(os.path.join(wd, "gen"), ignore_errors=True)
    stats["sample"] = {"rejected_lists": len(rej), "two_decisive": len(acc), "other": len(rest)}
    return stats


def run(tier):
    t0 = time.time()
    wd = workdir(PID)
    out = Outcome(PID)
    mc, g, t, n_obs = core_part(tier, wd, out)
    gen_info = generators_part(tier, wd, out, g.vecs)
    rc, unlisted = out.finish()
    write_evidence(PID, tier, "model_checking", {
        "states": mc.distinct + g.distinct + t.distinct,
        "transitions": mc.generated + g.generated + t.generated,
        "traces_validated_against_impl": n_obs,
        "samples": [g.vecs[len(g.vecs) // 2], g.vecs[-1]],
        "exhaustive": True,
        "evaluations": 2 * len(g.vecs) + n_obs,
        "distinct_nontrivial": sum(1 for v in g.vecs if len(v["decisive"]) >= 1 and len(v["dirs"]) >= 2),
        "rule": "every directive list of <= MaxDirs over {all, fn/import/export x 6 names} x {enabled, disabled} against 6 "
                "worlds built from {import f, export f, import i, export i, export k(async)}; the real AsyncFilterSet is queried "
                "for every function in two orders; non-trivial = >= 2 directives of which at least one decides a function",
        "generators": gen_info,
        "val": {"observations": n_obs},
    }, ["TLC", "wit-parser (name_world_key)", "harness/small/src/asyncfilter.rs"], time.time() - t0, unlisted)
    return rc


def selftest():
    wd = workdir(PID + "_self")
    exe = small_exe()
    op = os.path.join(wd, "obs.ndjson")
    sh([exe, "asyncfilter", "record", "5", "60", op], check=True)
    rows = read_ndjson(op)
    k = next(i for i, r in enumerate(rows) if r["answers"])
    rows[k]["answers"][0]["ans"] = not rows[k]["answers"][0]["ans"]
    write_ndjson(op, rows)
    t = tlc("gen/Obs_AsyncFilter", "gen/Obs_AsyncFilter", workers=1, wd=wd, env={"OBS": op})
    if not t.tagged.get("MISMATCH"):
        log("selftest C17: corrupted observation accepted")
        return 2
    log("selftest C17 ok")
    return 0
