"""C17  Async selection directives select exactly the documented functions."""
import os
import time

from .core import *
from .small import *

PID = "C17"


def core_part(tier, wd, out):
    exe = small_exe()
    mc = tlc("gen/MC_AsyncFilter", "gen/MC_AsyncFilter", workers=8, wd=wd, xmx="8g", timeout=1800)
    if mc.violated:
        raise ToolError(f"AsyncFilter spec is not self-consistent: {mc.violated}")
    witnesses("gen/MC_AsyncFilter", "gen/MC_AsyncFilter", ["W_Shadowed", "W_DeclAsyncOverridden"], wd)
    gcfg = "gen/MC_AsyncFilter_gen" if tier == "quick" else with_constants("gen/MC_AsyncFilter_gen", wd, "gen3", {"MaxDirs = 2": "MaxDirs = 3"})
    g = tlc("gen/MC_AsyncFilter", gcfg, workers=8, wd=wd, xmx="12g", timeout=3000)
    vp = os.path.join(wd, "vecs.ndjson")
    write_ndjson(vp, g.vecs)
    rp = os.path.join(wd, "replay.ndjson")
    sh([exe, "asyncfilter", "replay", vp, rp], check=True)
    rows = read_ndjson(rp)
    if rows[-1].get("done") != len(g.vecs):
        raise ToolError("asyncfilter replay did not finish")
    for r in rows[:-1]:
        key = "filter:" + ",".join(r["dirs"]) + "@" + "+".join(r["world"])
        out.violation(key, f"AsyncFilterSet disagrees with the spec: {r['problems']}", r)
    n_obs = 3000 if tier == "quick" else 30000
    op = os.path.join(wd, "obs.ndjson")
    sh([exe, "asyncfilter", "record", str(seed()), str(n_obs), op], check=True)
    t = tlc("gen/Obs_AsyncFilter", "gen/Obs_AsyncFilter", workers=1, wd=wd, env={"OBS": op}, xmx="4g")
    for o in t.tagged.get("MISMATCH", []):
        out.violation("val:" + json.dumps(o["dirs"], sort_keys=True)[:150], f"observed answers not derivable from the spec: {o}", o)
    return mc, g, t, n_obs


def run(tier):
    t0 = time.time()
    wd = workdir(PID)
    out = Outcome(PID)
    mc, g, t, n_obs = core_part(tier, wd, out)
    gen_info = {}
    try:
        from . import genprobe
        gen_info = genprobe.c17_generators(tier, wd, out, g.vecs)
    except ImportError:
        gen_info = {"generators": "not yet wired (gen-probe pending)"}
    rc, unlisted = out.finish()
    write_evidence(PID, tier, "model_checking", {
        "states": mc.distinct + g.distinct + t.distinct,
        "transitions": mc.generated + g.generated + t.generated,
        "traces_validated_against_impl": n_obs,
        "samples": [g.vecs[len(g.vecs) // 2], g.vecs[-1]],
        "exhaustive": True,
        "evaluations": 2 * len(g.vecs) + n_obs,
        "distinct_nontrivial": sum(1 for v in g.vecs if len(v["decisive"]) >= 1 and len(v["dirs"]) >= 2),
        "rule": "every directive list of <= MaxDirs over {all, fn/import/export x 6 names} x {enabled, disabled} against 6 "
                "worlds built from {import f, export f, import i, export i, export k(async)}; the real AsyncFilterSet is queried "
                "for every function in two orders; non-trivial = >= 2 directives of which at least one decides a function",
        "generators": gen_info,
        "val": {"observations": n_obs},
    }, ["TLC", "wit-parser (name_world_key)", "harness/small/src/asyncfilter.rs"], time.time() - t0, unlisted)
    return rc


def selftest():
    wd = workdir(PID + "_self")
    exe = small_exe()
    op = os.path.join(wd, "obs.ndjson")
    sh([exe, "asyncfilter", "record", "5", "60", op], check=True)
    rows = read_ndjson(op)
    k = next(i for i, r in enumerate(rows) if r["answers"])
    rows[k]["answers"][0]["ans"] = not rows[k]["answers"][0]["ans"]
    write_ndjson(op, rows)
    t = tlc("gen/Obs_AsyncFilter", "gen/Obs_AsyncFilter", workers=1, wd=wd, env={"OBS": op})
    if not t.tagged.get("MISMATCH"):
        log("selftest C17: corrupted observation accepted")
        return 2
    log("selftest C17 ok")
    return 0
