"""Native execution of generated C bindings against the spec-driven host (harness/vhost, C ABI).
Shared by C10 (values) and C11 (heap).  See DESIGN.md 12.6.

The unit's world is the one of rexec.unit_world (without `echo`).  The guest's code is pure plumbing,
generated from the prototypes of the generated header:

    RET exports_t_w_e_f(PARAMS) { dump every parameter; r = t_w_i_f(ARGS); free the owned parameters; dump r; return r; }

so every value crosses the bindings four times under the host's eyes: the host builds the arguments
(spec encoding) -> export lift -> [dump: what the C code sees] -> import lower -> host compares with
the spec; the host answers with the spec's result -> import lift -> [dump] -> export lower -> host
compares.  The dumps are compared with the spec values rendered in the same canonical text, which
breaks the symmetry of the round trips (a lift error cannot be masked by a matching lower error).
The dump code is generated from the *type* and addresses members by path (`(*x0).f1.ptr[i]`), using
only the member names the C backend documents (f<i>, val, tag, is_some, is_err, ptr, len)."""
import json
import os
import re

from .core import *
from .witgen import Defs
from .rexec import le


def unit_world(ps, r):
    d = Defs()
    pts = [d.ty(p) for p in ps]
    rt = None if r["k"] == "none" else d.ty(r)
    names = [n for _, n in d.named]
    use = f"  use types.{{{', '.join(names)}}};\n" if names else ""
    sig = "func(" + ", ".join(f"x{i}: {p}" for i, p in enumerate(pts)) + ")" + (f" -> {rt}" if rt else "")
    wit = "package t:w;\n\ninterface types {\n" + "".join(f"  {x}\n" for x in d.defs) + "}\n\n"
    wit += f"interface i {{\n{use}  f: {sig};\n}}\n\ninterface e {{\n{use}  f: {sig};\n}}\n\nworld w {{\n  import i;\n  export e;\n}}\n"
    return wit, d


# ------------------------------------------------------------------ canonical text of a value
def text(t, v):
    k = t["k"]
    if k == "bool":
        return "1" if v else "0"
    if k in ("u8", "u16", "u32", "u64", "char"):
        return str(le(v))
    if k in ("s8", "s16", "s32", "s64"):
        n, bits = le(v), 8 * len(v)
        return str(n - (1 << bits) if n >= 1 << (bits - 1) else n)
    if k in ("f32", "f64"):
        return "x%x" % le(v)
    if k == "string":
        return "s" + "".join("%02x" % b for b in v)
    if k == "list":
        return "[" + ",".join(text(t["t"], x) for x in v) + "]"
    if k in ("record", "tuple"):
        return "{" + ",".join(text(f, x) for f, x in zip(t["fs"], v)) + "}"
    if k == "variant":
        c = v["c"]
        return f"<{c}" + ("" if t["cs"][c]["k"] == "none" else ":" + text(t["cs"][c], v["v"])) + ">"
    if k == "enum":
        return f"e{v}"
    if k == "flags":
        return "b" + str(sum(1 << i for i, b in enumerate(v) if b))
    if k == "option":
        return "some(" + text(t["t"], v["v"]) + ")" if v["some"] else "none"
    if k == "result":
        side = t["ok"] if v["ok"] else t["err"]
        inner = "" if side["k"] == "none" else text(side, v["v"])
        return ("ok(" if v["ok"] else "err(") + inner + ")"
    raise ToolError(f"text: type {k}")


def dump_code(t, e, depth=0):
    """C statements that append the canonical text of the value at lvalue expression `e` (type t) to the dump buffer"""
    k = t["k"]
    if k == "bool":
        return f'D("%d", (int)(({e}) ? 1 : 0));'
    if k in ("u8", "u16", "u32", "u64", "char"):
        return f'D("%llu", (unsigned long long)({e}));'
    if k in ("s8", "s16", "s32", "s64"):
        return f'D("%lld", (long long)({e}));'
    if k == "f32":
        return f'{{ uint32_t b_; float f_ = ({e}); memcpy(&b_, &f_, 4); D("x%x", b_); }}'
    if k == "f64":
        return f'{{ uint64_t b_; double f_ = ({e}); memcpy(&b_, &f_, 8); D("x%llx", (unsigned long long)b_); }}'
    if k == "string":
        return f'{{ D("s"); for (size_t i_ = 0; i_ < ({e}).len; i_++) D("%02x", (unsigned)((uint8_t*)({e}).ptr)[i_]); }}'
    if k == "list":
        i = f"i{depth}"
        return (f'{{ D("["); for (size_t {i} = 0; {i} < ({e}).len; {i}++) {{ if ({i}) D(","); ' + dump_code(t["t"], f"({e}).ptr[{i}]", depth + 1) + ' } D("]"); }')
    if k in ("record", "tuple"):
        parts = []
        for n, f in enumerate(t["fs"]):
            parts.append(('D(",");' if n else "") + dump_code(f, f"({e}).f{n}", depth + 1))
        return '{ D("{"); ' + " ".join(parts) + ' D("}"); }'
    if k == "variant":
        cases = []
        for n, c in enumerate(t["cs"]):
            body = f'D("<{n}");' + ("" if c["k"] == "none" else 'D(":");' + dump_code(c, f"({e}).val.c{n}", depth + 1)) + 'D(">");'
            cases.append(f"case {n}: {{ {body} break; }}")
        return f'switch ((int)({e}).tag) {{ {" ".join(cases)} default: D("<bad-tag %d>", (int)({e}).tag); }}'
    if k == "enum":
        return f'D("e%d", (int)({e}));'
    if k == "flags":
        return f'D("b%llu", (unsigned long long)({e}));'
    if k == "option":
        return f'if (({e}).is_some) {{ D("some("); ' + dump_code(t["t"], f"({e}).val", depth + 1) + ' D(")"); } else D("none");'
    if k == "result":
        ok = "" if t["ok"]["k"] == "none" else dump_code(t["ok"], f"({e}).val.ok", depth + 1)
        er = "" if t["err"]["k"] == "none" else dump_code(t["err"], f"({e}).val.err", depth + 1)
        return f'if (({e}).is_err) {{ D("err("); {er} D(")"); }} else {{ D("ok("); {ok} D(")"); }}'
    raise ToolError(f"dump: type {k}")


# ------------------------------------------------------------------ prototypes
def _params(text_):
    out, depth, cur = [], 0, ""
    for ch in text_:
        if ch == "(":
            depth += 1
        elif ch == ")":
            depth -= 1
        if ch == "," and depth == 0:
            out.append(cur.strip())
            cur = ""
        else:
            cur += ch
    if cur.strip() and cur.strip() != "void":
        out.append(cur.strip())
    return out


def prototype(header, name):
    m = re.search(r"^(?:extern\s+)?([\w ]+?[\s*]+)" + re.escape(name) + r"\(([^;{]*)\)\s*;", header, re.M)
    if not m:
        raise ToolError(f"cannot find the prototype of `{name}` in the generated header")
    ps = []
    for p in _params(m.group(2)):
        pm = re.match(r"^(.*?)(\w+)$", p)
        ps.append({"decl": p, "type": pm.group(1).strip(), "name": pm.group(2), "ptr": "*" in pm.group(1)})
    return m.group(1).strip(), ps


def core_decls(csrc, prefix):
    """name -> (ret, [param types]) of `RET <prefix>NAME(PARAMS)` declarations or definitions in the generated .c"""
    out = {}
    for m in re.finditer(r"^(?:extern\s+)?(?![\s(])(\w[\w ]*?[\s*]+)(" + re.escape(prefix) + r"\w*)\(([^)]*)\)\s*[;{]", csrc, re.M):
        tys = []
        for p in _params(m.group(3)):
            pm = re.match(r"^(.*?[\s*])(\w+)$", p)
            tys.append((pm.group(1) if pm and pm.group(2) not in ("int32_t", "int64_t", "float", "double", "size_t") and not p.endswith("*") else p).strip())
        out[m.group(2)] = (m.group(1).strip(), tys)
    return out


def to_u64(ty, e):
    ty = ty.replace(" ", "")
    if "*" in ty:
        return f"(uint64_t)(uintptr_t)({e})"
    if ty in ("int32_t", "uint32_t"):
        return f"(uint64_t)(uint32_t)({e})"
    if ty in ("int64_t", "uint64_t", "size_t"):
        return f"(uint64_t)({e})"
    if ty == "float":
        return f"f32_bits({e})"
    if ty == "double":
        return f"f64_bits({e})"
    raise ToolError(f"core C type `{ty}`")


def from_u64(ty, e):
    ty = ty.replace(" ", "")
    if "*" in ty:
        return f"({ty})(uintptr_t)({e})"
    if ty in ("int32_t", "uint32_t", "int64_t", "uint64_t", "size_t"):
        return f"({ty})({e})"
    if ty == "float":
        return f"bits_f32((uint32_t)({e}))"
    if ty == "double":
        return f"bits_f64({e})"
    raise ToolError(f"core C type `{ty}`")


PRELUDE = r'''
#include <stdint.h>
#include <stddef.h>
#include <stdbool.h>
#include <string.h>
#include <stdio.h>
#include <stdlib.h>
extern void vh_init(uintptr_t guest_realloc); extern void vh_finish(void); extern void vh_select(size_t); extern size_t vh_cases(void);
extern void vh_begin(const char *); extern void vh_end(const char *);
extern uint64_t vh_import_call(const char *key, const uint64_t *args, size_t n);
extern size_t vh_export_args(const char *name, uint64_t *out, size_t cap); extern void vh_export_result(const char *name, uint64_t ret);
extern void vh_note(const char *kind, const char *detail);
static inline uint64_t f32_bits(float f) { uint32_t b; memcpy(&b, &f, 4); return b; }
static inline uint64_t f64_bits(double f) { uint64_t b; memcpy(&b, &f, 8); return b; }
static inline float bits_f32(uint32_t b) { float f; memcpy(&f, &b, 4); return f; }
static inline double bits_f64(uint64_t b) { double f; memcpy(&f, &b, 8); return f; }
'''


def guest_sources(unit, header, csrc, flattening):
    """(impl.c, shim.c, main.c) for one unit.  flattening = the C backend's default signature flattening is on: then the
    parameters cannot be addressed uniformly and only the round trips are judged (no dumps)."""
    ps, r = unit["ps"], unit["r"]
    ret, eparams = prototype(header, "exports_t_w_e_f")
    iret, iparams = prototype(header, "t_w_i_f")
    if [p["name"] for p in eparams] != [p["name"] for p in iparams] or (ret == "void") != (iret == "void"):
        raise ToolError(f"import and export prototypes of f differ in shape: {eparams} / {iparams}")
    has_res = r["k"] != "none"
    impl = ['#include "w.h"', PRELUDE, "static char dumpbuf[1 << 16]; static size_t dumplen;",
            "#define D(...) do { if (dumplen < sizeof dumpbuf - 64) dumplen += (size_t)snprintf(dumpbuf + dumplen, sizeof dumpbuf - dumplen, __VA_ARGS__); } while (0)"]
    body = []
    args = ", ".join(p["name"] for p in eparams)
    nps = len(ps)
    if not flattening:
        if len(eparams) not in (nps, nps + 1):
            raise ToolError(f"unexpected parameter list without flattening: {eparams}")
        body.append("dumplen = 0; dumpbuf[0] = 0;")
        for n, (t, p) in enumerate(zip(ps, eparams)):
            body.append(('D(";");' if n else "") + dump_code(t, f"(*{p['name']})" if p["ptr"] else p["name"]))
        body.append('vh_note("export-args", dumpbuf);')
    call = f"t_w_i_f({args})"
    out_param = eparams[nps]["name"] if (not flattening and len(eparams) == nps + 1) else None
    if ret == "void":
        body.append(f"{call};")
    else:
        body.append(f"{ret} r_ = {call};")
    # the export owns its arguments: free them with the generated helpers (the import only borrowed them)
    for p in eparams:
        if p["ptr"] and re.fullmatch(r"(maybe_)?x\d+", p["name"]):
            base = re.sub(r"_t\s*\*$", "", p["type"].replace("const ", "").strip())
            fn = base + "_free"
            if re.search(r"\b" + re.escape(fn) + r"\(", header):
                body.append(f"if ({p['name']}) {fn}({p['name']});")
    if not flattening and has_res:
        body.append("dumplen = 0; dumpbuf[0] = 0;")
        body.append(dump_code(r, f"(*{out_param})" if out_param else "r_"))
        body.append('vh_note("import-result", dumpbuf);')
    if ret != "void":
        body.append("return r_;")
    impl.append(f"{ret} exports_t_w_e_f(" + ", ".join(p["decl"] for p in eparams) + ") {\n  " + "\n  ".join(body) + "\n}")
    # shim: the core imports
    shim = [PRELUDE, "/* defined by the wasm32 component-type object in a real build */", "void __component_type_object_force_link_w(void) {}"]
    for name, (rt, tys) in core_decls(csrc, "__wasm_import_").items():
        m = re.search(r'__import_module__\("([^"]*)"\),\s*__import_name__\("([^"]*)"\)\)\)\s*extern\s+[\w *]+?' + re.escape(name) + r"\(", csrc)
        if not m:
            raise ToolError(f"cannot find the import attributes of {name}")
        decl = ", ".join(f"{t} a{i}" for i, t in enumerate(tys))
        arr = ", ".join(to_u64(t, f"a{i}") for i, t in enumerate(tys)) or "0"
        call = f'vh_import_call("{m.group(1)}|{m.group(2)}", (const uint64_t[]){{{arr}}}, {len(tys)})'
        shim.append(f"{rt} {name}({decl}) {{ " + (f"(void){call};" if rt == "void" else f"return {from_u64(rt, call)};") + " }")
    # main: the host side driver
    exps = core_decls(csrc, "__wasm_export_exports_t_w_e_f")
    ert, etys = exps["__wasm_export_exports_t_w_e_f"]
    post = "__wasm_export_exports_t_w_e_f_post_return" in exps
    main = [PRELUDE, f"extern {ert} __wasm_export_exports_t_w_e_f(" + ", ".join(etys) + ");",
            "extern void *cabi_realloc(void *, size_t, size_t, size_t);"]
    if post:
        main.append(f"extern void __wasm_export_exports_t_w_e_f_post_return({ert});")
    main.append("int main(void) {\n  vh_init((uintptr_t)&cabi_realloc);\n  size_t n = vh_cases();\n  for (size_t k = 0; k < n; k++) {\n    char what[64];\n    vh_select(k);")
    main.append('    snprintf(what, sizeof what, "export:%zu", k); vh_begin(what);')
    main.append(f"    uint64_t a[{max(1, len(etys))}]; vh_export_args(\"f\", a, {max(1, len(etys))});")
    call = "__wasm_export_exports_t_w_e_f(" + ", ".join(from_u64(t, f"a[{i}]") for i, t in enumerate(etys)) + ")"
    if ert == "void":
        main.append(f"    {call}; vh_export_result(\"f\", 0);")
    else:
        main.append(f"    {ert} r = {call}; vh_export_result(\"f\", {to_u64(ert, 'r')});")
        if post:
            main.append("    __wasm_export_exports_t_w_e_f_post_return(r);")
    main.append("    vh_end(what);\n  }\n  vh_finish();\n  return 0;\n}")
    return "\n".join(impl) + "\n", "\n".join(shim) + "\n", "\n".join(main) + "\n"


def unit_vector(unit):
    return {"cases": [{"imports": {"t:w/i|f": c["enc"]["lower"]}, "exports": {"f": c["enc"]["lift"]}} for c in unit["cases"]]}


def expected_dumps(unit):
    out = []
    for c in unit["cases"]:
        out.append({"export-args": ";".join(text(t, v) for t, v in zip(unit["ps"], c["args"])),
                    "import-result": None if unit["r"]["k"] == "none" else text(unit["r"], c["res"])})
    return out
