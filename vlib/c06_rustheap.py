"""C06: see vlib/rexec_run.py (shared native-execution harness, heap ledger judgement)."""
from . import rexec_run


def run(tier):
    return rexec_run.run_property("C06", tier)


def selftest():
    from . import c05_rustvalues
    return c05_rustvalues.selftest()
