"""C14: extraction of the scalar conversion expressions from generated code.

Probe world: interface p { f-<T>: func(x: <T>) -> <T>; } for every scalar T, imported and exported.
For every backend the import wrapper of f-<T> contains   <res> = IMPORT(<LOWER(x)>) ... return <LIFT(res)>
and the export wrapper                                     <res> = USER(<LIFT(arg)>) ... return <LOWER(res)>.
`extract(lang, out_dir)` returns {(T, "import"|"export"): {"lower": (expr text, operand), "lift": (expr text, operand)}}.
Fail-closed: a wrapper that does not have this shape raises ScanError."""
import os
import re

from .surface_scan import ScanError, _files

SCALARS = ["bool", "u8", "s8", "u16", "s16", "u32", "s32", "u64", "s64", "f32", "f64", "char"]


def snake(t):
    return "f_" + t


def camel(t):
    return "F" + t[0].upper() + t[1:]


def lcamel(t):
    return "f" + t[0].upper() + t[1:]


def _balanced(s, i):
    """s[i] == '(' -> index of the matching ')'"""
    depth = 0
    for k in range(i, len(s)):
        if s[k] in "([{":
            depth += 1
        elif s[k] in ")]}":
            depth -= 1
            if depth == 0:
                return k
    raise ScanError("unbalanced parentheses in a wrapper")


def _region(text, header_re):
    m = re.search(header_re, text, re.M)
    if not m:
        return None
    start = m.end()
    # up to the end of the function body: balanced braces from the first '{' after the header
    b = text.find("{", m.start())
    if b < 0:
        return None
    depth = 0
    for k in range(b, len(text)):
        if text[k] == "{":
            depth += 1
        elif text[k] == "}":
            depth -= 1
            if depth == 0:
                return text[b + 1:k]
    return None


def _call(body, callee_re):
    """(result variable or None, argument text) of the first call of callee_re in body"""
    m = re.search(callee_re + r"\s*\(", body)
    if not m:
        return None
    i = m.end() - 1
    j = _balanced(body, i)
    arg = body[i + 1:j].strip()
    # the variable the call is assigned to: look left of the call on the same statement
    left = body[:m.start()]
    stmt = left[max(left.rfind(";"), left.rfind("{"), left.rfind("\n")) + 1:]
    mv = re.search(r"(?:let|var|auto|int\w*|uint\w*|float|double|bool|sbyte|byte|short|ushort|long|ulong|char\w*)?\s*\(?\s*([A-Za-z_]\w*)\s*\)?\s*(?::\s*\(?[\w.:]+\)?\s*)?(?::=|=)\s*$", stmt)
    var = mv.group(1) if mv else None
    if var is None:
        # Rust exports: `let result0 = {\n  T_::f(..)\n};`
        mb = re.search(r"let\s+(\w+)\s*=\s*\{\s*$", left.rstrip() + "\n" if False else left.rstrip())
        if mb:
            var = mb.group(1)
    return var, arg, j


def _after(body, j, resvar):
    """the expression the wrapper finally yields, in terms of resvar"""
    rest = body[j + 1:]
    lines = [l.strip() for l in rest.split("\n") if l.strip() and l.strip() not in (";", "}", ")")]
    # moonbit / others: `let ret = EXPR` followed by `return ret`
    for idx, l in enumerate(lines):
        m = re.match(r"^(?:let|var|auto)?\s*ret\s*(?::\s*[\w.:]+\s*)?=\s*(.+?);?$", l)
        if m and resvar and re.search(r"\b" + re.escape(resvar) + r"\b", m.group(1)):
            return m.group(1).strip()
    for l in lines:
        m = re.match(r"^return\s+(.+?);?$", l)
        if m:
            return m.group(1).strip()
    # Rust tail expression / Go etc.: first line mentioning the result variable
    for l in lines:
        if resvar and re.search(r"\b" + re.escape(resvar) + r"\b", l) and not l.startswith(("let ", "var ")):
            return l.rstrip(";").strip()
    return None


def _resolve_temp(text, expr, operand):
    """`var t; if c { t = 1 } else { t = 0 }` ... t   ->   (c ? 1 : 0)   (Go's lowering of bool)"""
    e = expr.strip()
    if re.fullmatch(r"[A-Za-z_]\w*", e) and e != operand:
        m = re.search(r"if\s*\(?\s*([A-Za-z_]\w*)\s*\)?\s*\{\s*" + re.escape(e) + r"\s*=\s*1;?\s*\}\s*else\s*\{\s*" + re.escape(e) + r"\s*=\s*0;?\s*\}", text)
        if m:
            return f"({m.group(1)} ? 1 : 0)"
    return expr


LANG = {
    # header regexes get {snake} {camel} {lcamel}; callee regexes likewise
    "rust": {"files": (".rs",),
             "import": (r"pub fn {snake}\(x:", r"(?<!fn )wit_import\d+", "x"),
             "export": (r"pub unsafe fn _export_{snake}_cabi", r"T_::{snake}", "arg0")},
    "c": {"files": (".c",),
          "import": (r"^\w+ t_s_p_{snake}\(\w+ x\) \{{", r"__wasm_import_t_s_p_{snake}", "x"),
          "export": (r"__wasm_export_exports_t_s_p_{snake}\(", r"exports_t_s_p_{snake}", "arg")},
    "cpp": {"files": (".cpp",),
            "import": (r"t::s::p::{camel}\(", r"__wasm_import_\w*{snake}", "x"),
            "export": (r"__wasm_export_\w*{snake}\(", r"exports::t::s::p::{camel}", "arg0")},
    "go": {"files": (".go",),
           "import": (r"^func {camel}\(x ", r"wasm_import_{snake}", "x"),
           "export": (r"^func wasm_export_t_s_p_{snake}\(", r"[\w.]*export_t_s_p\.{camel}", "arg0")},
    "csharp": {"files": (".cs",),
               "import": (r"public static unsafe \w+ {camel}\(\w+ x\)", r"[\w.]*wasmImport{camel}", "x"),
               "export": (r"public static unsafe \w+ wasmExport{camel}\(", r"[\w.]*PExportsImpl\.{camel}", "p0")},
    "moonbit": {"files": (".mbt",),
                "import": (r"^pub fn {snake}\(x :", r"wasmImport{camel}", "x"),
                "export": (r"^pub fn wasmExport{camel}\(p0 :", r"(?<![\w.]){snake}", "p0")},
    "d": {"files": (".d",),
          "import": (r"^\w+ {lcamel}\(\w+ x\)", r"__import_{lcamel}", "x"),
          "export": (r"extern\(C\) \w+ __export_{lcamel}\(", r"{lcamel}_Impl", "arg0")},
}


def extract(lang, out_dir):
    spec = LANG[lang]
    texts = [open(f).read() for f in _files(out_dir, spec["files"])]
    out = {}
    for t in SCALARS:
        names = {"snake": snake(t), "camel": camel(t), "lcamel": lcamel(t)}
        for direction in ("import", "export"):
            header, callee, operand = spec[direction]
            header, callee = header.format(**names), callee.format(**names)
            found = None
            for text in texts:
                body = _region(text, header)
                if body is None:
                    continue
                c = _call(body, callee)
                if c is None:
                    continue
                resvar, arg, j = c
                arg = _resolve_temp(body[:j], arg, operand)
                final = _after(body, j, resvar)
                if final is not None:
                    final = _resolve_temp(body[j:], final, resvar)
                if final is None:
                    if direction == "import" and resvar is None:
                        raise ScanError(f"{lang}: the {direction} wrapper of f-{t} has no result expression")
                    raise ScanError(f"{lang}: cannot find what the {direction} wrapper of f-{t} yields")
                found = {"first": (arg, operand), "second": (final, resvar)}
                break
            if found is None:
                raise ScanError(f"{lang}: cannot find the {direction} wrapper of f-{t} (header /{header}/, callee /{callee}/)")
            if direction == "import":
                out[(t, "import")] = {"lower": found["first"], "lift": found["second"]}
            else:
                out[(t, "export")] = {"lift": found["first"], "lower": found["second"]}
    return out
