"""C13  Every backend's core imports/exports match the world's canonical ABI.

spec -> impl: specs/abi/CoreSurface.tla (on top of CallConv/CanonABI) gives, for every world of
WorldGrammar.tla, the set of core imports (module, name, signature) and exports the Component Model
assigns.  The real generators are run on the rendered worlds; what they declare is read back --
for C from the real wasm32 module (clang + wasm-ld), for the other backends by the fail-closed
declaration scanners of surface_scan.py -- and compared with the spec:
   * every (referenced) import is in Imports(world) with that signature, or is a `$root` built-in
     intrinsic, which the component encoder then has to accept;
   * every export is in Exports(world) with that signature (anything else the encoder would drop
     silently), and every required export is there.
Second oracle: a core module with exactly the declared surface must be accepted by
wit_component::ComponentEncoder (validation on) and decode to the requested world.
Meta-check: on every enumerated world the TLA+ surface must equal what wit-parser's mangling gives
(`surface reference`); a disagreement is a tool error (spec bug), not a finding.
The tests/codegen corpus is judged against `surface reference` (the spec's world language does not
cover arbitrary WIT)."""
import os
import re
import shutil
import time

from .core import *
from .genprobe import *
from . import surface_scan as ss

PID = "C13"
TEXT_LANGS = ["rust", "cpp", "csharp", "go", "moonbit", "d"]
LANGS = ["c"] + TEXT_LANGS
BUILTIN_EXPORTS = {"cabi_realloc": (["i32", "i32", "i32", "i32"], ["i32"]), "_initialize": ([], []), "_start": ([], [])}
ROOT_BUILTIN = re.compile(r"^(\[cancellable\])?(\[async-lower\])?\[(waitable-set-(new|wait|poll|drop)(-i32|-i64)?|waitable-join|subtask-drop|subtask-cancel|task-cancel|"
                          r"backpressure-(set|inc|dec)|context-(get|set)(-i32|-i64)?-\d+|thread-[a-z-]+(-v0)?|error-context-(new|debug-message)-(utf8|utf16|latin1\+utf16)|error-context-drop|yield)\]$")


def shape(name):
    pre = "cabi_post_" if name.startswith("cabi_post_") else ""
    return pre + re.sub(r"\d+", "N", "".join(re.findall(r"\[[^\]]*\]", name)))


def surface_exe():
    return os.path.join(cargo_build("surface"), "surface")


def spec_surfaces(wd, k, full=False):
    """{world key: {False: vec, True: vec}} from TLC (GEN mode)"""
    out = {}
    stats = []
    for async_all, boundary in ((False, False), (True, False), (False, True), (True, True)):
        cfg = os.path.join(wd, f"cs_{int(async_all)}{int(boundary)}.cfg")
        open(cfg, "w").write(f"CONSTANTS\n  Full = {'TRUE' if full else 'FALSE'}\n  K = {k}\n  AsyncAll = {'TRUE' if async_all else 'FALSE'}\n"
                             + ("INIT InitB\nNEXT NextB\n" if boundary else "INIT Init\nNEXT Next\n") + "INVARIANT EmitSurface\n")
        g = tlc("abi/MC_CoreSurface", cfg, workers=8, wd=wd, xmx="8g", timeout=3000)
        if g.violated:
            raise ToolError(f"CoreSurface.tla is not functional on some world (invariant {g.violated})")
        stats.append(g)
        for v in g.vecs:
            key = (v["ctor"], v["wrap"], v["role"], v["fkind"], v["dir"])
            out.setdefault(key, {})[async_all] = v
            if boundary:
                out[key]["boundary"] = True
    return out, stats


def index_expected(imports, exports):
    imps = {(i["module"], i["name"]): (list(i["params"]), list(i["results"])) for i in imports}
    exps = {e["name"]: (list(e["params"]), list(e["results"]), bool(e["required"])) for e in exports}
    for n, (p, r) in BUILTIN_EXPORTS.items():
        exps.setdefault(n, (p, r, False))
    return imps, exps


def meta_check(spec_vec, ref, what):
    """spec surface == wit-parser surface, else the spec (or the renderer) is wrong: tool error"""
    si, se = index_expected(spec_vec["imports"], spec_vec["exports"])
    ri, re_ = index_expected(ref["imports"], ref["exports"])
    if si != ri:
        d = sorted(set(si.items()) ^ set(ri.items()), key=str)[:6]
        raise ToolError(f"CoreSurface.tla disagrees with wit-parser on the imports of {what}: {d}")
    if se != re_:
        d = sorted(set((k, str(v)) for k, v in se.items()) ^ set((k, str(v)) for k, v in re_.items()))[:6]
        raise ToolError(f"CoreSurface.tla disagrees with wit-parser on the exports of {what}: {d}")


def compare(lang, variant, scanned, expected, out, ctx, unit=()):
    """scanned: {"imports","exports"}; expected: (imps, exps).  Reports violations; returns stats."""
    imps, exps = expected
    tag = lang + (f"+{variant}" if variant else "")
    st = {"imports": 0, "exports": 0, "builtin_imports": 0, "unreferenced_skipped": 0}
    seen = {}
    for i in scanned["imports"]:
        key = (i["module"], i["name"])
        sig = (list(i["params"]), list(i["results"]))
        st["imports"] += 1
        if key in seen and seen[key] != sig:
            out.violation(f"import-conflict:{lang}:{shape(i['name'])}", f"{tag}: `{i['module']}` `{i['name']}` is declared twice with different core signatures {seen[key]} and {sig}", ctx)
        seen[key] = sig
        if key in imps:
            if imps[key] != sig:
                out.violation(f"import-sig:{lang}:{shape(i['name'])}:{'async' if '[async-lower]' in i['name'] else 'sync'}",
                              f"{tag}: import `{i['module']}` `{i['name']}` declared as {sig[0]} -> {sig[1]}, the canonical ABI gives {imps[key][0]} -> {imps[key][1]}", ctx)
        elif any(i["name"].startswith(u["prefix"]) for u in unit):
            u = next(u for u in unit if i["name"].startswith(u["prefix"]))
            st["unit_intrinsics"] = st.get("unit_intrinsics", 0) + 1
            if (list(u["params"]), list(u["results"])) != sig:
                out.violation(f"import-sig:{lang}:{shape(u['prefix'])}:unit", f"{tag}: unit-payload intrinsic `{i['module']}` `{i['name']}` declared as {sig[0]} -> {sig[1]}, "
                              f"the canonical ABI gives {u['params']} -> {u['results']}", ctx)
        elif i["module"] in ("$root", "[export]$root") and ROOT_BUILTIN.match(i["name"]):
            st["builtin_imports"] += 1      # judged by the component encoder below
        elif not i.get("referenced", True):
            st["unreferenced_skipped"] += 1
        else:
            # a recognisable special case: the intrinsic names the function by its bare item name (`m`) instead of
            # its component-level name (`[method]r0.m`, `[constructor]r0`)
            tail = i["name"].rsplit("]", 1)[-1]
            allnames = [n for (_, n) in imps] + list(exps)
            bare = tail and "[" not in tail and any(n.endswith("." + tail) or (tail == "constructor" and "[constructor]" in n) for n in allnames)
            m = re.match(r"^((?:\[async-lower\])?\[(?:future|stream)-[a-z-]+-)\d+(\].*)$", i["name"])
            wrong_index = bool(m) and any(mod == i["module"] and n.startswith(m.group(1)) and n.endswith(m.group(2)) for (mod, n) in imps)
            out.violation(f"import-unknown:{lang}:{shape(i['name'])}" + (":bare-resource-func-name" if bare else ":empty-func-name" if not tail else
                                                                         ":wrong-payload-index" if wrong_index else ""),
                          f"{tag}: import `{i['module']}` `{i['name']}` names no item of the world", ctx)
    names = set()
    for e in scanned["exports"]:
        st["exports"] += 1
        sig = (list(e["params"]), list(e["results"]))
        names.add(e["name"])
        if e["name"] in exps:
            if exps[e["name"]][:2] != sig and not e.get("assumed_sig"):
                out.violation(f"export-sig:{lang}:{shape(e['name'])}", f"{tag}: export `{e['name']}` defined as {sig[0]} -> {sig[1]}, the canonical ABI gives "
                              f"{exps[e['name']][0]} -> {exps[e['name']][1]}", ctx)
        else:
            out.violation(f"export-ignored:{lang}:{shape(e['name'])}", f"{tag}: export `{e['name']}` names no item of the world (the component encoder ignores it silently)", ctx)
    for n, (_, _, req) in exps.items():
        if req and n not in names:
            out.violation(f"export-missing:{lang}:{shape(n)}", f"{tag}: required export `{n}` is not generated", ctx)
    return st


def encoder_job(jid, wit, scanned):
    imps, seen = [], set()
    for i in scanned["imports"]:
        if not i.get("referenced", True) or (i["module"], i["name"]) in seen:
            continue
        seen.add((i["module"], i["name"]))
        imps.append({"module": i["module"], "name": i["name"], "params": i["params"], "results": i["results"]})
    exps, seen = [], set()
    for e in scanned["exports"]:
        if e["name"] in seen or e["name"] == "memory":
            continue
        seen.add(e["name"])
        exps.append({"name": e["name"], "params": e["params"], "results": e["results"]})
    return {"id": jid, "wit": wit, "imports": imps, "exports": exps}


def judge_encoder(lang, variant, r, out, ctx):
    tag = lang + (f"+{variant}" if variant else "")
    if "tool_error" in r:
        raise ToolError(f"surface encode failed on {ctx.get('name')}: {r['tool_error']}")
    if r["encoder"] != "ok":
        msg = re.sub(r"\d+", "N", r["error"])
        msg = re.sub(r"`[^`]*`", "`_`", msg)[:120]
        out.violation(f"encoder:{lang}:{msg}", f"{tag}: the component encoder rejects a module with the declared surface: {r['error'][:400]}", ctx)
        return
    want, got = r["want"], r["got"]
    if want["exports"] != got["exports"]:
        out.violation(f"encoder-world:{lang}:exports", f"{tag}: the encoded component exports {sorted(got['exports'])} but the world exports {sorted(want['exports'])}", ctx)
    for n, item in got["imports"].items():
        w = want["imports"].get(n)
        if w is None or w["kind"] != item["kind"] or (item["kind"] == "interface" and not set(item["funcs"]) <= set(w["funcs"])):
            out.violation(f"encoder-world:{lang}:imports", f"{tag}: the encoded component imports `{n}` {item}, which the world does not", ctx)


def variants_for(lang, tier):
    info = backend_info(lang)
    vs = [("", [])]
    for name, args in info["variants"]:
        if tier == "thorough" or name in ("async", "no-sig-flattening"):
            vs.append((name, args))
    return vs


def async_dirs(args):
    return [a.split("=", 1)[1] for a in args if a.startswith("--async=")]


def run(tier):
    t0 = time.time()
    wd = workdir(PID)
    out = Outcome(PID)
    cli = cli_exe()
    sx = surface_exe()
    ss.ensure_libc()
    spec, stats = spec_surfaces(wd, 0 if tier == "quick" else 3)
    keys = sorted(spec)
    unit = spec[keys[0]][False]["unit"]
    if tier == "quick":
        keys = [k for n, k in enumerate(keys) if n % 3 == 0 or spec[k].get("boundary")]
    worlds = [spec[k][False] for k in keys]
    wdir = os.path.join(wd, "worlds")
    paths = write_worlds(worlds, wdir)
    corpus = corpus_files()
    inputs = paths + corpus
    feats = wit_features(inputs)

    # reference surfaces (wit-parser) for everything; meta-check of the spec on the grammar worlds
    jobs = []
    for i, p in enumerate(inputs):
        if "error" in feats[p]:
            continue
        jobs.append({"id": f"{i}:0", "wit": p, "async": []})
        jobs.append({"id": f"{i}:1", "wit": p, "async": ["all"]})
    write_ndjson(os.path.join(wd, "ref_jobs.ndjson"), jobs)
    sh([sx, "reference", os.path.join(wd, "ref_jobs.ndjson"), os.path.join(wd, "ref_out.ndjson")], check=True, timeout=1800)
    ref = {r["id"]: r for r in read_ndjson(os.path.join(wd, "ref_out.ndjson"))}
    meta = 0
    for i, k in enumerate(keys):
        for a in (False, True):
            r = ref.get(f"{i}:{int(a)}")
            if r is None or "tool_error" in r:
                raise ToolError(f"wit-parser rejects the rendered world {k}: {r}")
            meta_check(spec[k][a], r, f"{k} async_all={a}")
            meta += 1

    # is the component encoder applicable at all?  A module with exactly the reference surface must be accepted
    # (it is not for worlds wasmparser does not accept yet -- flags with > 32 members, stream<char> -- and for
    # `--async=all` over functions the WIT declares sync: the validator wants an `async func` type for an async lift)
    base = []
    for rid, r in ref.items():
        if "tool_error" in r:
            continue
        i = int(rid.split(":")[0])
        base.append({"id": rid, "wit": inputs[i], "imports": [{k: x[k] for k in ("module", "name", "params", "results")} for x in r["imports"]],
                     "exports": [e for e in r["exports"] if e["required"]]})
    write_ndjson(os.path.join(wd, "base_jobs.ndjson"), base)
    sh([sx, "encode", os.path.join(wd, "base_jobs.ndjson"), os.path.join(wd, "base_out.ndjson")], check=True, timeout=3000)
    encodable = {r["id"] for r in read_ndjson(os.path.join(wd, "base_out.ndjson")) if r.get("encoder") == "ok"}

    # generate
    units = []
    excl = {l: excluded_features(l)[0] for l in LANGS}
    for lang in LANGS:
        for vname, vargs in variants_for(lang, tier):
            dirs = async_dirs(vargs)
            if dirs not in ([], ["all"]):
                raise ToolError(f"variant {vname} of {lang} uses --async directives this check does not model: {dirs}")
            for i, p in enumerate(inputs):
                f = feats[p]
                # corpus files: the declared verdict *and* the feature rule (C13 quantifies over the features a backend supports)
                if "error" in f or not supported(lang, f["features"], vname, excl[lang], p, f) or not supported(lang, f["features"], vname, excl[lang]):
                    continue
                if tier == "quick" and i >= len(paths) and vname and vname != "async":
                    continue
                units.append({"lang": lang, "variant": vname, "args": cli_args(lang, vargs), "i": i, "wit": p, "async_all": dirs == ["all"],
                              "out": os.path.join(wd, "out", f"{lang}-{vname or 'default'}-{i}")})
    gen = run_matrix(cli, [{"lang": u["lang"], "wit": u["wit"], "out": u["out"], "args": u["args"]} for u in units], workers=16, wd=wd)
    for u, j in zip(units, gen):
        u["gen"] = j["res"]["status"]

    # C: compile and link for real
    cc, links = [], []
    for n, u in enumerate(units):
        if u["lang"] == "c" and u["gen"] == "ok":
            cmds, link = ss.c_compile_cmds(u["out"])
            for m, c in enumerate(cmds):
                cc.append((f"{n}:{m}", c))
            links.append((str(n), link))
    rcc = run_commands(cc, wd, workers=16, timeout_ms=120000) if cc else {}
    failed_cc = {}
    for cid, r in sorted(rcc.items()):
        if r["rc"] != 0:
            failed_cc[int(cid.split(":")[0])] = (r.get("stderr_head", "") + r["stderr"])[-600:]
    rl = run_commands([l for l in links if int(l[0]) not in failed_cc], wd, workers=16, timeout_ms=120000) if links else {}

    enc_jobs, judged, scan_stats = [], 0, {}
    c_not_compiled = 0
    for n, u in enumerate(units):
        if u["gen"] != "ok":
            continue
        name = os.path.basename(u["wit"]) if u["i"] >= len(paths) else "gen:" + "/".join(keys[u["i"]])
        ctx = {"name": name, "lang": u["lang"], "variant": u["variant"], "args": u["args"],
               "wit": open(u["wit"]).read() if os.path.isfile(u["wit"]) else u["wit"]}
        if u["lang"] == "c":
            if n in failed_cc or str(n) not in rl or rl[str(n)]["rc"] != 0:
                c_not_compiled += 1      # C12's business (compile / link failure)
                continue
            p = sh([sx, "module", os.path.join(u["out"], "linked.wasm")], check=True)
            scanned = json.loads(p.stdout)
            for i in scanned["imports"]:
                i["referenced"] = True
            scanned["imports"] = [i for i in scanned["imports"] if i["module"] != "env"]
        else:
            scanned = ss.scan(u["lang"], u["out"])
        r = ref.get(f"{u['i']}:{int(u['async_all'])}")
        if r is None or "tool_error" in r:
            continue
        if u["i"] < len(paths):
            v = spec[keys[u["i"]]][u["async_all"]]
            expected = index_expected(v["imports"], v["exports"])
        else:
            expected = index_expected(r["imports"], r["exports"])
        nviol = len(out.violations)
        st = compare(u["lang"], u["variant"], scanned, expected, out, ctx, unit)
        for k2, v2 in st.items():
            scan_stats[k2] = scan_stats.get(k2, 0) + v2
        judged += 1
        # the encoder is asked only where the spec comparison found nothing (its complaint would repeat the report)
        if f"{u['i']}:{int(u['async_all'])}" in encodable and len(out.violations) == nviol:
            enc_jobs.append((u, ctx, encoder_job(str(n), u["wit"], scanned)))
    write_ndjson(os.path.join(wd, "enc_jobs.ndjson"), [j for _, _, j in enc_jobs])
    sh([sx, "encode", os.path.join(wd, "enc_jobs.ndjson"), os.path.join(wd, "enc_out.ndjson")], check=True, timeout=3000)
    enc = {r["id"]: r for r in read_ndjson(os.path.join(wd, "enc_out.ndjson"))}
    enc_ok = 0
    for u, ctx, j in enc_jobs:
        r = enc[j["id"]]
        enc_ok += r.get("encoder") == "ok"
        judge_encoder(u["lang"], u["variant"], r, out, ctx)
    shutil.rmtree(os.path.join(wd, "out"), ignore_errors=True)
    write_ndjson(os.path.join(wd, "violations.ndjson"), [{"key": k, "desc": d, "name": r.get("name", "")} for k, d, r in out.violations])
    rc, unlisted = out.finish()
    per_lang = {}
    for u in units:
        d = per_lang.setdefault(u["lang"], {"units": 0, "generated": 0})
        d["units"] += 1
        d["generated"] += u["gen"] == "ok"
    sample = spec[keys[5]][False]
    write_evidence(PID, tier, "model_checking", {
        "states": sum(s.distinct for s in stats), "transitions": sum(s.generated for s in stats),
        "traces_validated_against_impl": judged,
        "samples": [{"world": {k: sample[k] for k in ("ctor", "wrap", "role", "fkind", "dir")},
                     "spec_imports": sample["imports"][:6], "spec_exports": sample["exports"][:6]}],
        "spec": "specs/abi/CoreSurface.tla + MC_CoreSurface.tla over WorldGrammar.tla (GEN mode, sync and --async=all surfaces)",
        "worlds": len(keys), "corpus_inputs": len(corpus), "meta_checks_spec_vs_wit_parser": meta,
        "per_backend": per_lang, "declarations": scan_stats, "encoder_runs": len(enc_jobs), "encoder_accepted": enc_ok, "encoder_applicable_inputs": len(encodable), "encoder_inputs": len(base),
        "c_units_not_compiled_left_to_C12": c_not_compiled,
        "variants": {l: [v for v, _ in variants_for(l, tier)] for l in LANGS},
    }, ["C surface is read from the real wasm32 module (clang 14 + wasm-ld, freestanding libc shim); Rust, C++, C#, Go, MoonBit, D from "
        "declaration scanners (no toolchains); scanners fail closed on unknown forms",
        "`$root` built-in intrinsics (waitable-set, subtask, context, ...) are judged by the component encoder only",
        "worlds on which generation fails are C16's business; corpus worlds use wit-parser's mangling as the reference"], time.time() - t0, unlisted)
    return rc


def selftest():
    """a wrong name, a wrong signature, a missing and a spurious export must each be reported"""
    exp = index_expected([{"module": "t:w/i", "name": "f", "params": ["i32"], "results": []}],
                         [{"name": "t:w/i#g", "params": [], "results": ["i32"], "required": True}])

    class O:
        def __init__(self):
            self.v = []

        def violation(self, k, d, r):
            self.v.append(k)
    o = O()
    compare("x", "", {"imports": [{"module": "t:w/i", "name": "ff", "params": ["i32"], "results": [], "referenced": True},
                                  {"module": "t:w/i", "name": "f", "params": ["i64"], "results": [], "referenced": True}],
                      "exports": [{"name": "t:w/i#h", "params": [], "results": ["i32"]}]}, exp, o, {})
    kinds = {k.split(":")[0] for k in o.v}
    if kinds != {"import-unknown", "import-sig", "export-ignored", "export-missing"}:
        log(f"selftest C13: expected four kinds of report, got {o.v}")
        return 2
    log("selftest C13 ok")
    return 0
