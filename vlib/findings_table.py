"""python3 -m vlib.findings_table : the table of DESIGN.md 12.2 from known-findings.json"""
import json
import os


def main():
    d = json.load(open(os.path.join(os.path.dirname(os.path.dirname(os.path.abspath(__file__))), "known-findings.json")))
    rows = []
    for f in d["findings"]:
        st = "fixed " + f.get("commit", "") if f["status"] == "fixed" else "open"
        what = f["what"]
        if what.startswith("fixed:"):
            what = what.split(" ", 3)[3] if len(what.split(" ", 3)) > 3 else what
        rows.append((f["property"], f["id"], st, what.replace("|", "/").replace("\n", " ")[:230]))
    rows.sort(key=lambda r: (r[2].startswith("open"), r[0], r[1]))
    print("| id | property | status | what |")
    print("|---|---|---|---|")
    for p, i, st, w in rows:
        print(f"| {i} | {p} | {st} | {w} |")


if __name__ == "__main__":
    main()
