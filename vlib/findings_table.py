"""python3 -m vlib.findings_table : the table of DESIGN.md 12.2 from known-findings.json"""
import json
import os


def table():
    d = json.load(open(os.path.join(os.path.dirname(os.path.dirname(os.path.abspath(__file__))), "known-findings.json")))
    rows = []
    for f in d["findings"]:
        st = "fixed " + f.get("commit", "") if f["status"] == "fixed" else "open"
        what = f["what"]
        if what.startswith("fixed:"):
            what = what.split(" ", 3)[3] if len(what.split(" ", 3)) > 3 else what
        rows.append((f["property"], f["id"], st, what.replace("|", "/").replace("\n", " ")[:230]))
    rows.sort(key=lambda r: (r[2].startswith("open"), r[0], r[1]))
    out = ["| id | property | status | what |", "|---|---|---|---|"]
    for p, i, st, w in rows:
        w = w if len(w) < 230 else w[:w.rfind(" ")] + " ..."
        out.append(f"| {i} | {p} | {st} | {w} |")
    return "\n".join(out) + "\n"


def main():
    """prints the table; with --write replaces it between the markers of DESIGN.md"""
    import sys
    t = table()
    if "--write" in sys.argv:
        p = os.path.join(os.path.dirname(os.path.dirname(os.path.abspath(__file__))), "DESIGN.md")
        s = open(p).read()
        a, b = "<!-- findings-table:begin -->\n", "<!-- findings-table:end -->"
        s = s[:s.index(a) + len(a)] + t + s[s.index(b):]
        open(p, "w").write(s)
    else:
        print(t, end="")


if __name__ == "__main__":
    main()
