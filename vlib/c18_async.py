"""C18: see vlib/async_rt.py (shared harness run, property-specific monitors)."""
from . import async_rt


def run(tier):
    return async_rt.run_property("C18", tier)


def selftest():
    return async_rt.selftest("C18")
