"""Helpers shared by the checks that use harness/small."""
import os
from .core import *


def small_exe():
    return os.path.join(cargo_build("small"), "small")


def witnesses(spec, cfg_src, names, wd, strip=("INVARIANT", "INVARIANTS")):
    """Non-vacuity: each witness (a negated reachability predicate) must be *violated*."""
    cfg = open(os.path.join(SPECS, cfg_src + ".cfg")).read()
    for w in names:
        path = os.path.join(wd, f"wit_{w}.cfg")
        lines = [l for l in cfg.splitlines() if not l.startswith(strip)]
        open(path, "w").write("\n".join(lines) + f"\nINVARIANT {w}\n")
        r = tlc(spec, path, workers=2, wd=wd)
        if r.violated != w:
            raise ToolError(f"vacuity: witness {w} not reachable in the bounded model ({cfg_src})")


def with_constants(cfg_src, wd, name, repl):
    """Copy a cfg with textual constant replacements {'MaxOps = 3': 'MaxOps = 4'}."""
    s = open(os.path.join(SPECS, cfg_src + ".cfg")).read()
    for a, b in repl.items():
        if a not in s:
            raise ToolError(f"cfg {cfg_src}: pattern {a!r} not found")
        s = s.replace(a, b)
    path = os.path.join(wd, name + ".cfg")
    open(path, "w").write(s)
    return path


def validate_trace(spec, cfg, trace_path, wd, out, what):
    """TRACE mode; returns the TlcResult; registers a violation when the trace is rejected."""
    t = tlc(spec, cfg, workers=1, wd=wd, env={"TRACE": trace_path}, dfs=True, xmx="3g")
    if t.violated or t.tagged.get("REJECTED"):
        info = (t.tagged.get("REJECTED") or [{}])[0]
        nxt = info.get("next")
        key = f"trace:{t.violated}:" + json.dumps(nxt, sort_keys=True)[:120]
        out.violation(key, f"{what}: recorded behaviour of the real code is not a behaviour of the spec "
                      f"(invariant/postcondition {t.violated}); first unmatched event: {info}",
                      {"trace_file": trace_path, "info": info, "tlc": t.trace[:80]})
        return t, False
    return t, True
