"""Native execution of generated Rust bindings against the generic spec-driven host (harness/vhost).
Shared by C05 (values), C06 (heap).  See DESIGN.md 12.5.

One *unit* = one function signature (ps, r) with several cases (argument values, result value),
each case carrying the canonical encoding computed by TLC (MC_RustExec / CallConv.CallEncoding).
The unit's world:

    package t:w;
    interface types { <named definitions> }
    interface i { use types.{..}; f: func(<ps>) -> <r>;  echo: func(r: <r>); }     (imported)
    interface e { use types.{..}; f: func(<ps>) -> <r>; }                          (exported)
    world w { import i; export e; }

Import direction: the test calls i::f with Rust literals of the arguments; the host compares the
lowered core values / memory with the spec and answers with the spec's encoding of the result;
the lifted result is passed to i::echo, whose lowered form the host compares with the spec again.
Export direction: the host builds the arguments, calls the real `t:w/e#f` export; the guest's
implementation passes what it received to i::f (host compares), returns the result literal, the
host compares the lowered result and calls the real post-return.  A counting global allocator
brackets each direction."""
import json
import os
import re

from .core import *
from .witgen import Defs

PRIM_RUST = {"bool": "bool", "u8": "u8", "s8": "i8", "u16": "u16", "s16": "i16", "u32": "u32", "s32": "i32", "u64": "u64", "s64": "i64",
             "f32": "f32", "f64": "f64", "char": "char", "string": "String"}
TYPES_MOD = "bindings::t::w::types"


def le(bs):
    return sum(b << (8 * i) for i, b in enumerate(bs))


def camel(name):
    return "".join(p.capitalize() for p in name.split("-"))


class RustRender:
    """Rust type and literal rendering for the type language of CanonABI.tla (names assigned by witgen.Defs)"""

    def __init__(self, defs):
        self.defs = defs

    def named(self, t):
        key = json.dumps(t, sort_keys=True)
        for kk, n in self.defs.named:
            if kk == key:
                return f"{TYPES_MOD}::{camel(n)}"
        raise ToolError(f"type without a name: {t}")

    def ty(self, t):
        k = t["k"]
        if k in PRIM_RUST:
            return PRIM_RUST[k]
        if k == "list":
            return f"Vec<{self.ty(t['t'])}>"
        if k == "option":
            return f"Option<{self.ty(t['t'])}>"
        if k == "result":
            a = "()" if t["ok"]["k"] == "none" else self.ty(t["ok"])
            b = "()" if t["err"]["k"] == "none" else self.ty(t["err"])
            return f"Result<{a}, {b}>"
        if k == "tuple":
            return "(" + "".join(self.ty(f) + ", " for f in t["fs"]) + ")"
        if k in ("record", "variant", "enum", "flags"):
            return self.named(t)
        raise ToolError(f"type {k} is not in the native-exec universe")

    def val(self, t, v):
        k = t["k"]
        if k == "bool":
            return "true" if v else "false"
        if k in ("u8", "u16", "u32", "u64"):
            return f"{le(v)}{PRIM_RUST[k]}"
        if k in ("s8", "s16", "s32", "s64"):
            n = le(v)
            bits = 8 * len(v)
            if n >= 1 << (bits - 1):
                n -= 1 << bits
            return f"({n}{PRIM_RUST[k]})" if n >= 0 else f"({PRIM_RUST[k]}::MIN + {n + (1 << (bits - 1))})" if n == -(1 << (bits - 1)) else f"({n}{PRIM_RUST[k]})"
        if k == "f32":
            return f"f32::from_bits({le(v):#x})"
        if k == "f64":
            return f"f64::from_bits({le(v):#x})"
        if k == "char":
            return f"char::from_u32({le(v):#x}).unwrap()"
        # strings and lists are built with spare capacity, as user code typically does (push_str, format!, collect):
        # what crosses the boundary is (ptr, len), what has to be freed is the whole allocation
        if k == "string":
            return "cap_s(&[" + ", ".join(str(b) for b in v) + "])"
        if k == "list":
            return "cap_v(vec![" + ", ".join(self.val(t["t"], x) for x in v) + "])"
        if k == "option":
            return f"Some({self.val(t['t'], v['v'])})" if v["some"] else "None"
        if k == "result":
            side = t["ok"] if v["ok"] else t["err"]
            inner = "()" if side["k"] == "none" else self.val(side, v["v"])
            return f"Ok({inner})" if v["ok"] else f"Err({inner})"
        if k == "tuple":
            return "(" + "".join(self.val(f, x) + ", " for f, x in zip(t["fs"], v)) + ")"
        if k == "record":
            return self.named(t) + " { " + ", ".join(f"f{i}: {self.val(f, x)}" for i, (f, x) in enumerate(zip(t["fs"], v))) + " }"
        if k == "variant":
            c = v["c"]
            ct = t["cs"][c]
            return self.named(t) + f"::C{c}" + ("" if ct["k"] == "none" else f"({self.val(ct, v['v'])})")
        if k == "enum":
            return self.named(t) + f"::E{v}"
        if k == "flags":
            on = [f"{self.named(t)}::B{i}" for i, b in enumerate(v) if b]
            return "(" + " | ".join(on) + ")" if on else f"{self.named(t)}::empty()"
        raise ToolError(f"value of type {k} is not in the native-exec universe")


def unit_world(ps, r):
    """(WIT text, Defs) of the unit's world"""
    d = Defs()
    pts = [d.ty(p) for p in ps]
    rt = None if r["k"] == "none" else d.ty(r)
    names = [n for _, n in d.named]
    use = f"  use types.{{{', '.join(names)}}};\n" if names else ""
    sig = "func(" + ", ".join(f"x{i}: {p}" for i, p in enumerate(pts)) + ")" + (f" -> {rt}" if rt else "")
    wit = "package t:w;\n\ninterface types {\n" + "".join(f"  {x}\n" for x in d.defs) + "}\n\n"
    wit += f"interface i {{\n{use}  f: {sig};\n" + (f"  echo: func(r: {rt});\n" if rt else "") + "}\n\n"
    wit += f"interface e {{\n{use}  f: {sig};\n}}\n\nworld w {{\n  import i;\n  export e;\n}}\n"
    return wit, d


# ------------------------------------------------------------------ nativise
_IMPORT_BLOCK = re.compile(
    r'#\[cfg\(target_arch = "wasm32"\)\]\s*#\[link\(wasm_import_module = "([^"]*)"\)\]\s*unsafe extern "C" \{\s*#\[link_name = "([^"]*)"\]\s*'
    r'fn (\w+)\(([^)]*)\)\s*(?:->\s*([^;]+?))?\s*;\s*\}\s*#\[cfg\(not\(target_arch = "wasm32"\)\)\]\s*unsafe extern "C" fn (\w+)\(([^)]*)\)\s*(?:->\s*([^{]+?))?\s*\{\s*unreachable!\(\)\s*\}')


def _to_u64(ty, name):
    ty = ty.strip()
    if ty in ("i32", "u32"):
        return f"({name} as u32) as u64"
    if ty in ("i64", "u64"):
        return f"{name} as u64"
    if ty == "f32":
        return f"{name}.to_bits() as u64"
    if ty == "f64":
        return f"{name}.to_bits()"
    if ty.startswith("*mut") or ty.startswith("*const") or ty in ("usize", "isize"):
        return f"{name} as usize as u64"
    if "MaybeUninit" in ty:
        return f"unsafe {{ {name}.assume_init() }}"
    raise ToolError(f"nativise: unknown core type spelling `{ty}`")


def _from_u64(ty):
    ty = ty.strip()
    if ty in ("i32", "u32", "i64", "u64", "usize", "isize"):
        return f"r as {ty}"
    if ty == "f32":
        return "f32::from_bits(r as u32)"
    if ty == "f64":
        return "f64::from_bits(r)"
    if ty.startswith("*mut") or ty.startswith("*const"):
        return f"r as usize as {ty}"
    raise ToolError(f"nativise: unknown core result spelling `{ty}`")


def nativise(src):
    """routes every core import of generated Rust to vhost::import_call (host target only)"""
    count = 0

    def repl(m):
        nonlocal count
        count += 1
        module, name, ident, params, ret = m.group(1), m.group(2), m.group(6), m.group(7), m.group(8)
        tys = [p.split(":", 1)[1].strip() for p in params.split(",") if p.strip()]
        args = ", ".join(f"a{i}: {t}" for i, t in enumerate(tys))
        conv = ", ".join(_to_u64(t, f"a{i}") for i, t in enumerate(tys))
        body = f'let r = ::vhost::import_call("{module}|{name}", &[{conv}]); '
        body += (_from_u64(ret) if ret and ret.strip() else "let _ = r;")
        return f'unsafe extern "C" fn {ident}({args}){" -> " + ret.strip() if ret and ret.strip() else ""} {{ {body} }}'
    out = _IMPORT_BLOCK.sub(repl, src)
    if out.count("wasm_import_module") != 0:
        raise ToolError("nativise: an import declaration of the generated Rust has an unknown form")
    return out, count


def core_rust(ty):
    return {"i32": "i32", "i64": "i64", "f32": "f32", "f64": "f64"}[ty]


def arg_from_u64(ty, e):
    return {"i32": f"({e}) as i32", "i64": f"({e}) as i64", "f32": f"f32::from_bits(({e}) as u32)", "f64": f"f64::from_bits({e})"}[ty]


def ret_to_u64(ty, e):
    return {"i32": f"({e} as u32) as u64", "i64": f"{e} as u64", "f32": f"{e}.to_bits() as u64", "f64": f"{e}.to_bits()"}[ty]


def _fn_params(src, module, name):
    """the parameter texts of `pub fn <name>(...)` in `pub mod <module> {` (balanced brackets)"""
    m = re.search(r"pub mod " + module + r" \{", src)
    if not m:
        raise ToolError(f"cannot find `pub mod {module}` in the generated bindings")
    k = src.find(f"pub fn {name}(", m.end())
    if k < 0:
        raise ToolError(f"cannot find the generated import wrapper `{module}::{name}`")
    i = k + len(f"pub fn {name}(")
    depth, cur, out = 0, "", []
    while True:
        ch = src[i]
        if ch in "(<[":
            depth += 1
        elif ch in ")>]":
            if depth == 0:
                break
            depth -= 1
        if ch == "," and depth == 0:
            out.append(cur)
            cur = ""
        else:
            cur += ch
        i += 1
    if cur.strip():
        out.append(cur)
    return [p.strip() for p in out if p.strip()]


def _split_top(s):
    depth, cur, out = 0, "", []
    for ch in s:
        if ch in "(<[":
            depth += 1
        elif ch in ")>]":
            depth -= 1
        if ch == "," and depth == 0:
            out.append(cur)
            cur = ""
        else:
            cur += ch
    if cur.strip():
        out.append(cur)
    return [x.strip() for x in out if x.strip()]


class Inexpressible(ToolError):
    """the test program cannot build the borrowed view the generated signature asks for in one expression"""


def conv_ref(e, g, depth=0):
    """expression of the generated (possibly borrowed) parameter type `g` from `e`, an expression of type &Owned"""
    g = g.strip()
    if g == "&str":
        return f"({e}).as_str()"
    if g.startswith("&["):
        inner = g[2:-1].strip()
        if "&" in inner:
            # a borrowed list of borrowed elements (--ownership=borrowing: `&[&str]`): the views are built in a temporary vector,
            # which lives long enough only when the expression is an argument itself (not the body of a closure)
            if depth:
                raise Inexpressible(f"a view of type {g} inside an option / result")
            return f"&({e}).iter().map(|v| {conv_ref('v', inner, 1)}).collect::<Vec<_>>()[..]"
        return f"({e}).as_slice()"
    if g.startswith("&"):
        return f"({e})"
    if g == "()":
        return "()"
    m = re.match(r"^(?:::core::option::)?Option<(.*)>$", g, re.S)
    if m:
        return f"({e}).as_ref().map(|v| {conv_ref('v', m.group(1), depth + 1)})"
    m = re.match(r"^(?:::core::result::)?Result<(.*)>$", g, re.S)
    if m:
        a, b = _split_top(m.group(1))
        return f"({e}).as_ref().map(|v| {conv_ref('v', a, depth + 1)}).map_err(|v| {conv_ref('v', b, depth + 1)})"
    if g.startswith("("):
        parts = _split_top(g[1:-1])
        return "(" + "".join(conv_ref(f"&({e}).{i}", p, depth) + ", " for i, p in enumerate(parts)) + ")"
    return f"({e}).clone()"


def import_param_types(bindings_src, name, n):
    """the generated parameter types of the import wrapper `i::<name>`"""
    ps = _fn_params(bindings_src, "i", name)
    if len(ps) != n:
        raise ToolError(f"generated `i::{name}` has {len(ps)} parameters, the unit has {n}: {ps}")
    return [p.split(":", 1)[1].strip() for p in ps]


def test_main(unit, bindings_src, has_post_return):
    """the test program of one unit (all its cases)"""
    ps, r = unit["ps"], unit["r"]
    rr = RustRender(unit["defs"])
    has_res = r["k"] != "none"
    gtys = import_param_types(bindings_src, "f", len(ps))
    echo_ty = import_param_types(bindings_src, "echo", 1)[0] if has_res else None
    ptys = [rr.ty(p) for p in ps]
    rty = rr.ty(r) if has_res else "()"
    lift = unit["cases"][0]["enc"]["lift"]
    sig = lift["sig"]
    cparams = ", ".join(f"a{i}: {core_rust(t)}" for i, t in enumerate(sig["params"]))
    cret = (" -> " + core_rust(sig["results"][0])) if sig["results"] else ""
    out = ["#![allow(unused, non_snake_case, clippy::all)]",
           "#[allow(warnings)]", "mod bindings { include!(\"w_native.rs\"); }", "use std::cell::Cell;",
           "thread_local! { static CASE: Cell<usize> = const { Cell::new(0) }; }",
           "fn cap_s(b: &[u8]) -> String { let mut s = String::with_capacity(b.len() + 13); s.push_str(std::str::from_utf8(b).unwrap()); s }",
           "fn cap_v<T>(v: Vec<T>) -> Vec<T> { let mut w = Vec::with_capacity(v.len() + 5); w.extend(v); w }",
           "struct Impl;",
           "impl bindings::exports::t::w::e::Guest for Impl {",
           "    fn f(" + ", ".join(f"x{i}: {t}" for i, t in enumerate(ptys)) + ")" + (f" -> {rty}" if has_res else "") + " {",
           "        // what the export received goes straight back out through the import, where the host compares it with the spec",
           "        let _r = bindings::t::w::i::f(" + ", ".join(conv_ref(f"&x{i}", g) for i, g in enumerate(gtys)) + ");",
           "        drop(_r);"]
    if has_res:
        out.append("        match CASE.with(|c| c.get()) {")
        for k, c in enumerate(unit["cases"]):
            out.append(f"            {k} => {rr.val(r, c['res'])},")
        out.append("            _ => unreachable!(),\n        }")
    out += ["    }", "}", "bindings::export!(Impl with_types_in bindings);",
            f'unsafe extern "C" {{\n    #[link_name = "t:w/e#f"]\n    fn export_f({cparams}){cret};']
    if has_post_return:
        out.append(f'    #[link_name = "cabi_post_t:w/e#f"]\n    fn post_return_f(a0: {core_rust(sig["results"][0])});')
    out += ["}", "fn main() {", "    vhost::init();"]
    for k, c in enumerate(unit["cases"]):
        out.append(f"    // ---- case {k}")
        out.append(f"    vhost::select({k}); CASE.with(|c| c.set({k}));")
        out.append(f'    vhost::begin("import:{k}");')
        out.append("    {")
        for i, (p, v) in enumerate(zip(ps, c["args"])):
            out.append(f"        let a{i}: {ptys[i]} = {rr.val(p, v)};")
        call = "bindings::t::w::i::f(" + ", ".join(conv_ref(f"&a{i}", g) for i, g in enumerate(gtys)) + ")"
        if has_res:
            out.append(f"        let r: {rty} = {call};")
            out.append("        bindings::t::w::i::echo(" + conv_ref("&r", echo_ty) + ");")
        else:
            out.append(f"        {call};")
        out.append("    }")
        out.append(f'    vhost::end("import:{k}");')
        out.append(f'    vhost::begin("export:{k}");')
        out.append("    {")
        out.append('        let a = vhost::export_args("f");')
        args = ", ".join(arg_from_u64(t, f"a[{i}]") for i, t in enumerate(sig["params"]))
        if sig["results"]:
            out.append(f"        let ret = unsafe {{ export_f({args}) }};")
            out.append(f'        vhost::export_result("f", {ret_to_u64(sig["results"][0], "ret")});')
            if has_post_return:
                out.append("        unsafe { post_return_f(ret) };")
        else:
            out.append(f"        unsafe {{ export_f({args}) }};")
            out.append('        vhost::export_result("f", 0);')
        out.append("    }")
        out.append(f'    vhost::end("export:{k}");')
    out += ["    vhost::finish();", "}"]
    return "\n".join(out) + "\n"


def unit_vector(unit):
    """the JSON the host reads: per case the expectations of every import and export"""
    cases = []
    for c in unit["cases"]:
        imports = {"t:w/i|f": c["enc"]["lower"]}
        if unit["r"]["k"] != "none":
            imports["t:w/i|echo"] = c["encEcho"]["lower"]
        cases.append({"imports": imports, "exports": {"f": c["enc"]["lift"]}})
    return {"cases": cases}


# ------------------------------------------------------------------ async (C08)
ASYNC_CONFIGS = {
    # name: (generator options, imports async?, export async?)
    "both": (["--async", "all"], True, True),
    "export-only": (["--async", "export:t:w/e#f"], False, True),
    "import-only": (["--async", "import:t:w/i#f", "--async", "import:t:w/i#echo"], True, False),
}


def async_opts(cfgname, has_res):
    """the generator options of a configuration for a unit (a function without result has no `echo` to name)"""
    o = list(ASYNC_CONFIGS[cfgname][0])
    if cfgname == "import-only" and not has_res:
        o = o[:2]
    return o


def _fn_params_any(src, module, name):
    """like _fn_params, for `pub fn` and `pub async fn`"""
    for kw in ("pub fn", "pub async fn"):
        try:
            return _fn_params(src.replace(f"{kw} {name}(", f"pub fn {name}("), module, name)
        except ToolError:
            continue
    raise ToolError(f"cannot find the generated import wrapper `{module}::{name}`")


def test_main_async(unit, bindings_src, cfgname, runs):
    """the test program of one unit under an async configuration.  `runs` = [(case, modes, cancel_at)]: each is one call of
    the export.  The export's body makes every import call of the unit: it forwards what it received (f), calls f with
    literals and passes the lifted result to echo, then returns the result literal -- so one task carries the export's lift
    and lower and the import's lower and lift."""
    _, imp_async, exp_async = ASYNC_CONFIGS[cfgname]
    ps, r = unit["ps"], unit["r"]
    rr = RustRender(unit["defs"])
    has_res = r["k"] != "none"
    gtys = [p.split(":", 1)[1].strip() for p in _fn_params_any(bindings_src, "i", "f")]
    if len(gtys) != len(ps):
        raise ToolError(f"generated `i::f` has {len(gtys)} parameters, the unit has {len(ps)}")
    echo_ty = [p.split(":", 1)[1].strip() for p in _fn_params_any(bindings_src, "i", "echo")][0] if has_res else None
    ptys = [rr.ty(p) for p in ps]
    rty = rr.ty(r) if has_res else "()"
    lift = unit["cases"][0]["enc"]["lift"]
    sig = lift["sig"]
    aw = ".await" if imp_async else ""
    out = ["#![allow(unused, non_snake_case, clippy::all)]",
           "#[allow(warnings)]", "mod bindings { include!(\"w_native.rs\"); }", "use std::cell::Cell;",
           "thread_local! { static CASE: Cell<usize> = const { Cell::new(0) }; }",
           "fn cap_s(b: &[u8]) -> String { let mut s = String::with_capacity(b.len() + 13); s.push_str(std::str::from_utf8(b).unwrap()); s }",
           "fn cap_v<T>(v: Vec<T>) -> Vec<T> { let mut w = Vec::with_capacity(v.len() + 5); w.extend(v); w }",
           "struct Impl;",
           "async fn body(" + ", ".join(f"x{i}: {t}" for i, t in enumerate(ptys)) + f") -> {rty} {{",
           "    // (1) what the export received goes straight back out through the import, where the host compares it with the spec",
           "    let _r = bindings::t::w::i::f(" + ", ".join(conv_ref(f"&x{i}", g) for i, g in enumerate(gtys)) + f"){aw};",
           "    drop(_r);",
           "    // (2) the same call from literals; what is lifted from its result is lowered again through echo",
           "    match CASE.with(|c| c.get()) {"]
    for k, c in enumerate(unit["cases"]):
        out.append(f"        {k} => {{")
        for i, (p, v) in enumerate(zip(ps, c["args"])):
            out.append(f"            let a{i}: {ptys[i]} = {rr.val(p, v)};")
        call = "bindings::t::w::i::f(" + ", ".join(conv_ref(f"&a{i}", g) for i, g in enumerate(gtys)) + f"){aw}"
        if has_res:
            out.append(f"            let r: {rty} = {call};")
            out.append("            bindings::t::w::i::echo(" + conv_ref("&r", echo_ty) + f"){aw};")
            out.append(f"            {rr.val(r, c['res'])}")
        else:
            out.append(f"            {call};")
        out.append("        }")
    out += ["        _ => unreachable!(),", "    }", "}",
            "impl bindings::exports::t::w::e::Guest for Impl {"]
    params = ", ".join(f"x{i}: {t}" for i, t in enumerate(ptys))
    fwd = ", ".join(f"x{i}" for i in range(len(ptys)))
    if exp_async:
        out.append(f"    async fn f({params})" + (f" -> {rty}" if has_res else "") + f" {{ body({fwd}).await }}")
    else:
        out.append(f"    fn f({params})" + (f" -> {rty}" if has_res else "") + f" {{ wit_bindgen::block_on(body({fwd})) }}")
    out += ["}", "bindings::export!(Impl with_types_in bindings);"]
    cparams = ", ".join(f"a{i}: {core_rust(t)}" for i, t in enumerate(sig["params"]))
    args = ", ".join(arg_from_u64(t, f"a[{i}]") for i, t in enumerate(sig["params"]))
    if exp_async:
        out.append(f'unsafe extern "C" {{\n    #[link_name = "[async-lift]t:w/e#f"]\n    fn export_f({cparams}) -> i32;\n'
                   f'    #[link_name = "[callback][async-lift]t:w/e#f"]\n    fn callback_f(a: u32, b: u32, c: u32) -> u32;\n}}')
    else:
        cret = (" -> " + core_rust(sig["results"][0])) if sig["results"] else ""
        out.append(f'unsafe extern "C" {{\n    #[link_name = "t:w/e#f"]\n    fn export_f({cparams}){cret};')
        if "cabi_post_t:w/e#f" in bindings_src:
            out.append(f'    #[link_name = "cabi_post_t:w/e#f"]\n    fn post_return_f(a0: {core_rust(sig["results"][0])});')
        out.append("}")
    out += ["fn main() {", "    vhost::init();"]
    for n, (k, modes, cancel) in enumerate(runs):
        out.append(f"    vhost::select({k}); CASE.with(|c| c.set({k}));")
        out.append(f'    vhost::begin("task:{n}");')
        ncalls = (3 if has_res else 2) if imp_async else 0      # the spec counts the async import calls
        out.append(f'    vhost::ahost::schedule("{modes}", {cancel}, {ncalls}, {"true" if imp_async else "false"}, {"true" if exp_async else "false"});')
        if exp_async:
            out.append(f'    vhost::ahost::run_export("f", |a| unsafe {{ export_f({args}) }} as u32, |x, y, z| unsafe {{ callback_f(x, y, z) }});')
        else:
            out.append("    {")
            out.append('        let a = vhost::export_args("f");')
            if sig["results"]:
                out.append(f"        let ret = unsafe {{ export_f({args}) }};")
                out.append(f'        vhost::export_result("f", {ret_to_u64(sig["results"][0], "ret")});')
                if "cabi_post_t:w/e#f" in bindings_src:
                    out.append("        unsafe { post_return_f(ret) };")
            else:
                out.append(f"        unsafe {{ export_f({args}) }};")
                out.append('        vhost::export_result("f", 0);')
            out.append("        vhost::host(|| drop(a));")
            out.append('        vhost::ahost::sync_export_done();')
            out.append("    }")
        out.append(f'    vhost::end("task:{n}");')
    out += ["    vhost::finish();", "}"]
    return "\n".join(out) + "\n"


def unit_vector_async(unit):
    v = unit_vector(unit)
    for c, case in zip(unit["cases"], v["cases"]):
        case["taskReturn"] = c["encEcho"]["lower"] if unit["r"]["k"] != "none" else None
    return v
