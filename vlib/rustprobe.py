"""The compiler invocation cargo uses for a crate that depends on /repo's `wit-bindgen` (the guest
runtime + macro), captured once from `cargo build -v` of a probe crate and replayed for other
sources (C09: generated bindings; C32: macro layouts).  Host target: there is no wasm32 Rust
target in this sandbox."""
import os
import re
import shlex
import shutil
import subprocess

from .core import *

PROBE_TARGET = os.path.join(HARNESS, "target", "probe")


HOOK_FLAGS = ["--cfg", "bytecodealliance_wit_bindgen_verif", "--check-cfg", "cfg(bytecodealliance_wit_bindgen_verif)"]


def probe_rustc(wd, lib_rs="#![allow(unused)]\n", features=None, hook=False):
    """returns (env assignments, rustc argv) of the probe crate's own compilation; hook=True compiles /repo's wit-bindgen
    with the verification cfg (native extern shims of the async runtime), in a target directory of its own"""
    probe = os.path.join(wd, "probe-hook" if hook else "probe")
    os.makedirs(os.path.join(probe, ".cargo"), exist_ok=True)
    os.makedirs(os.path.join(probe, "src"), exist_ok=True)
    feat = ""
    if features is not None:
        feat = ", default-features = false, features = [" + ", ".join(f'"{f}"' for f in features) + "]"
    open(os.path.join(probe, "Cargo.toml"), "w").write(
        '[package]\nname = "macrodeps-probe"\nversion = "0.0.0"\nedition = "2021"\n\n[lib]\n\n[dependencies]\n'
        f'wit-bindgen = {{ path = "{REPO}/crates/guest-rust"{feat} }}\n\n[workspace]\n')
    open(os.path.join(probe, ".cargo", "config.toml"), "w").write(
        "[net]\noffline = true\n" + ("[build]\nrustflags = [" + ", ".join(f'"{f}"' for f in HOOK_FLAGS) + "]\n" if hook else ""))
    shutil.copy(os.path.join(REPO, "Cargo.lock"), os.path.join(probe, "Cargo.lock"))
    open(os.path.join(probe, "src", "lib.rs"), "w").write(lib_rs)
    env = dict(os.environ, CARGO_TARGET_DIR=PROBE_TARGET + ("-hook" if hook else ""), CARGO_NET_OFFLINE="true")
    env.pop("RUSTFLAGS", None)
    subprocess.run(["cargo", "clean", "--offline", "-p", "macrodeps-probe"], cwd=probe, env=env, stdout=subprocess.PIPE, stderr=subprocess.PIPE)
    p = subprocess.run(["cargo", "build", "--offline", "-v"], cwd=probe, env=env, stdout=subprocess.PIPE, stderr=subprocess.STDOUT, text=True, timeout=3000)
    if p.returncode != 0:
        raise ToolError("cannot build the probe crate: " + p.stdout[-1500:])
    for ln in p.stdout.splitlines():
        m = re.search(r"Running `(.*--crate-name macrodeps_probe .*)`\s*$", ln)
        if m:
            argv = shlex.split(m.group(1))
            envs, cmd = [], []
            for a in argv:
                if not cmd and re.match(r"^[A-Z_][A-Z0-9_]*=", a):
                    envs.append(a)
                else:
                    cmd.append(a)
            return envs, cmd, probe
    raise ToolError("cargo -v did not show the rustc invocation of the probe crate:\n" + p.stdout[-1500:])


def replay(envs, cmd, src, out_dir, manifest_dir=None, emit="dep-info,metadata", extra=(), edition=None, drop_check_cfg=False):
    """the probe's rustc command with another root source file and output directory"""
    os.makedirs(out_dir, exist_ok=True)
    res, skip = [], False
    for k, a in enumerate(cmd):
        if skip:
            skip = False
            continue
        if a == "--out-dir":
            res += ["--out-dir", out_dir]
            skip = True
        elif a == "--check-cfg" and drop_check_cfg:
            skip = True          # cargo's feature list for the probe crate says nothing about generated code
        elif a == "-C" and k + 1 < len(cmd) and cmd[k + 1].startswith("incremental="):
            skip = True
        elif a.startswith("--emit="):
            res.append("--emit=" + emit)
        elif a.startswith("--error-format=") or a.startswith("--json=") or a.startswith("--diagnostic-width"):
            continue
        elif "link" in emit and a.endswith(".rmeta") and "=" in a:
            res.append(a[:-6] + ".rlib")          # a binary needs the full rlibs, cargo pipelines libs on metadata
        elif a.startswith("--edition=") and edition:
            res.append("--edition=" + edition)
        elif a.endswith("src/lib.rs"):
            res.append(src)
        else:
            res.append(a)
    e = list(envs)
    if manifest_dir:
        e = [x for x in e if not x.startswith("CARGO_MANIFEST_DIR=")] + [f"CARGO_MANIFEST_DIR={manifest_dir}"]
    return ["env"] + e, res + list(extra)
