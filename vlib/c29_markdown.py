"""C29  Markdown docs have valid links and verbatim documentation text.

specs/gen/MarkdownDoc.tla models (1) the link-rewriting pass of Markdown::finish as a machine over
the Markdown parser's event stream -- TLC checks over all well-formed event strings that it never
introduces nesting unless the documentation itself contains raw HTML anchors (and exhibits the
raw-anchor counterexample as a witness) -- and (2) the three clauses of the property over an
observation of a generated document.  TLC enumerates documentation shapes (pairs of line kinds x
position), the real generator renders each, the HTML is tokenised (html.parser) and the observation
is judged by TLC (Obs_MarkdownDoc).  The tests/codegen corpus and the WorldGrammar worlds (with doc
comments) are observed as well."""
import html.parser
import os
import re
import shutil
import time

from .core import *
from .genprobe import *
from .witgen import render_world

PID = "C29"
LINES = {
    "braces": "uses { braces } and a closing }",
    "slashes": "see http://e.x/a // not a comment",
    "known-code": "returns a `t0` value",
    "md-link-code": "see [`t0`](https://e.x/t0) for details",
    "html-link-code": 'see <a href="https://e.x/doc">`t0`</a> for details',
    "unknown-code": "the `nothing` item is not defined here",
    "meta": "a < b && c > d * e _f_ [x] (y) #z",
    "leading-brace": "} starts with a brace {",
    "padded": "   padded with spaces   ",
    "comment-markers": "/// triple /* block */ // double",
}


def doc_world(v):
    d = "".join(f"  /// {LINES[k]}\n" for k in (v["first"], v["second"]))
    dd = "".join(f"    /// {LINES[k]}\n" for k in (v["first"], v["second"]))
    t = d if v["pos"] == "type" else "  /// a record\n"
    fl = dd if v["pos"] == "field" else ""
    fn = d if v["pos"] == "func" else "  /// a function\n"
    return ("package t:d;\n\ninterface i {\n" + t + "  record t0 {\n" + fl + "    x: u32,\n  }\n" + fn +
            "  f: func(a: t0) -> option<t0>;\n}\n\ninterface j {\n  record t0 { y: string }\n  g: func(b: t0) -> t0;\n}\n\n"
            "world w {\n  import i;\n  export j;\n}\n"), [LINES[v["first"]].strip(), LINES[v["second"]].strip()]


class _Tok(html.parser.HTMLParser):
    def __init__(self):
        super().__init__(convert_charrefs=True)
        self.tokens, self.ids, self.refs = [], [], []

    def handle_starttag(self, tag, attrs):
        a = dict(attrs)
        if "id" in a and a["id"] is not None:
            self.ids.append(a["id"])
        if tag == "a":
            if "href" in a:
                self.tokens.append("open-link")
                if (a["href"] or "").startswith("#"):
                    self.refs.append(a["href"][1:])
            else:
                self.tokens.append("open-anchor")

    def handle_endtag(self, tag):
        if tag == "a":
            self.tokens.append("close")


def observe(out_dir, oid, docs):
    htmls = [f for f in os.listdir(out_dir) if f.endswith(".html")]
    mds = [f for f in os.listdir(out_dir) if f.endswith(".md")]
    if len(htmls) != 1 or len(mds) != 1:
        raise ToolError(f"unexpected markdown output in {out_dir}: {os.listdir(out_dir)}")
    t = _Tok()
    t.feed(open(os.path.join(out_dir, htmls[0])).read())
    md = set()
    for ln in open(os.path.join(out_dir, mds[0])).read().splitlines():
        ln = ln.strip()
        md.add(ln)
        if ln.startswith("<p>"):
            md.add(ln[3:].strip())
    return {"id": oid, "tokens": t.tokens, "ids": sorted(set(t.ids)), "refs": sorted(set(t.refs)), "docs": docs, "md": sorted(md)}


def wit_doc_lines(path):
    """documentation lines (trimmed, non-empty) of a WIT file or directory"""
    files = [path] if os.path.isfile(path) else [os.path.join(r, f) for r, _, fs in os.walk(path) for f in fs if f.endswith(".wit")]
    out = []
    for f in files:
        block = []
        for ln in open(f).read().splitlines():
            m = re.match(r"\s*///(.*)$", ln)
            if m:
                if m.group(1).strip():
                    block.append(m.group(1).strip())
                continue
            if not ln.strip() or ln.strip().startswith(("//", "@")):
                continue
            # the markdown backend documents types, their members and functions; comments on packages, worlds,
            # interfaces and world-level import/export lines are not rendered at all (an omission, not an alteration)
            if not re.match(r"\s*(package|world|interface|import|export|use|include)\b", ln):
                out += block
            block = []
    return out


def run(tier):
    t0 = time.time()
    wd = workdir(PID)
    out = Outcome(PID)
    cli = cli_exe()
    mc = tlc("gen/MC_MarkdownDoc", "gen/MC_MarkdownDoc", workers=8, wd=wd, xmx="6g", timeout=1800)
    if mc.violated:
        raise ToolError(f"MarkdownDoc.tla: the modelled rewriting pass nests links ({mc.violated})")
    from .small import witnesses
    witnesses("gen/MC_MarkdownDoc", "gen/MC_MarkdownDoc", ["W_RawAnchor"], wd)
    g = tlc("gen/MC_MarkdownDoc", "gen/MC_MarkdownDoc_gen", workers=2, wd=wd)
    units = []
    for k, v in enumerate(g.vecs):
        d = os.path.join(wd, "worlds", f"doc{k}")
        os.makedirs(d, exist_ok=True)
        wit, docs = doc_world(v)
        open(os.path.join(d, "w.wit"), "w").write(wit)
        kinds = {v["first"], v["second"]}
        units.append({"id": f"doc:{v['first']}+{v['second']}@{v['pos']}", "wit": os.path.join(d, "w.wit"), "docs": [x for x in docs if x], "kinds": kinds,
                      "out": os.path.join(wd, "out", f"doc{k}")})
    gw, worlds = grammar_worlds(wd, full=False, k=0 if tier == "quick" else 3)
    if tier == "quick":
        worlds = worlds[::4]
    for k, w in enumerate(worlds):
        d = os.path.join(wd, "worlds", f"g{k}")
        os.makedirs(d, exist_ok=True)
        open(os.path.join(d, "w.wit"), "w").write(render_world(w, docs=True))
        units.append({"id": "gen:" + "/".join(w[x] for x in ("ctor", "wrap", "role", "fkind", "dir")), "wit": os.path.join(d, "w.wit"),
                      "docs": wit_doc_lines(os.path.join(d, "w.wit")), "kinds": set(), "out": os.path.join(wd, "out", f"g{k}")})
    for i, p in enumerate(corpus_files()):
        units.append({"id": "corpus:" + os.path.basename(p), "wit": p, "docs": wit_doc_lines(p), "kinds": set(), "out": os.path.join(wd, "out", f"c{i}")})
    gen = run_matrix(cli, [{"lang": "markdown", "wit": u["wit"], "out": u["out"], "args": []} for u in units], workers=16, wd=wd)
    obs, by_id, not_generated = [], {}, 0
    for u, j in zip(units, gen):
        if j["res"]["status"] != "ok":
            not_generated += 1
            if u["id"].startswith("doc:"):
                out.violation("doc-world-not-generated", f"the markdown generator fails on {u['id']}: {j['res']}", {"wit": open(u["wit"]).read(), "res": j["res"]})
            continue
        o = observe(u["out"], u["id"], u["docs"])
        obs.append(o)
        by_id[u["id"]] = (u, o)
    op = os.path.join(wd, "obs.ndjson")
    write_ndjson(op, obs)
    t = tlc("gen/Obs_MarkdownDoc", "gen/Obs_MarkdownDoc", workers=1, wd=wd, env={"OBS": op}, xmx="6g", timeout=1800, extra=["-continue"])
    for m in t.tagged.get("MISMATCH", []):
        u, o = by_id[m["id"]]
        for clause in sorted(m["failing"]):
            if clause == "NoNestedLinks":
                key = "NoNestedLinks:" + ("raw-html-anchor-in-docs" if "html-link-code" in u["kinds"] else u["id"].split(":")[0])
                desc = f"{m['id']}: the generated HTML nests a link inside another link"
            elif clause == "RefsDefined":
                key = "RefsDefined:" + u["id"].split(":")[0] + ":" + ",".join(sorted(re.sub(r"\d+", "N", x) for x in m["missing"]["refs"]))[:80]
                desc = f"{m['id']}: intra-document links to undefined anchors {sorted(m['missing']['refs'])}"
            else:
                key = "DocsVerbatim:" + ("+".join(sorted(u["kinds"])) or u["id"])
                desc = f"{m['id']}: documentation lines do not appear verbatim: {sorted(m['missing']['docs'])[:4]}"
            out.violation(key, desc, {"wit": open(u["wit"]).read() if os.path.isfile(u["wit"]) else u["wit"], "missing": m["missing"]})
    shutil.rmtree(os.path.join(wd, "out"), ignore_errors=True)
    write_ndjson(os.path.join(wd, "violations.ndjson"), [{"key": k, "desc": d} for k, d, _ in out.violations])
    rc, unlisted = out.finish()
    write_evidence(PID, tier, "model_checking", {
        "states": mc.distinct + g.distinct + t.distinct, "transitions": mc.generated + g.generated + t.generated,
        "traces_validated_against_impl": len(obs),
        "samples": [{k: (v if k != "md" else v[:8]) for k, v in obs[0].items()}] if obs else [{}],
        "doc_shapes": len(g.vecs), "grammar_worlds": len(worlds), "corpus": len(corpus_files()), "not_generated": not_generated,
        "links_seen": sum(o["tokens"].count("open-link") for o in obs), "refs_seen": sum(len(o["refs"]) for o in obs), "doc_lines": sum(len(o["docs"]) for o in obs),
        "spec": "specs/gen/MarkdownDoc.tla: rewriting machine (MC over all event strings <= 6: SafeWithoutRawHtml, witness W_RawAnchor) and the "
                "clauses NoNestedLinks / RefsDefined / DocsVerbatim judged by Obs_MarkdownDoc.tla on every generated document",
    }, ["HTML is tokenised with Python's html.parser", "DocsVerbatim is judged on the generated Markdown source (the .md file), where the text is emitted literally; "
        "a record field's first doc line shares its line with the `<p>` the generator puts before it"], time.time() - t0, unlisted)
    return rc


def selftest():
    wd = workdir(PID + "_self")
    o = {"id": "x", "tokens": ["open-link", "open-link", "close", "close"], "ids": ["a"], "refs": ["b"], "docs": ["hello"], "md": ["hellO"]}
    op = os.path.join(wd, "obs.ndjson")
    write_ndjson(op, [o, o])
    t = tlc("gen/Obs_MarkdownDoc", "gen/Obs_MarkdownDoc", workers=1, wd=wd, env={"OBS": op})
    mm = t.tagged.get("MISMATCH", [])
    if not mm or set(mm[0]["failing"]) != {"NoNestedLinks", "RefsDefined", "DocsVerbatim"}:
        log(f"selftest C29: corrupted observation not fully rejected: {mm}")
        return 2
    log("selftest C29 ok")
    return 0
