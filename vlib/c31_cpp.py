"""C31  Generated C++ bindings are well-formed C++."""
import glob
import os
import shutil
import time

from .core import *
from .genprobe import *

PID = "C31"
TEST_HEADERS = os.path.join(REPO, "crates", "cpp", "test_headers")
HELPER = os.path.join(REPO, "crates", "cpp", "helper-types")


def gxx_errors(err):
    """[(file class, message, site, raw line, file, line number)] of a g++ diagnostic text"""
    lines = err.splitlines()
    out = []
    for i, l in enumerate(lines):
        m = re.match(r"^\s*((?:/verif/work/C31/out/\d+/)?[^:\s]+):(\d+):(\d+): (?:fatal )?error: (.*)$", l)
        if not m:
            continue
        f = m.group(1)
        base = os.path.basename(f)
        where = "exports-stub-header" if re.match(r"exports-[^:]*\.h$", base) else re.sub(r"[0-9]+", "N", base)
        site = ""
        for k in lines[i + 1:i + 4]:
            mm = re.match(r"^\s*\d+ \| (.*)$", k)
            if mm:
                site = re.sub(r"\d+", "N", re.sub(r"\s+", " ", mm.group(1)).strip())[:70]
                break
        msg = m.group(4).split("In file included from")[0].strip()      # head and tail of a long text glued together
        out.append((where, re.sub(r"[0-9]+", "N", msg), site, l.strip(), f, int(m.group(2)), msg))
    return list(dict.fromkeys(out))


# ---- use before declaration in the generated headers (the listed findings F-C31-1 and F-C31-6) ---------------------------
# Both findings are one defect of *layout*: a generated header mentions a name that the same translation unit declares only
# further down, and a resource class is one of the two parties (F-C31-1: the user stub header of an exported resource is
# included before the namespace that defines the interface's types; F-C31-6: a record / variant holding own<r> / borrow<r>
# and the class of r refer to each other).  g++ reports such a line, and then everything that depended on the declaration it
# could not read: the stub's member is dropped or typed `int` (-fpermissive), the struct loses a field -- so the wording of the
# follow-on messages depends on the type expression (`cannot convert 'wit::vector<T0>' to 'int'`, `... 'std::optional<T0>'
# ...`, `too many initializers for 'T0::C1'`), which is why they are not listed by message.  They are recognised by
# *structure*, from the generated text itself:
#   root line    a line of a stub header that mentions a type the world header defines (the stub is included before the
#                first namespace), or a line of the world header that mentions a class / struct / enum / alias declared on
#                a later line of it, where that name or the class the line sits in is a resource class;
#   tainted      what a root line declares: the member function (class, name) or the structs that enclose the field;
#   follow-on    any g++ error *on* a root line, and an error in the .cpp whose source line calls / defines a tainted member
#                or whose message names a tainted struct.
# Everything else g++ says about the unit is keyed and reported as before.

_DECL_RE = re.compile(r"^(\s*)(?:struct|class|enum class|enum|using)\s+(\w+)")
_RES_RE = re.compile(r"^\s*class\s+(\w+)\s*:\s*public\s+wit::Resource(?:Import|Export)Base")


def _enclosing(lines, n):
    """names of the struct / class declarations that enclose line n (1-based), innermost first, with those opened on the line itself"""
    text = lines[n - 1]
    names = re.findall(r"\b(?:struct|class)\s+(\w+)\s*(?::[^{]*)?\{", text)[::-1]
    ind = len(text) - len(text.lstrip())
    for k in range(n - 2, -1, -1):
        m = _DECL_RE.match(lines[k])
        if m and len(m.group(1)) < ind and re.match(r"^\s*(?:struct|class)\b", lines[k]):
            names.append(m.group(2))
            ind = len(m.group(1))
        elif re.match(r"^\s*namespace\b", lines[k]) and len(lines[k]) - len(lines[k].lstrip()) < ind:
            break
    return names


class HeaderLayout:
    """what one generated output directory declares where (read from the files, not from g++'s messages)"""

    def __init__(self, out_dir):
        self.out = out_dir
        self.files = {}
        hdrs = sorted(glob.glob(os.path.join(out_dir, "*_cpp.h")))
        self.world_hdr = os.path.basename(hdrs[0]) if hdrs else None
        for p in glob.glob(os.path.join(out_dir, "*.h")) + glob.glob(os.path.join(out_dir, "*.cpp")):
            try:
                self.files[os.path.basename(p)] = open(p, errors="replace").read().splitlines()
            except OSError:
                pass
        wl = self.files.get(self.world_hdr, [])
        self.decl = {}          # name -> line numbers of its declarations in the world header
        for n, l in enumerate(wl, 1):
            m = _DECL_RE.match(l)
            if m:
                self.decl.setdefault(m.group(2), []).append(n)
            for nm in re.findall(r"\bstruct\s+(\w+)\s*\{", l)[1:]:
                self.decl.setdefault(nm, []).append(n)
        first_ns = next((n for n, l in enumerate(wl, 1) if re.match(r"^\s*namespace\b", l)), len(wl) + 1)
        self.early_stubs = {m.group(1) for l in wl[:first_ns - 1] for m in [re.match(r'^\s*#include "(exports-[^"]+\.h)"', l)] if m}
        self.resources = set()
        for f, ls in self.files.items():
            if f.endswith(".h"):
                self.resources |= {m.group(1) for l in ls for m in [_RES_RE.match(l)] if m}
        self._root = {}

    def root(self, fbase, n):
        """None, or (kind, tainted members {(class, name)}, tainted structs) if line n of file fbase uses a name before its declaration"""
        if (fbase, n) in self._root:
            return self._root[(fbase, n)]
        r = None
        ls = self.files.get(fbase)
        if ls and 1 <= n <= len(ls):
            text = ls[n - 1]
            words = set(re.findall(r"\b[A-Za-z_]\w*\b", text))
            encl = _enclosing(ls, n)
            kind = None
            if fbase in self.early_stubs:
                if words & (set(self.decl) - self.resources):
                    kind = "stub-header"
            elif fbase == self.world_hdr:
                late = {w for w in words if w in self.decl and min(self.decl[w]) > n}
                if late and (late & self.resources or (encl and encl[-1] in self.resources) or (set(encl) & self.resources)):
                    kind = "world-header"
            if kind:
                m = re.search(r"\b([A-Za-z_]\w*)\s*\(", text)
                if m and not re.search(r"\bstruct\s+\w+\s*\{", text):
                    r = (kind, {(c, m.group(1)) for c in encl[:1]}, set())
                else:
                    r = (kind, set(), set(encl))
        self._root[(fbase, n)] = r
        return r


def classify_unit(layout, errs):
    """[(key suffix or None)] per error of one translation unit: 'use-before-declaration:<kind>' for root lines and their follow-ons"""
    roots = {}
    for e in errs:
        fbase, n = os.path.basename(e[4]), e[5]
        if fbase.endswith(".h"):
            r = layout.root(fbase, n)
            if r:
                roots[(fbase, n)] = r
    members = {(k, c, m) for k, ms, _ in roots.values() for c, m in ms}
    structs = {(k, s) for k, _, ss in roots.values() for s in ss}
    out = []
    for e in errs:
        fbase, n, raw = os.path.basename(e[4]), e[5], e[6]
        if (fbase, n) in roots:
            out.append("use-before-declaration:" + roots[(fbase, n)][0])
            continue
        kind = None
        if fbase.endswith(".cpp"):
            ls = layout.files.get(fbase, [])
            text = ls[n - 1] if 1 <= n <= len(ls) else ""
            for k, c, m in sorted(members):
                if re.search(r"\b%s\b" % re.escape(c), text) and re.search(r"(?:::|\.|->)%s\(" % re.escape(m), text):
                    kind = k
                    break
            if kind is None:
                for k, s in sorted(structs):
                    if re.search(r"\b%s\b" % re.escape(s), raw):
                        kind = k
                        break
        out.append("use-before-declaration:" + kind if kind else None)
    return out


def run(tier):
    t0 = time.time()
    wd = workdir(PID)
    out = Outcome(PID)
    cli = cli_exe()
    g, worlds = grammar_worlds(wd, full=False, k=0 if tier == "quick" else 5)
    if tier == "quick":
        worlds = worlds[::3]
    from .c09_names import adversarial_worlds
    wdir = os.path.join(wd, "worlds")
    paths = write_worlds(worlds, wdir)
    adv = adversarial_worlds("cpp")
    for n, (name, wit) in enumerate(adv):
        d = os.path.join(wdir, f"adv-{name}")
        os.makedirs(d, exist_ok=True)
        open(os.path.join(d, "w.wit"), "w").write(wit)
        paths.append(os.path.join(d, "w.wit"))
    inputs = paths + corpus_files()
    feats = wit_features(inputs)
    excl, excl_info = excluded_features("cpp")
    units = []
    for i, p in enumerate(inputs):
        f = feats[p]
        if "error" in f or not supported("cpp", f["features"], "", excl, p, f):
            continue
        units.append({"i": i, "wit": p, "out": os.path.join(wd, "out", str(i))})
    gen = run_matrix(cli, [{"lang": "cpp", "wit": u["wit"], "out": u["out"], "args": cli_args("cpp")} for u in units], workers=16, wd=wd)
    cmds = []
    for u, j in zip(units, gen):
        u["gen"] = j["res"]["status"]
        if u["gen"] != "ok":
            continue
        for cpp in sorted(glob.glob(os.path.join(u["out"], "*.cpp"))):
            cmds.append((f"{u['i']}:{os.path.basename(cpp)}",
                         ["g++", "-std=c++20", "-fsyntax-only", "-w", "-fpermissive", "-fmax-errors=4", "-fno-diagnostics-color", "-D_GLIBCXX_USE_DEPRECATED=0", "-I", u["out"], "-I", TEST_HEADERS, "-I", HELPER, cpp]))
    res = run_commands(cmds, wd, workers=16, timeout_ms=120000, stderr_chars=200000)     # every diagnostic, not head + tail
    ncompiled = n_followon = 0
    for cid, r in sorted(res.items()):
        ncompiled += 1
        if r["rc"] != 0:
            i = int(cid.split(":")[0])
            p = inputs[i]
            name = os.path.basename(p) if "codegen" in p else "gen:" + os.path.basename(os.path.dirname(p))
            scope = name[4:] if name.startswith("gen:adv-") else ("gen" if name.startswith("gen:") else name)
            err = r.get("stderr_head", "") + r["stderr"]
            # every error g++ reports for the file (at most 4: -fmax-errors) is a violation of its own, identified by the world
            # (adversarial worlds and corpus files by name), the file and the message (which names the offending token / type)
            # -- except that what follows from a use before declaration in the generated headers is keyed as that (see above)
            errs = gxx_errors(err)
            kinds = classify_unit(HeaderLayout(os.path.join(wd, "out", str(i))), errs)
            n_followon += sum(1 for k in kinds if k)
            for e, kind in zip(errs, kinds) if errs else [(("?", err[-200:], "", err[-200:]), None)]:
                where, msg, site, line = e[:4]
                key = f"g++:{scope}:{kind}" if kind else f"g++:{scope}:{where}:{msg[:100]}"
                out.violation(key, f"generated C++ for {name} does not type-check: {line[:300]}",
                              {"wit": open(p).read() if os.path.isfile(p) else p, "stderr": err[-2500:]})
    shutil.rmtree(os.path.join(wd, "out"), ignore_errors=True)
    write_ndjson(os.path.join(wd, "violations.ndjson"), [{"key": k, "desc": d, "wit": r.get("wit", "")[:1500]} for k, d, r in out.violations])
    rc, unlisted = out.finish()
    gen_fail = sum(1 for u in units if u["gen"] != "ok")
    write_evidence(PID, tier, "exploration", {
        "evaluations": ncompiled,
        "distinct_nontrivial": len({(w["ctor"], w["wrap"]) for w in worlds}),
        "rule": "worlds of WorldGrammar.tla + adversarial-name worlds (C++ keywords, case/separator collisions) + the tests/codegen "
                "corpus, minus the C++ backend's declared exclusions; every generated .cpp is type-checked with g++ -std=c++20 "
                "-fsyntax-only against crates/cpp/test_headers and helper-types; non-trivial = distinct (constructor, position) cells",
        "samples": [{"wit": open(units[3]["wit"]).read()}],
        "units": len(units), "generation_failed_not_judged_here": gen_fail,
        "errors_attributed_to_use_before_declaration": n_followon,
        "excluded_features": sorted(x for x in excl if "|" not in x and "&" not in x),
        "compiler_flags_note": "-fpermissive: pointer<->int32 casts are valid on wasm32 but narrowing on the 64-bit host; "
                               "-D_GLIBCXX_USE_DEPRECATED=0: libstdc++'s legacy std::unexpected() clashes with test_headers/expected (libc++ has none)",
    }, ["g++ 12 as the C++20 front end (the repository's own runner uses clang++ for wasm32, unavailable here)",
        "worlds on which the generator itself fails or panics are C16's business"], time.time() - t0, unlisted)
    return rc


def selftest():
    wd = workdir(PID + "_self")
    open(os.path.join(wd, "bad.cpp"), "w").write("#include <wit.h>\nint f() { return undeclared_thing; }\n")
    r = run_commands([("x", ["g++", "-std=c++20", "-fsyntax-only", "-I", TEST_HEADERS, os.path.join(wd, "bad.cpp")])], wd)
    if r["x"]["rc"] == 0:
        log("selftest C31: ill-formed C++ accepted")
        return 2
    # the use-before-declaration classifier attributes the follow-ons of F-C31-1 and nothing else: in a unit that has the
    # finding, an unrelated ill-formed statement added to the .cpp (and one added to the stub header) keep their own keys
    cli = cli_exe()
    d = os.path.join(wd, "ubd")
    shutil.rmtree(d, ignore_errors=True)
    os.makedirs(d)
    open(os.path.join(d, "w.wit"), "w").write(
        "package t:w;\ninterface i {\n  resource r0 { constructor(); m: func(x: list<t0>); n: func(x: u32); }\n"
        "  record t0 { f0: u32, f1: string }\n}\nworld w { export i; }\n")
    o = os.path.join(d, "out")
    if run_cli(cli, "cpp", os.path.join(d, "w.wit"), o, cli_args("cpp"))["status"] != "ok":
        log("selftest C31: generation failed")
        return 2
    stub = glob.glob(os.path.join(o, "exports-*.h"))[0]
    open(stub, "a").write("\nstatic int verif_bad_in_stub = verif_undeclared_in_stub;\n")
    open(os.path.join(o, "w.cpp"), "a").write("\nint verif_bad_in_cpp() { return verif_undeclared_in_cpp; }\n")
    r = run_commands([("y", ["g++", "-std=c++20", "-fsyntax-only", "-w", "-fpermissive", "-fmax-errors=8", "-fno-diagnostics-color",
                             "-D_GLIBCXX_USE_DEPRECATED=0", "-I", o, "-I", TEST_HEADERS, "-I", HELPER, os.path.join(o, "w.cpp")])], wd, stderr_chars=200000)
    errs = gxx_errors(r["y"].get("stderr_head", "") + r["y"]["stderr"])
    kinds = classify_unit(HeaderLayout(o), errs)
    attributed = [e[6] for e, k in zip(errs, kinds) if k]
    own_key = [e[6] for e, k in zip(errs, kinds) if not k]
    if not any("T0" in m for m in attributed) or not any("to \u2018int\u2019" in m for m in attributed):
        log(f"selftest C31: the stub line and the call that follows from it were not attributed: {attributed}")
        return 2
    if not any("verif_undeclared_in_cpp" in m for m in own_key) or not any("verif_undeclared_in_stub" in m for m in own_key) \
            or any("verif_" in m for m in attributed):
        log(f"selftest C31: an unrelated error was attributed to the listed finding: {attributed} / {own_key}")
        return 2
    log("selftest C31 ok")
    return 0
