"""C31  Generated C++ bindings are well-formed C++."""
import glob
import os
import shutil
import time

from .core import *
from .genprobe import *

PID = "C31"
TEST_HEADERS = os.path.join(REPO, "crates", "cpp", "test_headers")
HELPER = os.path.join(REPO, "crates", "cpp", "helper-types")


def gxx_errors(err):
    """[(file class, message, site, raw line)] of a g++ diagnostic text"""
    lines = err.splitlines()
    out = []
    for i, l in enumerate(lines):
        m = re.match(r"^\s*(?:/verif/work/C31/out/\d+/)?([^:\s]+):(\d+):(\d+): (?:fatal )?error: (.*)$", l)
        if not m:
            continue
        f = m.group(1)
        where = "exports-stub-header" if re.match(r"exports-[^:]*\.h$", f) else re.sub(r"[0-9]+", "N", os.path.basename(f))
        site = ""
        for k in lines[i + 1:i + 4]:
            mm = re.match(r"^\s*\d+ \| (.*)$", k)
            if mm:
                site = re.sub(r"\d+", "N", re.sub(r"\s+", " ", mm.group(1)).strip())[:70]
                break
        msg = m.group(4).split("In file included from")[0].strip()      # head and tail of a long text glued together
        out.append((where, re.sub(r"[0-9]+", "N", msg), site, l.strip()))
    return list(dict.fromkeys(out))


def run(tier):
    t0 = time.time()
    wd = workdir(PID)
    out = Outcome(PID)
    cli = cli_exe()
    g, worlds = grammar_worlds(wd, full=False, k=0 if tier == "quick" else 5)
    if tier == "quick":
        worlds = worlds[::3]
    from .c09_names import adversarial_worlds
    wdir = os.path.join(wd, "worlds")
    paths = write_worlds(worlds, wdir)
    adv = adversarial_worlds("cpp")
    for n, (name, wit) in enumerate(adv):
        d = os.path.join(wdir, f"adv-{name}")
        os.makedirs(d, exist_ok=True)
        open(os.path.join(d, "w.wit"), "w").write(wit)
        paths.append(os.path.join(d, "w.wit"))
    inputs = paths + corpus_files()
    feats = wit_features(inputs)
    excl, excl_info = excluded_features("cpp")
    units = []
    for i, p in enumerate(inputs):
        f = feats[p]
        if "error" in f or not supported("cpp", f["features"], "", excl, p, f):
            continue
        units.append({"i": i, "wit": p, "out": os.path.join(wd, "out", str(i))})
    gen = run_matrix(cli, [{"lang": "cpp", "wit": u["wit"], "out": u["out"], "args": cli_args("cpp")} for u in units], workers=16, wd=wd)
    cmds = []
    for u, j in zip(units, gen):
        u["gen"] = j["res"]["status"]
        if u["gen"] != "ok":
            continue
        for cpp in sorted(glob.glob(os.path.join(u["out"], "*.cpp"))):
            cmds.append((f"{u['i']}:{os.path.basename(cpp)}",
                         ["g++", "-std=c++20", "-fsyntax-only", "-w", "-fpermissive", "-fmax-errors=4", "-fno-diagnostics-color", "-D_GLIBCXX_USE_DEPRECATED=0", "-I", u["out"], "-I", TEST_HEADERS, "-I", HELPER, cpp]))
    res = run_commands(cmds, wd, workers=16, timeout_ms=120000)
    ncompiled = 0
    for cid, r in sorted(res.items()):
        ncompiled += 1
        if r["rc"] != 0:
            i = int(cid.split(":")[0])
            p = inputs[i]
            name = os.path.basename(p) if "codegen" in p else "gen:" + os.path.basename(os.path.dirname(p))
            scope = name[4:] if name.startswith("gen:adv-") else ("gen" if name.startswith("gen:") else name)
            err = r.get("stderr_head", "") + r["stderr"]
            # every error g++ reports for the file (at most 4: -fmax-errors) is a violation of its own, identified by the world
            # (adversarial worlds and corpus files by name), the file and the message (which names the offending token / type)
            for where, msg, site, line in gxx_errors(err) or [("?", err[-200:], "", err[-200:])]:
                out.violation(f"g++:{scope}:{where}:{msg[:100]}", f"generated C++ for {name} does not type-check: {line[:300]}",
                              {"wit": open(p).read() if os.path.isfile(p) else p, "stderr": err[-2500:]})
    shutil.rmtree(os.path.join(wd, "out"), ignore_errors=True)
    write_ndjson(os.path.join(wd, "violations.ndjson"), [{"key": k, "desc": d, "wit": r.get("wit", "")[:1500]} for k, d, r in out.violations])
    rc, unlisted = out.finish()
    gen_fail = sum(1 for u in units if u["gen"] != "ok")
    write_evidence(PID, tier, "exploration", {
        "evaluations": ncompiled,
        "distinct_nontrivial": len({(w["ctor"], w["wrap"]) for w in worlds}),
        "rule": "worlds of WorldGrammar.tla + adversarial-name worlds (C++ keywords, case/separator collisions) + the tests/codegen "
                "corpus, minus the C++ backend's declared exclusions; every generated .cpp is type-checked with g++ -std=c++20 "
                "-fsyntax-only against crates/cpp/test_headers and helper-types; non-trivial = distinct (constructor, position) cells",
        "samples": [{"wit": open(units[3]["wit"]).read()}],
        "units": len(units), "generation_failed_not_judged_here": gen_fail,
        "excluded_features": sorted(x for x in excl if "|" not in x and "&" not in x),
        "compiler_flags_note": "-fpermissive: pointer<->int32 casts are valid on wasm32 but narrowing on the 64-bit host; "
                               "-D_GLIBCXX_USE_DEPRECATED=0: libstdc++'s legacy std::unexpected() clashes with test_headers/expected (libc++ has none)",
    }, ["g++ 12 as the C++20 front end (the repository's own runner uses clang++ for wasm32, unavailable here)",
        "worlds on which the generator itself fails or panics are C16's business"], time.time() - t0, unlisted)
    return rc


def selftest():
    wd = workdir(PID + "_self")
    open(os.path.join(wd, "bad.cpp"), "w").write("#include <wit.h>\nint f() { return undeclared_thing; }\n")
    r = run_commands([("x", ["g++", "-std=c++20", "-fsyntax-only", "-I", TEST_HEADERS, os.path.join(wd, "bad.cpp")])], wd)
    if r["x"]["rc"] == 0:
        log("selftest C31: ill-formed C++ accepted")
        return 2
    log("selftest C31 ok")
    return 0
