"""python3 -m vlib.audit_table [--write] : the table of DESIGN.md 12.4 from mutants/audit-last.txt"""
import json
import os
import re
import sys

VERIF = os.path.dirname(os.path.dirname(os.path.abspath(__file__)))


def what(name):
    base = name.split("@")[0]
    sd = os.path.join(VERIF, "seeded", base, "meta.json")
    if os.path.exists(sd):
        return "seeded", json.load(open(sd))["summary"].replace("|", "/").replace("\n", " ")[:150]
    p = os.path.join(VERIF, "mutants", base + ".patch")
    files = sorted(set(re.findall(r"^\+\+\+ b/(\S+)", open(p).read(), re.M))) if os.path.exists(p) else []
    return "hand", base.split("-", 1)[1].replace("-", " ") + " (" + ", ".join(files) + ")"


def table():
    rows = []
    for ln in open(os.path.join(VERIF, "mutants", "audit-last.txt")):
        if "\t" not in ln:
            continue
        name, v = ln.rstrip("\n").split("\t", 1)
        verdict = v.split(" ", 1)[0]
        by = name.split("@")[1] if "@" in name else name.split("-")[0]
        key = ""
        m = re.search(r"\| ([^:]+:[^:]*)", v)
        if m:
            key = m.group(1).strip()[:60]
        kind, desc = what(name)
        rows.append((name.split("-")[0], kind, name.split("@")[0], by, verdict, key, desc))
    rows.sort()
    out = ["| property | origin | change | judged by | verdict | first report |", "|---|---|---|---|---|---|"]
    for pid, kind, name, by, verdict, key, desc in rows:
        out.append(f"| {pid} | {kind} | {desc} | {by} | {verdict} | `{key}` |")
    n = len(rows)
    det = sum(1 for r in rows if r[4] == "DETECTED")
    return "\n".join(out) + f"\n\n{det} of {n} recorded verdicts are DETECTED.\n"


def main():
    t = table()
    if "--write" in sys.argv:
        p = os.path.join(VERIF, "DESIGN.md")
        s = open(p).read()
        a, b = "<!-- audit-table:begin -->\n", "<!-- audit-table:end -->"
        s = s[:s.index(a) + len(a)] + t + s[s.index(b):]
        open(p, "w").write(s)
    else:
        print(t, end="")


if __name__ == "__main__":
    main()
