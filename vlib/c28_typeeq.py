"""C28  Type analysis identifies exactly the structurally equal types.

specs/gen/TypeEq.tla defines structural equality (DefEq), the content facts (Has) and usage facts of
named type definitions, and the union over equivalence classes; MC_TypeEq.tla enumerates model
worlds (every sequence of N definitions from near-equal templates, with rotating use sites), checks
that DefEq is an equivalence and Facts is constant on classes, and prints the expected partition and
facts.  Each world is rendered to WIT, the real wit_bindgen_core::Types runs on it
(analyze + collect_equal_types) and its partition / TypeInfo must equal the spec's."""
import os
import time

from .core import *
from .small import *

PID = "C28"


def ty(t):
    k = t["k"]
    if k == "prim":
        return t["p"]
    if k == "ref":
        return f"t{t['i']}"
    if k == "list":
        return f"list<{ty(t['t'])}>"
    if k == "option":
        return f"option<{ty(t['t'])}>"
    if k == "tuple":
        return "tuple<" + ", ".join(ty(x) for x in t["ts"]) + ">"
    if k == "result":
        return f"result<{ty(t['ok'])}, {ty(t['err'])}>"
    if k == "own":
        return f"own<t{t['i']}>"
    if k == "borrow":
        return f"borrow<t{t['i']}>"
    raise ToolError(f"cannot print type {t}")


def definition(i, d):
    k = d["k"]
    n = f"t{i}"
    if k == "record":
        return f"record {n} {{ " + ", ".join(f"{f['n']}: {ty(f['t'])}" for f in d["fs"]) + " }"
    if k == "variant":
        return f"variant {n} {{ " + ", ".join(c["n"] if c["t"]["k"] == "none" else f"{c['n']}({ty(c['t'])})" for c in d["cs"]) + " }"
    if k == "enum":
        return f"enum {n} {{ " + ", ".join(d["ns"]) + " }"
    if k == "flags":
        return f"flags {n} {{ " + ", ".join(d["ns"]) + " }"
    if k == "resource":
        return f"resource {n};"
    return f"type {n} = {ty(d)};"


def world_wit(v):
    defs = v["defs"]
    names = ", ".join(f"t{i + 1}" for i in range(len(defs)))
    wit = "package t:e;\n\ninterface types {\n" + "".join(f"  {definition(i + 1, d)}\n" for i, d in enumerate(defs)) + "}\n\n"
    imp, exp = [], []
    for u in sorted(v["uses"], key=lambda u: u["d"]):
        side, kind = u["site"].split("-")
        t = f"t{u['d']}"
        sig = {"param": f"func(x: {t})", "result": f"func() -> {t}", "error": f"func() -> result<_, {t}>"}[kind]
        (imp if side == "import" else exp).append(f"  f{u['d']}: {sig};\n")
    wit += f"interface imp {{\n  use types.{{{names}}};\n" + "".join(imp) + "}\n\n"
    wit += f"interface exp {{\n  use types.{{{names}}};\n" + "".join(exp) + "}\n\n"
    wit += "world w {\n  import imp;\n  export exp;\n}\n"
    return wit


def run(tier):
    t0 = time.time()
    wd = workdir(PID)
    out = Outcome(PID)
    exe = small_exe()
    cfg = "gen/MC_TypeEq" if tier == "quick" else with_constants("gen/MC_TypeEq", wd, "deep", {"Salts = {0, 3}": "Salts = {0, 1, 2, 3, 4, 5}"})
    g = tlc("gen/MC_TypeEq", cfg, workers=12, wd=wd, xmx="8g", timeout=3000)
    if g.violated:
        raise ToolError(f"TypeEq.tla is not an equivalence / facts are not class-constant on some world: {g.violated}")
    witnesses("gen/MC_TypeEq", "gen/MC_TypeEq", ["W_ClassOfThree", "W_TwoResources"], wd, strip=("INVARIANT",))
    paths = []
    for k, v in enumerate(g.vecs):
        d = os.path.join(wd, "worlds", str(k))
        os.makedirs(d, exist_ok=True)
        p = os.path.join(d, "w.wit")
        open(p, "w").write(world_wit(v))
        paths.append(p)
    lp = os.path.join(wd, "list.txt")
    open(lp, "w").write("\n".join(paths) + "\n")
    op = os.path.join(wd, "obs.ndjson")
    sh([exe, "typeeq", lp, op], check=True, timeout=3000)
    rows = read_ndjson(op)
    if len(rows) != len(g.vecs):
        raise ToolError("typeeq did not answer for every world")
    nontrivial = 0
    for v, r in zip(g.vecs, rows):
        n = len(v["defs"])
        ctx = {"wit": open(r["path"]).read(), "spec": {"classes": v["classes"], "facts": v["facts"], "uses": v["uses"]}}
        if "error" in r or "panic" in r:
            if "panic" in r:
                out.violation("panic", "Types::analyze / collect_equal_types panics on a model world", ctx)
                continue
            raise ToolError(f"the rendered model world is not valid WIT: {r['error']}\n{ctx['wit']}")
        by = {(t["owner"], t["name"]): t for t in r["types"]}
        ctx["observed"] = r["types"]
        reps = [by[("types", f"t{i + 1}")]["rep"] for i in range(n)]
        got_classes = [sorted(j + 1 for j in range(n) if reps[j] == reps[i]) for i in range(n)]
        want_classes = [sorted(c) for c in v["classes"]]
        if any(len(c) > 1 for c in want_classes):
            nontrivial += 1
        shape = "+".join(d["k"] for d in v["defs"])
        if got_classes != want_classes:
            merged = any(set(g_) - set(w_) for g_, w_ in zip(got_classes, want_classes))
            out.violation(f"partition:{'merged-unequal' if merged else 'missed-equal'}:{shape}",
                          f"collect_equal_types groups the definitions as {got_classes}, structural equality gives {want_classes}", ctx)
        for i in range(n):
            got = by[("types", f"t{i + 1}")]["facts"]
            want = v["facts"][i]
            diff = sorted(f for f in want if bool(want[f]) != bool(got[f]))
            if diff:
                out.violation(f"facts:{','.join(diff)}:{v['defs'][i]['k']}", f"TypeInfo of t{i + 1} differs from the spec in {diff}: got {got}, want {want}", ctx)
        # `use` aliases of the other interfaces are the same type as the original
        for owner in ("imp", "exp"):
            for i in range(n):
                a = by.get((owner, f"t{i + 1}"))
                if a is not None and a["rep"] != reps[i]:
                    out.violation(f"alias-not-merged:{v['defs'][i]['k']}", f"`use types.{{t{i + 1}}}` in {owner} is not in the class of types.t{i + 1}", ctx)
    write_ndjson(os.path.join(wd, "violations.ndjson"), [{"key": k, "desc": d} for k, d, _ in out.violations])
    rc, unlisted = out.finish()
    write_evidence(PID, tier, "model_checking", {
        "states": g.distinct, "transitions": g.generated, "traces_validated_against_impl": len(rows),
        "samples": [{"defs": g.vecs[len(g.vecs) // 3]["defs"], "classes": g.vecs[len(g.vecs) // 3]["classes"]}],
        "worlds": len(g.vecs), "worlds_with_a_nontrivial_class": nontrivial,
        "spec": "specs/gen/TypeEq.tla (DefEq, Has, Facts), MC_TypeEq.tla (N=3 definitions from 10 closed + 6 open templates per earlier definition, "
                "use sites rotating with salt; invariant Sane: equivalence + class-constant facts; witnesses W_ClassOfThree, W_TwoResources)",
    }, ["the `error` fact is modelled as the code documents its use: the definition named in the error position (aliases chased), not its components",
        "content facts do not look through future/stream payloads (not in the model's type language)"], time.time() - t0, unlisted)
    return rc


def selftest():
    v = {"defs": [{"k": "enum", "ns": ["p", "q"]}, {"k": "enum", "ns": ["q", "p"]}], "uses": [{"d": 1, "site": "import-param"}]}
    w = world_wit(v)
    if "enum t1 { p, q }" not in w or "f1: func(x: t1);" not in w:
        log("selftest C28: renderer broken")
        return 2
    log("selftest C28 ok")
    return 0
