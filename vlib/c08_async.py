"""C08  Rust async imports and exports deliver the same values as sync ones.

specs/rt/AsyncCall.tla is the protocol between one guest task and the host (async-lower subtasks,
waitable sets, callback codes, task.return / task.cancel) as ONE transition function `Apply`;
MC_AsyncCall model-checks it against every guest that respects the guards and every host schedule and
emits the schedules (per import call: returns at once / started at the call / starting, then started /
starting, then returned; cancellation at the n-th wait).  The vectors are those of C05
(MC_RustExec: signatures x values with the canonical encoding; CallEncoding gained the async-lower
and task.return rules).  For every signature the REAL Rust generator is run with --async filters
(both / export only / imports only), the bindings are compiled natively together with /repo's real
async runtime (hook cfg: native extern shims) and run against harness/vhost's async host under the
schedules; the host judges every lowered value against the spec *at the moment a real host reads it*
(parameters of a STARTING call only when the callee starts), the heap ledger judges what is freed,
and TLC (Trace_AsyncCall) folds the event log of every task through the same `Apply`."""
import glob
import os
import re
import shutil
import time

from .core import *
from .genprobe import run_commands, run_matrix
from . import rexec, rustprobe
from .rexec_run import sig_shape

PID = "C08"
HEAP = ("leak", "free-unknown", "free-wrong-layout", "freed-foreign")
VALUE = ("lowered-args", "lowered-result", "unexpected-import", "protocol", "deadlock", "panic")


def schedules(wd):
    g = tlc("rt/MC_AsyncCall", "rt/MC_AsyncCall", workers=4, wd=wd)
    if g.violated:
        raise ToolError(f"AsyncCall.tla violates its own invariants: {g.violated}")
    out = {}
    for v in g.vecs:
        key = (v["n"], v["aimp"], v["aexp"])
        out.setdefault(key, set()).add(("".join(v["modes"]), v["cancelAt"]))
    # every mode string must be able to run to its end (the model must not have lost schedules)
    for n in (2, 3):
        full = {s for s, c in out[(n, True, True)] if c == 0}
        if len(full) != 4 ** n:
            raise ToolError(f"MC_AsyncCall reaches the end of a task for {len(full)} of {4 ** n} schedules of {n} calls")
    return {k: sorted(v) for k, v in out.items()}, g


def pick_runs(unit_no, ncases, scheds, tier, cfgname):
    """[(case, modes, cancel_at)]: case 0 of every unit gets a rotating slice of the schedules (all of them over the units /
    in the thorough tier), the other cases a few each"""
    plain = [s for s in scheds if s[1] == 0]
    canc = [s for s in scheds if s[1] != 0]
    runs = []
    if cfgname == "export-only":
        return [(k, plain[0][0], 0) for k in range(ncases)]
    if tier == "quick":
        a = [plain[(unit_no * 7 + i * 5) % len(plain)] for i in range(10)]
        b = [canc[(unit_no * 11 + i * 3) % len(canc)] for i in range(6)] if canc else []
    elif unit_no % 4 == 0:
        a, b = plain, canc          # every schedule of the model
    else:
        a = [plain[(unit_no * 7 + i * 5) % len(plain)] for i in range(24)]
        b = [canc[(unit_no * 11 + i * 3) % len(canc)] for i in range(24)] if canc else []
    runs += [(0, m, c) for m, c in dict.fromkeys(a + b)]
    for k in range(1, ncases):
        for i in range(2 if tier == "quick" else 6):
            m, c = (plain + canc)[(unit_no * 13 + k * 17 + i * 29) % len(plain + canc)]
            runs.append((k, m, c))
    return runs


BORROW = os.path.join(HARNESS, "async-borrow")


def borrow_part(wd, cli, vhost_dir, envs, cmd, out, trace, owner):
    """the fixed world harness/async-borrow/w.wit: async exports with `borrow<r>` parameters of an imported resource; every
    lent handle must come back ([resource-drop]) before task.return / task.cancel.  Events go into the same log."""
    d = os.path.join(wd, "borrow")
    os.makedirs(d, exist_ok=True)
    shutil.copy(os.path.join(BORROW, "w.wit"), os.path.join(d, "w.wit"))
    funcs = ["peek", "both", "plain"]
    args = [a for f in funcs for a in ("--async", f"export:t:b/exp#{f}")]
    gen = run_matrix(cli, [{"lang": "rust", "wit": os.path.join(d, "w.wit"), "out": os.path.join(d, "gen"), "args": args}], workers=1, wd=wd)
    who = "borrow world (harness/async-borrow/w.wit)"
    if gen[0]["res"]["status"] != "ok":
        out.violation("generator:borrow-world", f"the Rust generator fails on {who}: {json.dumps(gen[0]['res'])[:300]}", gen[0]["res"])
        return 0
    nat, _ = rexec.nativise(open(os.path.join(d, "gen", "w.rs")).read())
    open(os.path.join(d, "w_native.rs"), "w").write(nat)
    shutil.copy(os.path.join(BORROW, "main.rs"), os.path.join(d, "main.rs"))
    runs = [{"f": f, "yields": y, "cancel_at": c} for f in funcs for y in (0, 1, 2) for c in range(0, y + 1)]
    json.dump({"cases": [{"imports": {}, "exports": {}}], "runs": runs}, open(os.path.join(d, "vector.json"), "w"))
    pre, argv = rustprobe.replay(envs, cmd, os.path.join(d, "main.rs"), os.path.join(d, "bin"), emit="link",
                                 extra=["--extern", f"vhost={os.path.join(vhost_dir, 'libvhost.rlib')}", "-L", f"dependency={os.path.join(vhost_dir, 'deps')}"])
    r = run_commands([("b", pre + argv)], wd, workers=1, timeout_ms=900000)["b"]
    if r["rc"] != 0:
        err = r.get("stderr_head", "") + r["stderr"]
        first = next((l for l in err.splitlines() if l.startswith("error")), err[-300:])
        out.violation("compile:borrow-world:" + re.sub(r"\d+", "N", first)[:100], f"the bindings of {who} + test do not compile natively: {first[:300]}", {"stderr": err[:3000]})
        return 0
    exe = [f for f in glob.glob(os.path.join(d, "bin", "*")) if os.access(f, os.X_OK) and os.path.isfile(f) and not f.endswith(".d")][0]
    op = os.path.join(d, "out.ndjson")
    rr = run_commands([("r", ["env", "VERIF_LOW_ARENA=1", f"VERIF_VECTOR={os.path.join(d, 'vector.json')}", f"VERIF_OUT={op}", exe])], wd, workers=1, timeout_ms=300000)["r"]
    rows = read_ndjson(op) if os.path.exists(op) else []
    task, done = None, False
    for row in rows:
        if "begin" in row:
            task = int(row["begin"].split(":")[1])
        elif "done" in row:
            done = True
        elif "ev" in row:
            rd = runs[task] if task is not None and task < len(runs) else None
            trace.append(row)
            owner.append((who, f"{rd['f']} with {rd['yields']} yield(s), cancellation at {rd['cancel_at']}" if rd else "?", f"borrow:{rd['f'] if rd else '?'}",
                          {"wit": open(os.path.join(BORROW, "w.wit")).read(), "run": rd}))
        elif "problem" in row:
            rd = runs[task] if task is not None and task < len(runs) else None
            det = re.sub(r"task:N: ", "", re.sub(r"\d+", "N", re.sub(r"0x[0-9a-f]+", "0xN", row["detail"])))
            cls = "heap" if row["problem"] in HEAP else "value"
            out.violation(f"{cls}:{row['problem']}:borrow:{rd['f'] if rd else '?'}:{det[:70]}", f"{who} {rd}: {row['detail'][:400]}", {"run": rd, "detail": row["detail"]})
    if not done and not any(x.get("problem") == "panic" for x in rows):
        out.violation("died:borrow-world", f"the test program of {who} died (rc={rr['rc']}, signal={rr.get('signal')}): {(rr.get('stderr_head', '') + rr['stderr'])[-300:]}", {"runs": runs})
    return len(runs)


def run(tier):
    t0 = time.time()
    wd = workdir(PID)
    out = Outcome(PID)
    cli = cli_exe()
    vhost_dir = cargo_build("vhost")
    sched, gs = schedules(wd)
    cfg = "abi/MC_RustExec"
    if tier != "quick":
        cfg = os.path.join(wd, "deep.cfg")
        open(cfg, "w").write(open(os.path.join(SPECS, "abi/MC_RustExec.cfg")).read().replace("Deep = FALSE", "Deep = TRUE"))
    g = tlc("abi/MC_RustExec", cfg, workers=12, wd=wd, xmx="12g", timeout=3400)
    units = {}
    for v in g.vecs:
        key = json.dumps([v["ps"], v["r"]], sort_keys=True)
        u = units.setdefault(key, {"ps": v["ps"], "r": v["r"], "cases": []})
        if len(u["cases"]) < (4 if tier == "quick" else 8):
            u["cases"].append({"args": v["args"], "res": v["res"], "enc": v["enc"], "encEcho": v["encEcho"]})
    units = list(units.values())
    if tier != "quick":
        units = units[::2]            # the deep universe: every other signature, all schedules
    jobs = []
    if os.environ.get("VERIF_C08_ONLY") == "borrow":      # development aid: only the fixed borrow world
        units = []
    if os.environ.get("VERIF_C08_ONLY") == "few":         # development aid: a handful of signatures
        units = units[::25]
    for n, u in enumerate(units):
        for cfgname in rexec.ASYNC_CONFIGS:
            if cfgname != "both" and n % 3 != (1 if cfgname == "export-only" else 2):
                continue
            d = os.path.join(wd, "units", f"{n}-{cfgname}")
            os.makedirs(d, exist_ok=True)
            wit, defs = rexec.unit_world(u["ps"], u["r"])
            open(os.path.join(d, "w.wit"), "w").write(wit)
            _, aimp, aexp = rexec.ASYNC_CONFIGS[cfgname]
            ncalls = (3 if u["r"]["k"] != "none" else 2) if aimp else 0
            runs = pick_runs(n, len(u["cases"]), sched.get((ncalls, aimp, aexp), [("", 0)]), tier, cfgname)
            jobs.append({"n": n, "u": dict(u, defs=defs), "cfg": cfgname, "d": d, "wit": wit, "runs": runs})
    gen = run_matrix(cli, [{"lang": "rust", "wit": os.path.join(j["d"], "w.wit"), "out": os.path.join(j["d"], "gen"),
                            "args": rexec.async_opts(j["cfg"], j["u"]["r"]["k"] != "none")} for j in jobs], workers=16, wd=wd)
    envs, cmd, _ = rustprobe.probe_rustc(wd, hook=True)
    for k, a in enumerate(cmd):
        if a == "--crate-type" and k + 1 < len(cmd):
            cmd[k + 1] = "bin"
    cmds = []

    def ident(j):
        return f"{sig_shape(j['u'])} [{j['cfg']}]"
    for j, r in zip(jobs, gen):
        if r["res"]["status"] != "ok":
            msg = re.sub(r"\d+", "N", r["res"].get("what") or r["res"].get("stderr", ""))[:100]
            out.violation(f"generator:{j['cfg']}:{msg}", f"the Rust generator fails on the world of {ident(j)}: {json.dumps(r['res'])[:300]}", {"wit": j["wit"], "res": r["res"]})
            continue
        src = open(os.path.join(j["d"], "gen", "w.rs")).read()
        try:
            nat, _ = rexec.nativise(src)
            open(os.path.join(j["d"], "w_native.rs"), "w").write(nat)
            open(os.path.join(j["d"], "main.rs"), "w").write(rexec.test_main_async(j["u"], src, j["cfg"], j["runs"]))
        except ToolError as e:
            raise ToolError(f"unit {ident(j)}: {e}")
        json.dump(rexec.unit_vector_async(j["u"]), open(os.path.join(j["d"], "vector.json"), "w"))
        pre, argv = rustprobe.replay(envs, cmd, os.path.join(j["d"], "main.rs"), os.path.join(j["d"], "bin"), emit="link",
                                     extra=["--extern", f"vhost={os.path.join(vhost_dir, 'libvhost.rlib')}", "-L", f"dependency={os.path.join(vhost_dir, 'deps')}"])
        cmds.append((str(len(cmds)), pre + argv))
        j["cmd_id"] = str(len(cmds) - 1)
    log(f"[C08] {len(jobs)} programs generated {time.time() - t0:.0f}s")
    res = run_commands(cmds, wd, workers=16, timeout_ms=900000)
    log(f"[C08] compiled {time.time() - t0:.0f}s")
    execs = []
    for j in jobs:
        if "cmd_id" not in j:
            continue
        r = res[j["cmd_id"]]
        if r["rc"] != 0:
            err = r.get("stderr_head", "") + r["stderr"]
            first = next((l for l in err.splitlines() if l.startswith("error")), err[-300:])
            out.violation(f"compile:{j['cfg']}:{re.sub(chr(92) + 'd+', 'N', first)[:100]}", f"the bindings of {ident(j)} + test do not compile natively: {first[:300]}",
                          {"wit": j["wit"], "stderr": err[:3000]})
            continue
        exes = [f for f in glob.glob(os.path.join(j["d"], "bin", "*")) if os.access(f, os.X_OK) and os.path.isfile(f) and not f.endswith(".d")]
        j["out"] = os.path.join(j["d"], "out.ndjson")
        execs.append((j["cmd_id"], ["env", "VERIF_LOW_ARENA=1", f"VERIF_VECTOR={os.path.join(j['d'], 'vector.json')}", f"VERIF_OUT={j['out']}", exes[0]]))
    rr = run_commands(execs, wd, workers=16, timeout_ms=300000)
    log(f"[C08] executed {time.time() - t0:.0f}s")
    stats = {"units": len(units), "programs": 0, "tasks": 0, "cancelled_tasks": 0, "import_calls": 0, "events": 0,
             "configs": {c: 0 for c in rexec.ASYNC_CONFIGS}}
    trace, owner = [], []
    for j in jobs:
        if "out" not in j:
            continue
        r = rr[j["cmd_id"]]
        rows = read_ndjson(j["out"]) if os.path.exists(j["out"]) else []
        stats["programs"] += 1
        stats["configs"][j["cfg"]] += 1
        task, done = None, False
        for row in rows:
            if "begin" in row:
                task = int(row["begin"].split(":")[1])
            elif "done" in row:
                done = True
            elif "ev" in row:
                if row["ev"] == "task.begin":
                    stats["tasks"] += 1
                    stats["cancelled_tasks"] += 1 if row["cancel_at"] else 0
                if row["ev"] == "import.call":
                    stats["import_calls"] += 1
                trace.append(row)
                run_ = j["runs"][task] if task is not None and task < len(j["runs"]) else None
                owner.append((ident(j), f"case {run_[0]} schedule {run_[1]}/{run_[2]}" if run_ else "?", f"{j['cfg']}:{sig_shape(j['u'])}",
                              {"signature": sig_shape(j["u"]), "config": j["cfg"], "wit": j["wit"], "run": run_}))
            elif "problem" in row:
                run_ = j["runs"][task] if task is not None and task < len(j["runs"]) else None
                kind = row["problem"]
                det = re.sub(r"\d+", "N", re.sub(r"0x[0-9a-f]+", "0xN", row["detail"]))
                det = re.sub(r"task:N: ", "", det)
                sched_ = f"{run_[1]}/{run_[2]}" if run_ else "?"
                cls = "heap" if kind in HEAP else "value"
                lift = j["u"]["cases"][0]["enc"]["lift"]
                m = re.search(r"handed over was never freed by the guest \(size (\d+), align (\d+)\)", row["detail"])
                if m and lift["indirect"] and j["cfg"] != "import-only" and (int(m.group(1)), int(m.group(2))) == (lift["paramsSize"], lift["paramsAlign"]):
                    # the leaked block is exactly the parameter record the host allocated for an export with > 16 flat parameters
                    det = "the parameter record of an export with indirect parameters"
                out.violation(f"{cls}:{kind}:{j['cfg']}:{sig_shape(j['u'])}:{det[:70]}",
                              f"{ident(j)} case {run_[0] if run_ else '?'} schedule {sched_}: {row['detail'][:400]}",
                              {"signature": sig_shape(j["u"]), "config": j["cfg"], "wit": j["wit"], "run": run_, "detail": row["detail"],
                               "args": j["u"]["cases"][run_[0]]["args"] if run_ else None, "res": j["u"]["cases"][run_[0]]["res"] if run_ else None})
        if not done and not any(x.get("problem") == "panic" for x in rows):
            out.violation(f"died:{j['cfg']}:{sig_shape(j['u'])}", f"the test program of {ident(j)} died (rc={r['rc']}, signal={r.get('signal')}): "
                          f"{(r.get('stderr_head', '') + r['stderr'])[-300:]}", {"wit": j["wit"], "runs": j["runs"]})
    stats["borrow_world_tasks"] = borrow_part(wd, cli, vhost_dir, envs, cmd, out, trace, owner)
    stats["events"] = len(trace)
    # the log is validated in pieces of at most ~1.5M events, cut between tasks (TLC holds the whole piece in memory)
    cuts, last = [0], 0
    for i, row in enumerate(trace):
        if row["ev"] == "task.begin" and i - last >= 1500000:
            cuts.append(i)
            last = i
    cuts.append(len(trace))
    breaches, tstates, tgen = [], 0, 0
    for a_, b_ in zip(cuts, cuts[1:]):
        if a_ == b_:
            continue
        tp = os.path.join(wd, f"trace_{a_}.ndjson")
        write_ndjson(tp, trace[a_:b_])
        t = tlc("rt/Trace_AsyncCall", "rt/Trace_AsyncCall", workers=1, wd=wd, env={"TRACE": tp}, dfs=True, xmx="12g", timeout=3400)
        if t.tagged.get("REJECTED"):
            raise ToolError(f"Trace_AsyncCall did not consume the whole log: {t.tagged['REJECTED'][:1]}")
        tstates += t.distinct
        tgen += t.generated
        breaches += [dict(b, at=b["at"] + a_) for b in t.tagged.get("BREACH", [])]
        os.remove(tp)
    for b in breaches:
        who, run_desc, keypart, ctx = owner[b["at"] - 1]
        what = b["what"]
        if "(harness" in what:
            raise ToolError(f"the async host and AsyncCall.tla disagree ({what}) in {who} {run_desc}: event {b['event']}")
        cfgname, _, shape_ = keypart.partition(":")
        out.violation(f"breach:{cfgname}:{what[:90]}:{shape_}", f"{who} {run_desc}: {what} -- at event {json.dumps(b['event'])[:200]}", dict(ctx, breach=b))
    shutil.rmtree(os.path.join(wd, "units"), ignore_errors=True)
    write_ndjson(os.path.join(wd, "violations.ndjson"), [{"key": k, "desc": d} for k, d, _ in out.violations])
    rc, unlisted = out.finish()
    if os.environ.get("VERIF_C08_ONLY"):
        return rc                      # a partial development run writes no evidence
    write_evidence(PID, tier, "model_checking", {
        "states": gs.distinct + g.distinct + tstates, "transitions": gs.generated + g.generated + tgen,
        "traces_validated_against_impl": stats["tasks"], "samples": trace[:40], **stats,
        "schedules_of_the_model": {f"{k[0]} calls, imports {'async' if k[1] else 'sync'}, export {'async' if k[2] else 'sync'}": len(v) for k, v in sched.items()},
        "spec": "specs/rt/AsyncCall.tla (Apply, invariants), MC_AsyncCall.tla (all guests x all schedules; GEN of schedules), Trace_AsyncCall.tla; values: "
                "specs/abi/MC_RustExec.tla over CallConv.CallEncoding (asyncIndirect: 4 flat parameters; task.return: the result as parameters, limit 16)",
    }, ["the bindings and /repo's async runtime run natively (x86-64, pointer width 8) with the verification cfg's extern shims; every canonical built-in is "
        "provided by harness/vhost/src/ahost.rs, whose choices follow the schedule",
        "one task at a time, its import calls one after the other (the generated glue is per call; concurrency between calls is the runtime's business, C18-C23)",
        "cancellation is delivered at a wait; a subtask cancelled after it started answers RETURN_CANCELLED (the callee gives up)",
        "streams, futures, resources and error-contexts as values of async functions are not in this universe"], time.time() - t0, unlisted)
    return rc


def selftest():
    """the binding must be able to fail: a log in which the task returns twice, one in which a STARTING subtask is dropped"""
    wd = workdir(PID + "_self")
    base = [{"ev": "task.begin", "schedule": "RR", "cancel_at": 0, "n": 2, "aimp": True, "aexp": True},
            {"ev": "import.call", "idx": 0, "key": "k", "mode": "R", "h": 0, "status": 2, "checked": True, "errors": 0},
            {"ev": "import.call", "idx": 1, "key": "k", "mode": "R", "h": 0, "status": 2, "checked": True, "errors": 0},
            {"ev": "task.return", "errors": 0}]
    end = [{"ev": "answer", "code": "exit", "set": 0}, {"ev": "task.end", "returned": 1, "cancelled": 0, "undropped": 0, "live_sets": 0, "cancel_sent": False}]
    ok = True
    for name, rows, want in (("good", base + end, False), ("twice", base + [{"ev": "task.return", "errors": 0}] + end, True),
                             ("lowered-wrong", [base[0], dict(base[1], errors=2)] + base[2:] + end, True), ("none", base[:3] + end, True)):
        tp = os.path.join(wd, f"{name}.ndjson")
        write_ndjson(tp, rows)
        t = tlc("rt/Trace_AsyncCall", "rt/Trace_AsyncCall", workers=1, wd=wd, env={"TRACE": tp}, dfs=True)
        if bool(t.tagged.get("BREACH")) != want:
            log(f"selftest C08: log `{name}`: breach={t.tagged.get('BREACH')} expected {want}")
            ok = False
    log("selftest C08 ok" if ok else "selftest C08 FAILED")
    return 0 if ok else 2
