"""C32  The generate! macro tracks every WIT file it reads.

specs/gen/MacroDeps.tla enumerates crate layouts (root package files, directory and single-file
dependencies, a nested deps folder, a non-WIT file, a second directory) x macro invocation forms and
defines which files WIT resolution reads.  For every layout the real macro is expanded by the real
compiler (the rustc command line cargo uses for a probe crate that depends on /repo's wit-bindgen,
replayed per layout with CARGO_MANIFEST_DIR pointing at it) under strace; the observation
    opened  = the .wit files the compiler process opened,   tracked = the crate's dep-info
is judged by TLC (Obs_MacroDeps): everything opened and everything the model says is read must be
in the dep-info, which is what makes cargo rebuild when such a file is edited."""
import os
import re
import shlex
import shutil
import subprocess
import time

from .core import *
from .genprobe import run_commands
from . import rustprobe

PID = "C32"

WIT = {
    "wit/a.wit": "package a:root;\n\ninterface i {\n  f: func(x: u32) -> string;\n}\n\nworld w {\n  import i;\n}\n",
    "wit/b.wit": "package a:root;\n\ninterface ib {\n  g: func();\n}\n",
    "wit/deps/d1/x.wit": "package dep:d1;\n\ninterface i1 {\n  h: func();\n}\n",
    "wit/deps/d1/y.wit": "package dep:d1;\n\ninterface i1b {\n  type t = u32;\n}\n",
    "wit/deps/d2.wit": "package dep:d2;\n\ninterface i2 {\n  k: func();\n}\n",
    "wit/deps/d1/deps/n.wit": "package nested:n;\n\ninterface n {}\n",
    "wit/notes.md": "not a wit file\n",
    "wit2/c.wit": "package other:c;\n\ninterface ic {\n  m: func();\n}\n",
}
INLINE = 'package my:inline;\\n\\nworld iw {\\n  export run: func();\\n}\\n'
LIB = {
    "default": "wit_bindgen::generate!();\n",
    "path-dir": 'wit_bindgen::generate!({ path: "wit" });\n',
    "path-file": 'wit_bindgen::generate!({ path: "wit/a.wit" });\n',
    "paths-list": 'wit_bindgen::generate!({ path: ["wit", "wit2"], world: "a:root/w" });\n',
    "world-in-path": 'wit_bindgen::generate!("w" in "wit");\n',
    "inline": f'wit_bindgen::generate!({{ inline: "{INLINE}" }});\n',
    "inline-path": f'wit_bindgen::generate!({{ inline: "{INLINE}", path: "wit2" }});\n',
    "inline-no-default": f'wit_bindgen::generate!({{ inline: "{INLINE}" }});\n',
}


def write_layout(d, files, form):
    present = set(files) | {"wit/a.wit"}
    if form == "inline-no-default":
        present = {f for f in present if not f.startswith("wit/")}
    if form == "inline-path":
        pass
    for f in sorted(present):
        p = os.path.join(d, f)
        os.makedirs(os.path.dirname(p), exist_ok=True)
        open(p, "w").write(WIT[f])
    os.makedirs(os.path.join(d, "src"), exist_ok=True)
    open(os.path.join(d, "src", "lib.rs"), "w").write("#![allow(dead_code, unused)]\n" + LIB[form])
    return sorted(present)


def layout_command(envs, cmd, d):
    """replays the rustc invocation for layout directory d, under strace"""
    pre, argv = rustprobe.replay(envs, cmd, os.path.join(d, "src", "lib.rs"), os.path.join(d, "out"), manifest_dir=d)
    return pre + ["strace", "-f", "-qq", "-e", "trace=openat,open", "-o", os.path.join(d, "strace.log")] + argv


def parse_strace(log, d):
    opened = set()
    for ln in open(log, errors="replace"):
        m = re.search(r'open(?:at)?\((?:AT_FDCWD, )?"([^"]+)"[^)]*\)\s*=\s*(-?\d+)', ln)
        if m and int(m.group(2)) >= 0 and m.group(1).endswith(".wit"):
            p = os.path.realpath(m.group(1) if os.path.isabs(m.group(1)) else os.path.join(d, m.group(1)))
            if p.startswith(d + "/"):
                opened.add(os.path.relpath(p, d))
    return sorted(opened)


def parse_depinfo(out_dir, d):
    tracked = set()
    for f in os.listdir(out_dir):
        if f.endswith(".d"):
            for ln in open(os.path.join(out_dir, f)):
                if ":" not in ln or ln.startswith("#"):
                    continue
                head, _, deps = ln.partition(":")
                for p in re.split(r"(?<!\\) ", deps.strip()):
                    p = p.replace("\\ ", " ")
                    if p:
                        rp = os.path.realpath(p)
                        if rp.startswith(d + "/"):
                            tracked.add(os.path.relpath(rp, d))
    return sorted(tracked)


def run(tier):
    t0 = time.time()
    wd = workdir(PID)
    out = Outcome(PID)
    g = tlc("gen/MC_MacroDeps", "gen/MC_MacroDeps", workers=2, wd=wd)
    if g.violated:
        raise ToolError(f"MacroDeps.tla is not sane: {g.violated}")
    envs, cmd, probe = rustprobe.probe_rustc(wd)
    cmds, units = [], []
    for k, v in enumerate(g.vecs):
        d = os.path.join(wd, "layouts", str(k))
        os.makedirs(d, exist_ok=True)
        present = write_layout(d, v["files"], v["form"])
        units.append({"k": k, "v": v, "d": d, "present": present})
        cmds.append((str(k), layout_command(envs, cmd, d)))
    res = run_commands(cmds, wd, workers=14, timeout_ms=300000)
    obs, by_id, not_compiled = [], {}, 0
    for u in units:
        r = res[str(u["k"])]
        oid = f"{u['v']['form']}:{'+'.join(sorted(u['v']['files'])) or '-'}"
        if r["rc"] != 0:
            not_compiled += 1
            out.violation(f"macro-expansion-fails:{u['v']['form']}", f"generate! fails to compile for layout {oid}: {(r.get('stderr_head', '') + r['stderr'])[-600:]}",
                          {"layout": u["v"], "stderr": r["stderr"][-1500:]})
            continue
        o = {"id": oid, "form": u["v"]["form"], "files": u["present"], "opened": parse_strace(os.path.join(u["d"], "strace.log"), u["d"]),
             "tracked": parse_depinfo(os.path.join(u["d"], "out"), u["d"])}
        obs.append(o)
        by_id[oid] = o
    op = os.path.join(wd, "obs.ndjson")
    write_ndjson(op, obs)
    t = tlc("gen/Obs_MacroDeps", "gen/Obs_MacroDeps", workers=1, wd=wd, env={"OBS": op}, xmx="4g", extra=["-continue"])
    for m in t.tagged.get("MISMATCH", []):
        o = by_id[m["id"]]
        out.violation(f"untracked:{o['form']}:" + ",".join(sorted(m["missing"])), f"generate! ({o['form']}) reads {sorted(m['missing'])} without recording a build dependency on them", o)
    notes = t.tagged.get("NOTE", [])
    if notes:
        raise ToolError(f"MacroDeps.tla's model of WIT resolution disagrees with the run (files it says are read were not opened): {notes[:3]}")
    shutil.rmtree(os.path.join(wd, "layouts"), ignore_errors=True)
    rc, unlisted = out.finish()
    write_evidence(PID, tier, "model_checking", {
        "states": g.distinct + t.distinct, "transitions": g.generated + t.generated, "traces_validated_against_impl": len(obs),
        "samples": obs[:2] if obs else [{}],
        "layouts": len(g.vecs), "not_compiled": not_compiled, "files_opened": sum(len(o["opened"]) for o in obs), "files_tracked": sum(len(o["tracked"]) for o in obs),
        "forms": sorted({o["form"] for o in obs}),
        "spec": "specs/gen/MacroDeps.tla (layouts, forms, Read = files WIT resolution reads), MC_MacroDeps.tla (GEN + Sane), Obs_MacroDeps.tla "
                "(TracksAllRead, TracksExpected; ModelAgrees guards the model of WIT resolution)",
    }, ["`opened` comes from strace on the real rustc process expanding the real macro; `tracked` from the dep-info rustc writes (what cargo's "
        "freshness check reads)", "the rustc command line is taken from `cargo build -v` of a probe crate and replayed per layout in parallel"], time.time() - t0, unlisted)
    return rc


def selftest():
    wd = workdir(PID + "_self")
    o = {"id": "x", "form": "path-dir", "files": ["wit/a.wit", "wit/b.wit"], "opened": ["wit/a.wit", "wit/b.wit"], "tracked": ["wit/a.wit", "src/lib.rs"]}
    op = os.path.join(wd, "obs.ndjson")
    write_ndjson(op, [o, o])
    t = tlc("gen/Obs_MacroDeps", "gen/Obs_MacroDeps", workers=1, wd=wd, env={"OBS": op}, extra=["-continue"])
    if not t.tagged.get("MISMATCH"):
        log("selftest C32: an untracked file was accepted")
        return 2
    log("selftest C32 ok")
    return 0
