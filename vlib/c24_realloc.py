"""C24  Guest allocation entry points honour size, alignment and contents."""
import os
import time

from .core import *
from .small import *

PID = "C24"


def _exe():
    return os.path.join(cargo_build("rtalloc"), "rtalloc")


def _run_harness(exe, args, tr, wd):
    """Runs the harness; if the process dies (abort inside the code under test) the partial log
    is completed with the call that was running and a `panic` event, so the spec judges it."""
    prog = os.path.join(wd, "progress.ndjson")
    if os.path.exists(prog):
        os.remove(prog)
    env = dict(os.environ, VERIF_PROGRESS=prog)
    p = sh([exe] + args + [tr], env=env)
    if p.returncode == 0:
        return
    if p.returncode > 0 or not os.path.exists(prog):
        log(p.stderr[-2000:])
        raise ToolError(f"rtalloc failed rc={p.returncode}")
    rows = []
    with open(tr) as f:
        for ln in f:
            try:
                rows.append(json.loads(ln))
            except ValueError:
                break
    # drop the incomplete tail history, then add the crashing call
    while rows and rows[-1].get("ev") != "reset":
        rows.pop()
    last = read_ndjson(prog)
    rows += [e for e in last if e.get("ev") == "call"]
    rows.append({"ev": "panic", "msg": f"process died with signal {-p.returncode}: {p.stderr.strip()[-200:]}"})
    write_ndjson(tr, rows)


def _validate(tr, wd, out, what):
    t = tlc("rt/Trace_Realloc", "rt/Trace_Realloc", workers=1, wd=wd, env={"TRACE": tr}, dfs=True, xmx="4g", timeout=1800)
    ok = True
    if t.violated or t.tagged.get("REJECTED"):
        ok = False
        br = (t.tagged.get("BREACH") or [None])[0]
        rj = (t.tagged.get("REJECTED") or [None])[0]
        if br:
            key = "breach:" + br["what"]
            out.violation(key, f"{what}: {br['what']} at event #{br['at']} {br['event']}", {"trace_file": tr, "breach": br})
        else:
            key = f"trace:{t.violated}:" + json.dumps((rj or {}).get("next"), sort_keys=True)[:100]
            out.violation(key, f"{what}: log not accepted by Realloc.tla ({t.violated}); first unmatched: {rj}",
                          {"trace_file": tr, "info": rj, "tlc": t.trace[:60]})
    return t, ok


def run(tier):
    t0 = time.time()
    wd = workdir(PID)
    out = Outcome(PID)
    exe = _exe()
    mc_cfg = "rt/MC_Realloc" if tier == "quick" else with_constants("rt/MC_Realloc", wd, "mc4", {"MaxReq = 3": "MaxReq = 4"})
    mc = tlc("rt/MC_Realloc", mc_cfg, workers=8, wd=wd, xmx="12g", coverage=True, timeout=3000)
    if mc.violated:
        out.violation(f"model:{mc.violated}", "the model of cabi_realloc/Cleanup violates " + mc.violated, {"tlc": mc.trace[:80]})
    for act in ("ImplAlloc", "ImplRealloc", "ImplRet", "CNewDone", "CDropDone", "CForget"):
        if mc.coverage.get(act, (0, 0))[0] == 0:
            raise ToolError(f"vacuity: action {act} never taken in MC_Realloc")
    g = tlc("rt/MC_Realloc", "rt/MC_Realloc_gen", workers=8, wd=wd, xmx="12g")
    # different allocator choices give the same symbolic history: dedupe
    seen = {}
    for v in g.vecs:
        seen.setdefault(json.dumps(v, sort_keys=True), v)
    vecs = list(seen.values())
    vp = os.path.join(wd, "vecs.ndjson")
    write_ndjson(vp, vecs)
    tr1 = os.path.join(wd, "trace_gen.ndjson")
    _run_harness(exe, ["replay", vp], tr1, wd)
    t1, ok1 = _validate(tr1, wd, out, "cabi_realloc/Cleanup on TLC-generated histories")
    n_hist = 1500 if tier == "quick" else 15000
    tr2 = os.path.join(wd, "trace_rand.ndjson")
    _run_harness(exe, ["record", str(seed()), str(n_hist)], tr2, wd)
    t2, ok2 = _validate(tr2, wd, out, "cabi_realloc/Cleanup on random histories")
    rc, unlisted = out.finish()
    nontriv = sum(1 for v in vecs if any(h["op"] == "realloc" and h["oldn"] > 0 for h in v["hist"]))
    write_evidence(PID, tier, "model_checking", {
        "states": mc.distinct + g.distinct + t1.distinct + t2.distinct,
        "transitions": mc.generated + g.generated + t1.generated + t2.generated,
        "traces_validated_against_impl": (2 * len(vecs) if ok1 else 0) + (n_hist if ok2 else 0),
        "samples": [vecs[len(vecs) // 2], vecs[-1]],
        "exhaustive": True,
        "evaluations": 2 * len(vecs) + n_hist,
        "distinct_nontrivial": nontriv,
        "rule": "every history of 3 (thorough: MC 4) entry requests / Cleanup operations over sizes {0,1,2,4} and alignments "
                "{1,2,4} (each replayed at scale 1 and 16) + random histories with alignment 2^0..2^16 and sizes 0..2^20; "
                "the real cabi_realloc (source extracted from the working tree) and Cleanup run on a tracking arena "
                "allocator; non-trivial = history contains a reallocation of a live block",
        "mc": {"distinct": mc.distinct, "coverage": {k: v[0] for k, v in mc.coverage.items()}},
        "gen_histories": len(vecs),
        "trace_events": sum(1 for _ in open(tr1)) + sum(1 for _ in open(tr2)),
    }, ["TLC", "harness/rtalloc arena allocator and contents pattern", "cabi_realloc is compiled from source text extracted "
        "from crates/guest-rust/src/rt/mod.rs because it is cfg'd out on linux-gnu"], time.time() - t0, unlisted)
    return rc


def selftest():
    wd = workdir(PID + "_self")
    exe = _exe()
    out = Outcome(PID)
    tr = os.path.join(wd, "t.ndjson")
    sh([exe, "record", "3", "40", tr], check=True)
    rows = read_ndjson(tr)
    k = next(i for i, r in enumerate(rows) if r["ev"] == "ret" and r["ret"] > 70000)
    rows[k]["ret"] += 1
    write_ndjson(tr, rows)
    t, ok = _validate(tr, wd, out, "selftest")
    if ok:
        log("selftest C24: corrupted log accepted")
        return 2
    log("selftest C24 ok")
    return 0
