"""C25  Source buffer preserves text and tracks indentation by brace structure."""
import os
import time

from .core import *
from .small import *

PID = "C25"
SPEC = "gen/MC_SourceBuf"


def _fmt(hist):
    return " ; ".join(f"{s['op']}({''.join(s['txt'])!r})" for s in hist)


def _gen_and_replay(exe, wd, mode, depth, out, workers=8):
    cfg = with_constants(f"gen/MC_SourceBuf_{mode}", wd, f"gen_{mode}_{depth}",
                         {"MaxOps = 3": f"MaxOps = {depth}",
                          "BalancedRestores": "BalancedRestores Emit"})
    g = tlc(SPEC, cfg, workers=workers, wd=wd, xmx="12g", timeout=3000)
    if g.violated:
        out.violation(f"model{mode}:{g.violated}",
                      f"the faithful model of Source violates clause {g.violated} (mode {mode})",
                      {"tlc_trace": g.trace})
    vp = os.path.join(wd, f"vecs_{mode}.ndjson")
    write_ndjson(vp, g.vecs)
    rp = os.path.join(wd, f"replay_{mode}.ndjson")
    sh([exe, "source", "replay", vp, rp], check=True)
    rows = read_ndjson(rp)
    if not rows or rows[-1].get("done") != len(g.vecs):
        raise ToolError("source replay did not finish")
    for r in rows[:-1]:
        key = "replay:" + " ; ".join(f"{op}({t!r})" for op, t in r["hist"])
        out.violation(key, f"real Source state {r['got']} differs from the model's {r['expected']}", r)
    return g


def run(tier):
    t0 = time.time()
    wd = workdir(PID)
    out = Outcome(PID)
    exe = small_exe()
    depth = 3 if tier == "quick" else 4
    ga = _gen_and_replay(exe, wd, "A", depth, out)
    gb = _gen_and_replay(exe, wd, "B", depth, out)
    witnesses(SPEC, "gen/MC_SourceBuf_A", ["W_Deep"], wd)
    witnesses(SPEC, "gen/MC_SourceBuf_B", ["W_CommentBrace", "W_Pop"], wd)
    n_hist = 600 if tier == "quick" else 6000
    tr = os.path.join(wd, "trace.ndjson")
    sh([exe, "source", "record", str(seed()), str(n_hist), tr], check=True)
    nev = sum(1 for _ in open(tr))
    t, ok = validate_trace("gen/Trace_SourceBuf", "gen/Trace_SourceBuf", tr, wd, out, "Source")
    rc, unlisted = out.finish()
    vecs = ga.vecs + gb.vecs
    nontriv = sum(1 for v in vecs if v["indent"] > 0 or v["inC"])
    write_evidence(PID, tier, "model_checking", {
        "states": ga.distinct + gb.distinct + t.distinct,
        "transitions": ga.generated + gb.generated + t.generated,
        "traces_validated_against_impl": n_hist if ok else 0,
        "samples": [{"hist": _fmt(v["hist"]), "s": "".join(v["s"]), "indent": v["indent"]}
                    for v in (vecs[len(vecs) // 3], vecs[-1])],
        "exhaustive": True,
        "evaluations": len(vecs) + n_hist,
        "distinct_nontrivial": nontriv,
        "rule": f"every history of <= {depth} calls over the whole-line alphabet (mode A: 20 fragments, output must "
                "equal the line-level reference) and the line-splitting alphabet (mode B: 19 fragments) x "
                "{push_str, push_str_literal} + indent/deindent; replayed on the real Source with the full projected "
                "state compared; non-trivial = final state has indent > 0 or an open line comment",
        "mode_A": {"distinct": ga.distinct, "vectors": len(ga.vecs)},
        "mode_B": {"distinct": gb.distinct, "vectors": len(gb.vecs)},
        "trace_validation": {"histories": n_hist, "events": nev, "tlc_states": t.distinct},
        "not_generated": ["multi-line fragment starting with blanks appended mid-line",
                          "closing brace at nesting level 0 (mode A reference undefined)",
                          "carriage returns", "deindent below zero (usize underflow, API misuse)"],
    }, ["TLC", "projection of private Source fields through public-API probes (harness/small/src/source.rs)"],
        time.time() - t0, unlisted)
    return rc


def selftest():
    wd = workdir(PID + "_self")
    exe = small_exe()
    out = Outcome(PID)
    cfg = with_constants("gen/MC_SourceBuf_A", wd, "g", {"MaxOps = 3": "MaxOps = 2", "BalancedRestores": "BalancedRestores Emit"})
    g = tlc(SPEC, cfg, workers=4, wd=wd)
    vs = [v for v in g.vecs if v["indent"] > 0][:20]
    for v in vs:
        v["indent"] += 1
    write_ndjson(os.path.join(wd, "v.ndjson"), vs)
    sh([exe, "source", "replay", os.path.join(wd, "v.ndjson"), os.path.join(wd, "o.ndjson")], check=True)
    if len(read_ndjson(os.path.join(wd, "o.ndjson"))) != len(vs) + 1:
        log("selftest C25: corrupted vectors not all rejected")
        return 2
    tr = os.path.join(wd, "t.ndjson")
    sh([exe, "source", "record", "3", "30", tr], check=True)
    rows = read_ndjson(tr)
    k = next(i for i, r in enumerate(rows) if r["op"] == "push" and r["indent"] > 0)
    rows[k]["indent"] -= 1
    write_ndjson(tr, rows)
    t, ok = validate_trace("gen/Trace_SourceBuf", "gen/Trace_SourceBuf", tr, wd, out, "Source")
    if ok:
        log("selftest C25: corrupted trace accepted")
        return 2
    log("selftest C25 ok")
    return 0
