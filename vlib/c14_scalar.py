"""C14  Every backend's scalar conversions implement the canonical ABI mapping.

specs/abi/ScalarConv.tla defines the canonical lowering / lifting of bool, the integer types and
char on the full i32 domain, and an evaluator for a small term language; MC_ScalarConv.tla is its
self-check (reference expressions accepted, classical mistakes rejected).  The real generators run
on a probe world (f-<T>: func(x: T) -> T for every scalar, imported and exported); the conversion
expression of every (backend, type, direction, lower/lift) is extracted from the generated wrapper,
parsed into the term language (fail-closed) and judged by TLC (Obs_ScalarConv) against the
canonical mapping: exhaustively for the 8-bit types under seven patterns of the bits above the
type's width, on boundary + stride sets for 16-bit types and on boundary bit patterns for 32-bit
types.  64-bit integers and floats must be pure reinterpretations (no arithmetic), which is
checked on the term itself."""
import os
import shutil
import time

from .core import *
from .genprobe import cli_args, run_matrix
from . import scalar_extract as sx
from . import scalar_parse as sp

PID = "C14"
LANGS = ["rust", "c", "cpp", "csharp", "go", "moonbit", "d"]
WIDE = {"u64", "s64", "f32", "f64"}
IMPLICIT_BOOL = {"c", "cpp"}       # languages whose function boundary converts bool <-> int implicitly


def probe_wit():
    return ("package t:s;\ninterface p {\n" + "".join(f"  f-{t}: func(x: {t}) -> {t};\n" for t in sx.SCALARS) + "}\nworld w { import p; export p; }\n")


def pure_cast(e):
    return e["op"] == "x" or (e["op"] == "conv64" and pure_cast(e["e"]))


def run(tier):
    t0 = time.time()
    wd = workdir(PID)
    out = Outcome(PID)
    cli = cli_exe()
    mc = tlc("abi/MC_ScalarConv", "abi/MC_ScalarConv", workers=2, wd=wd)
    if mc.violated:
        raise ToolError(f"ScalarConv.tla fails its own self-check: {mc.violated}")
    wit = os.path.join(wd, "p.wit")
    open(wit, "w").write(probe_wit())
    jobs = [{"lang": l, "wit": wit, "out": os.path.join(wd, "out", l), "args": [a for a in cli_args(l) if a != "--format"]} for l in LANGS]
    gen = run_matrix(cli, jobs, workers=8, wd=wd)
    obs, meta, wide_ok = [], {}, 0
    for j in gen:
        lang = j["lang"]
        if j["res"]["status"] != "ok":
            raise ToolError(f"the {lang} generator fails on the scalar probe world: {j['res']}")
        ex = sx.extract(lang, j["out"])
        for (t, direction), x in sorted(ex.items()):
            for role in ("lower", "lift"):
                text, operand = x[role]
                xkind = "bool" if (t == "bool" and role == "lower") else ("wide" if t in WIDE else "int")
                ast = sp.parse(text, operand, lang, xkind)
                oid = f"{lang}:{t}:{direction}:{role}"
                meta[oid] = {"lang": lang, "T": t, "direction": direction, "role": role, "text": text, "term": ast}
                if t in WIDE:
                    if pure_cast(ast):
                        wide_ok += 1
                    else:
                        out.violation(f"wide-not-reinterpretation:{lang}:{t}:{role}", f"{lang}: the {role} of {t} ({direction}) is `{text}`, which is not a bit-exact reinterpretation", meta[oid])
                    continue
                k = sp.kind(ast, xkind)
                want = "int" if role == "lower" else ("bool" if t == "bool" else "int")
                if k != want:
                    if lang in IMPLICIT_BOOL and {k, want} == {"int", "bool"}:
                        ast = {"op": "b2i", "e": ast} if want == "int" else {"op": "ne0", "e": ast}
                    else:
                        out.violation(f"kind:{lang}:{t}:{role}", f"{lang}: the {role} of {t} ({direction}) `{text}` yields a {k} where a {want} is needed", meta[oid])
                        continue
                if role == "lift" and lang in IMPLICIT_BOOL and t in ("u8", "s8", "u16", "s16", "u32", "s32"):
                    # C and C++: the lifted expression initialises / is returned as an object of the WIT type's C type, which
                    # converts implicitly (modulo 2^n); `(uint16_t) x` stored in an int16_t is the same value as `(int16_t) x`
                    ast = {"op": "conv", "to": t, "e": ast}
                obs.append({"id": oid, "T": t, "role": role, "e": ast})
    op = os.path.join(wd, "obs.ndjson")
    write_ndjson(op, obs)
    t = tlc("abi/Obs_ScalarConv", "abi/Obs_ScalarConv", workers=1, wd=wd, env={"OBS": op}, xmx="4g", extra=["-continue"], timeout=1800)
    for m in t.tagged.get("MISMATCH", []):
        o = meta[m["id"]]
        cex = "; ".join(f"input {c[0]} -> {c[1]}, canonical {c[2]}" for c in m["cex"][:3])
        out.violation(f"{o['role']}:{o['lang']}:{o['T']}", f"{o['lang']}: the {o['role']} of {o['T']} ({o['direction']}) is `{o['text']}`: {cex}", dict(o, cex=m["cex"]))
    shutil.rmtree(os.path.join(wd, "out"), ignore_errors=True)
    write_ndjson(os.path.join(wd, "violations.ndjson"), [{"key": k, "desc": d} for k, d, _ in out.violations])
    rc, unlisted = out.finish()
    write_evidence(PID, tier, "model_checking", {
        "states": mc.distinct + t.distinct, "transitions": mc.generated + t.generated, "traces_validated_against_impl": len(obs) + wide_ok,
        "samples": [meta[o["id"]] for o in obs[:3]],
        "expressions_judged_by_tlc": len(obs), "wide_expressions_structurally_checked": wide_ok, "backends": LANGS,
        "distinct_expression_texts": len({(m["lang"], m["text"].replace(sx.LANG[m["lang"]]["import"][2], "X")) for m in meta.values()}),
        "spec": "specs/abi/ScalarConv.tla (Lower, Lift on the full i32 domain, Eval), MC_ScalarConv.tla (self-check by ASSUME), Obs_ScalarConv.tla",
    }, ["the expressions are read from the wrappers of a probe world; the extractor and the parser fail closed on unknown forms",
        "8-bit types: all 256 low parts x 7 high-bit patterns; 16-bit: boundaries + stride 257 x 7 patterns; 32-bit: boundary bit patterns; 64-bit and floats: the "
        "term must be a pure cast chain (no arithmetic), not evaluated",
        "C and C++ convert bool <-> int implicitly at the function boundary; that conversion is made explicit in the term"], time.time() - t0, unlisted)
    return rc


def selftest():
    e = sp.parse("(result - 0x100)", "result", "moonbit")
    if e != {"op": "sub", "e": {"op": "x"}, "k": 256}:
        log(f"selftest C14: parser broken: {e}")
        return 2
    log("selftest C14 ok")
    return 0
