"""Shared pieces of the canonical-ABI checks (C01-C04): vector generation and the interpreter."""
import os
from .core import *


def interp_exe():
    return os.path.join(cargo_build("abi-interp"), "abi-interp")


def gen_vectors(wd, level, workers=12, nchunks=64):
    cfg = os.path.join(wd, f"canon_l{level}.cfg")
    open(cfg, "w").write(f"""CONSTANTS
  Level = {level}
  NChunks = {nchunks}
INIT Init
NEXT Next
INVARIANTS SizesConsistent FlatConsistent Emit
""")
    g = tlc("abi/MC_CanonABI", cfg, workers=workers, wd=wd, xmx="16g", timeout=3000)
    if g.violated:
        raise ToolError(f"the canonical-ABI spec is not self-consistent: {g.violated}\n" + "\n".join(g.trace[:40]))
    return g
