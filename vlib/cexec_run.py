"""C10 / C11: generated C bindings executed natively against the spec-driven host (vhost C ABI).
Vectors: specs/abi/MC_RustExec.tla (the same functions, values and canonical encodings at pointer
width 8 as C05/C06).  C10 judges values (host comparisons of lowered data + the dumps of what the C
code sees against the spec values), C11 the heap ledger (every malloc/free of the guest goes through
the ledger; what post-return must free, what imports must leave untouched)."""
import os
import re
import shutil
import time

from .core import *
from .genprobe import run_commands, run_matrix
from . import cexec

PROPS = {"C10": ("lowered-args", "lowered-result", "unexpected-import", "not-done", "compile", "dump"),
         "C11": ("leak", "free-unknown", "free-wrong-layout", "freed-foreign")}
CONFIGS = {"no-sig-flattening": ["--no-sig-flattening"], "default": [], "autodrop": ["--autodrop-borrows=yes", "--no-sig-flattening"]}
DEFS = ["-Dmalloc=vh_malloc", "-Dfree=vh_free", "-Drealloc=vh_realloc", "-Dcalloc=vh_calloc", "-Daligned_alloc=vh_aligned_alloc"]


def run_all(tier, wd, unit_filter=None):
    from .rexec_run import sig_shape
    cli = cli_exe()
    vhost_dir = cargo_build("vhost")
    if tier == "quick":
        cfg = "abi/MC_RustExec"
    else:
        cfg = os.path.join(wd, "deep.cfg")
        open(cfg, "w").write(open(os.path.join(SPECS, "abi/MC_RustExec.cfg")).read().replace("Deep = FALSE", "Deep = TRUE"))
    g = tlc("abi/MC_RustExec", cfg, workers=12, wd=wd, xmx="12g", timeout=3400)
    units = {}
    for v in g.vecs:
        key = json.dumps([v["ps"], v["r"]], sort_keys=True)
        u = units.setdefault(key, {"ps": v["ps"], "r": v["r"], "cases": []})
        if len(u["cases"]) < (6 if tier == "quick" else 12):
            u["cases"].append({"args": v["args"], "res": v["res"], "enc": v["enc"]})
    units = list(units.values())
    if unit_filter is not None:
        units = [u for u in units if unit_filter(u)]
    jobs = []
    for n, u in enumerate(units):
        for cfgname in (["no-sig-flattening", "default"] if tier == "quick" else list(CONFIGS)):
            if cfgname != "no-sig-flattening" and n % 3 and tier == "quick":
                continue
            d = os.path.join(wd, "units", f"{n}-{cfgname}")
            os.makedirs(d, exist_ok=True)
            wit, defs = cexec.unit_world(u["ps"], u["r"])
            open(os.path.join(d, "w.wit"), "w").write(wit)
            jobs.append({"n": n, "u": dict(u, defs=defs), "cfg": cfgname, "d": d, "wit": wit})
    gen = run_matrix(cli, [{"lang": "c", "wit": os.path.join(j["d"], "w.wit"), "out": os.path.join(j["d"], "gen"), "args": CONFIGS[j["cfg"]]} for j in jobs], workers=16, wd=wd)
    findings, cmds = [], []
    for j, r in zip(jobs, gen):
        if r["res"]["status"] != "ok":
            findings.append({"kind": "compile", "unit": j, "detail": f"the C generator fails on the unit's world: {r['res']}"})
            continue
        h = open(os.path.join(j["d"], "gen", "w.h")).read()
        c = open(os.path.join(j["d"], "gen", "w.c")).read()
        try:
            impl, shim, main = cexec.guest_sources(j["u"], h, c, flattening=(j["cfg"] == "default"))
        except ToolError as e:
            raise ToolError(f"unit {sig_shape(j['u'])} [{j['cfg']}]: {e}")
        for name, src in (("impl.c", impl), ("shim.c", shim), ("main.c", main)):
            open(os.path.join(j["d"], name), "w").write(src)
        json.dump(cexec.unit_vector(j["u"]), open(os.path.join(j["d"], "vector.json"), "w"))
        exe = os.path.join(j["d"], "test")
        cmds.append((str(len(cmds)), ["clang", "-O0", "-w", "-I", os.path.join(j["d"], "gen")] + DEFS +
                     [os.path.join(j["d"], "gen", "w.c")] + [os.path.join(j["d"], x) for x in ("impl.c", "shim.c", "main.c")] +
                     [os.path.join(vhost_dir, "libvhost.a"), "-lpthread", "-ldl", "-lm", "-o", exe]))
        j["cmd_id"], j["exe"] = str(len(cmds) - 1), exe
    res = run_commands(cmds, wd, workers=16, timeout_ms=600000)
    runs = []
    for j in jobs:
        if "cmd_id" not in j:
            continue
        r = res[j["cmd_id"]]
        if r["rc"] != 0:
            err = r.get("stderr_head", "") + r["stderr"]
            first = next((l for l in err.splitlines() if "error" in l), err[-300:])
            findings.append({"kind": "compile", "unit": j, "detail": f"the generated C + plumbing do not compile natively: {first[:300]}", "stderr": err[:3000]})
            continue
        j["out"] = os.path.join(j["d"], "out.ndjson")
        runs.append((j["cmd_id"], ["env", f"VERIF_VECTOR={os.path.join(j['d'], 'vector.json')}", f"VERIF_OUT={j['out']}", j["exe"]]))
    rr = run_commands(runs, wd, workers=16, timeout_ms=120000)
    stats = {"units": len(units), "jobs": len(jobs), "executed": 0, "cases": 0, "import_calls": 0, "export_calls": 0, "dumps_compared": 0, "tlc": g}
    for j in jobs:
        if "out" not in j:
            continue
        r = rr[j["cmd_id"]]
        rows = read_ndjson(j["out"]) if os.path.exists(j["out"]) else []
        stats["executed"] += 1
        expect = cexec.expected_dumps(j["u"])
        case, done = 0, False
        for row in rows:
            if "case" in row:
                case = row["case"]
                stats["cases"] += 1
            elif "import_called" in row:
                stats["import_calls"] += 1
            elif "export_returned" in row:
                stats["export_calls"] += 1
            elif "done" in row:
                done = True
            elif "guest" in row:
                want = expect[case].get(row["guest"])
                stats["dumps_compared"] += 1
                if want is not None and row["detail"] != want:
                    findings.append({"kind": "dump", "unit": j, "case": case,
                                     "detail": f"the C code sees {row['guest']} = {row['detail'][:200]}, the values sent are {want[:200]}"})
            elif "problem" in row:
                findings.append({"kind": row["problem"], "unit": j, "case": case, "detail": row["detail"]})
        if not done:
            findings.append({"kind": "not-done", "unit": j, "case": case,
                             "detail": f"the test program died (rc={r['rc']}, signal={r.get('signal')}): {(r.get('stderr_head', '') + r['stderr'])[-300:]}"})
    return findings, stats


def _tree_key(tier):
    """identifies the code under test and the machinery: the sibling property reuses a run only for exactly the same trees"""
    import hashlib
    h = hashlib.sha256(tier.encode())
    for d in (REPO, VERIF):
        for cmd in (["git", "-C", d, "rev-parse", "HEAD"], ["git", "-C", d, "diff", "HEAD"], ["git", "-C", d, "status", "--porcelain"]):
            h.update(sh(cmd).stdout.encode())
    h.update(str(seed()).encode())
    return h.hexdigest()


def cached_run_all(tier, wd):
    """C05/C06 (C10/C11) are two judgements of one run: the second property reuses the findings of the first when /repo and
    /verif are byte-for-byte the same trees (key: HEAD + diff + status of both)."""
    import pickle
    key = _tree_key(tier)
    cp = os.path.join(WORK, f"%s_{tier}.cache" % __name__.split(".")[-1])
    if os.path.exists(cp):
        try:
            k, data = pickle.load(open(cp, "rb"))
            if k == key:
                os.remove(cp)            # one reuse only: a third run is a fresh one
                log(f"[cache] reusing the run of the sibling property ({os.path.basename(cp)})")
                return data
        except Exception:
            pass
    findings, stats = run_all(tier, wd)
    for f in findings:
        f["unit"]["u"].pop("defs", None)
    stats2 = dict(stats)
    g = stats2.pop("tlc")
    import types
    stats2["tlc"] = types.SimpleNamespace(distinct=g.distinct, generated=g.generated)
    try:
        pickle.dump((key, (findings, stats2)), open(cp, "wb"))
    except Exception as e:
        log(f"[cache] not written: {e}")
    return findings, stats


def run_property(pid, tier):
    from .rexec_run import sig_shape
    t0 = time.time()
    wd = workdir(pid)
    out = Outcome(pid)
    findings, stats = cached_run_all(tier, wd)
    for f in [f for f in findings if f["kind"] in PROPS[pid]]:
        u = f["unit"]
        ctx = {"signature": sig_shape(u["u"]), "config": u["cfg"], "wit": u["wit"], "case": f.get("case"), "detail": f["detail"]}
        if f.get("case") is not None and f["case"] < len(u["u"]["cases"]):
            ctx["args"], ctx["res"] = u["u"]["cases"][f["case"]]["args"], u["u"]["cases"][f["case"]]["res"]
        if "stderr" in f:
            ctx["stderr"] = f["stderr"]
        det = re.sub(r"\d+", "N", re.sub(r"0x[0-9a-f]+", "0xN", f["detail"]))
        out.violation(f"{f['kind']}:{u['cfg']}:{sig_shape(u['u'])}:{det[:60]}", f"{sig_shape(u['u'])} [{u['cfg']}] case {f.get('case')}: {f['detail'][:400]}", ctx)
    shutil.rmtree(os.path.join(wd, "units"), ignore_errors=True)
    write_ndjson(os.path.join(wd, "violations.ndjson"), [{"key": k, "desc": d} for k, d, _ in out.violations])
    rc, unlisted = out.finish()
    g = stats.pop("tlc")
    write_evidence(pid, tier, "model_checking", {
        "states": g.distinct, "transitions": g.generated, "traces_validated_against_impl": stats["cases"],
        "samples": [{"note": "vectors of MC_RustExec.tla (shared with C05/C06)"}], **stats,
        "spec": "specs/abi/MC_RustExec.tla over CallConv.tla/CanonABI.tla (CallEncoding at pointer width 8); host = harness/vhost through its C ABI",
    }, ["the generated C is compiled natively with clang (x86-64, pointer width 8); its core imports are defined by a generated shim that forwards "
        "to the host, its exports and post-return are called by their C names; malloc/free/realloc/calloc of bindings and plumbing are redirected to "
        "the ledger with -D, host-built memory comes from the bindings' own cabi_realloc",
        "values as seen by C code are dumped by generated code that addresses members by path (only with --no-sig-flattening, where parameters have "
        "their plain types); with the default flattening only the host-side comparisons apply",
        "utf16 string encoding is not executed"], time.time() - t0, unlisted)
    return rc
