"""C09  Generated Rust builds and componentizes as exactly the requested world.

Worlds: specs/gen/WorldGrammar.tla (TLC, GEN mode) + adversarial-name worlds (Rust keywords,
prelude items, the generator's own temporaries, case/separator collisions) + tests/codegen, minus
the Rust backend's declared exclusions, x the option variants of crates/test/src/rust.rs plus
--raw-strings.  Oracles:
  * rustc: the generated bindings are compiled exactly like the repository's own runner does
    (`rustc <world>.rs --crate-type=rlib -Dwarnings`, editions 2021 and 2024, `--extern
    wit_bindgen=` the real runtime built from /repo) -- for the HOST target, since no wasm32 Rust
    target exists in this sandbox; code under `cfg(target_arch = "wasm32")` is therefore only
    parsed, not type-checked;
  * component encoder: a core module with exactly the imports/exports the bindings declare
    (C13's scanner) and the bindings' OWN embedded component-type section is given to
    wit_component::ComponentEncoder with validation; the decoded world must be the requested one."""
import os
import re
import shutil
import time

from .core import *
from .genprobe import *
from . import rustprobe
from . import surface_scan as ss

PID = "C09"


def variants(tier):
    vs = [("", [])] + [(n, a) for n, a in backend_info("rust")["variants"]]
    vs.append(("raw-strings", ["--raw-strings"]))
    return vs


def type_section(rs_text):
    """the bytes of the embedded component-type custom section (hex), or None"""
    m = re.search(r'link_section\s*=\s*"component-type:[^"]*"\s*\)?\s*\]\s*(?:#\[[^\]]*\]\s*)*pub static \w+\s*:\s*\[u8;\s*(\d+)\]\s*=\s*\*b"((?:[^"\\]|\\.)*)"', rs_text, re.S)
    if not m:
        m2 = re.search(r'link_section\s*=\s*"component-type:[^"]*"[^;]*?\[u8;\s*(\d+)\]\s*=\s*\*br(#+)"(.*?)"\2', rs_text, re.S)
        if not m2:
            return None
        raw = m2.group(3).encode("latin1", "replace")
        return raw.hex() if len(raw) == int(m2.group(1)) else None
    n, body = int(m.group(1)), m.group(2)
    out, i = bytearray(), 0
    while i < len(body):
        c = body[i]
        if c == "\\":
            d = body[i + 1]
            if d == "x":
                out.append(int(body[i + 2:i + 4], 16))
                i += 4
            elif d == "n":
                out.append(10); i += 2
            elif d == "r":
                out.append(13); i += 2
            elif d == "t":
                out.append(9); i += 2
            elif d == "0":
                out.append(0); i += 2
            elif d in "\\\"'":
                out.append(ord(d)); i += 2
            elif d == "\n":          # line continuation
                i += 2
                while i < len(body) and body[i] in " \t\n":
                    i += 1
            else:
                raise ToolError(f"unknown escape \\{d} in the component-type byte string")
        else:
            out += c.encode("utf-8")
            i += 1
    if len(out) != n:
        # the static is under cfg(target_arch = "wasm32"): the host compiler never sees it, so this is ours to report
        return {"declared": n, "decoded": len(out)}
    return bytes(out).hex()


def rustc_errors(err):
    """[(error line, site)] of a rustc diagnostic text: site = the source line the error points at (digits folded, blanks
    squeezed, 70 characters) -- the generated code at the failing place is what identifies a defect, the error class alone
    does not"""
    lines = err.splitlines()
    out = []
    for i, l in enumerate(lines):
        if not re.match(r"^error(\[E\d+\])?: ", l) or l.startswith("error: aborting") or "previous error" in l:
            continue
        if len(re.findall(r"error(\[E\d+\])?: ", l)) > 1:
            continue          # head and tail of a long diagnostic text glued together in the middle of a line
        site = ""
        for m in lines[i + 1:i + 12]:
            if m.startswith("error") or m.startswith("warning"):
                break
            mm = re.match(r"^\s*\d+ \| (.*)$", m)
            if mm:
                site = re.sub(r"\d+", "N", re.sub(r"\s+", " ", mm.group(1)).strip())[:70]
                break
        out.append((l, site))
    return out


def run(tier):
    t0 = time.time()
    wd = workdir(PID)
    out = Outcome(PID)
    cli = cli_exe()
    sx = os.path.join(cargo_build("surface"), "surface")
    envs, cmd, _ = rustprobe.probe_rustc(wd)
    envs_ns, cmd_ns, _ = envs, cmd, None
    g, worlds = grammar_worlds(wd, full=False, k=0 if tier == "quick" else 3)
    if tier == "quick":
        worlds = worlds[::3]
    wdir = os.path.join(wd, "worlds")
    paths = write_worlds(worlds, wdir)
    from .c09_names import adversarial_worlds
    for name, wit in adversarial_worlds("rust"):
        d = os.path.join(wdir, f"adv-{name}")
        os.makedirs(d, exist_ok=True)
        open(os.path.join(d, "w.wit"), "w").write(wit)
        paths.append(os.path.join(d, "w.wit"))
    inputs = paths + corpus_files()
    feats = wit_features(inputs)
    excl, _ = excluded_features("rust")
    units = []
    for vname, vargs in variants(tier):
        for i, p in enumerate(inputs):
            f = feats[p]
            if "error" in f or not supported("rust", f["features"], vname if vname != "raw-strings" else "", excl, p, f):
                continue
            if tier == "quick" and vname and i % 4 and "adv-" not in p:
                continue
            # thorough: every world under the default options, the other option sets on every second world (40k compiler runs
            # otherwise: more than an hour)
            if tier != "quick" and vname and i % 2 and "adv-" not in p:
                continue
            units.append({"variant": vname, "args": cli_args("rust", vargs), "i": i, "wit": p, "out": os.path.join(wd, "out", f"{vname or 'default'}-{i}")})
    gen = run_matrix(cli, [{"lang": "rust", "wit": u["wit"], "out": u["out"], "args": u["args"]} for u in units], workers=16, wd=wd)
    cmds = []
    for n, (u, j) in enumerate(zip(units, gen)):
        u["gen"] = j["res"]["status"]
        if u["gen"] != "ok":
            # a valid world within the supported features must be generated: the generator giving up (or panicking, e.g. because
            # --format cannot parse its own output) is this property's business as well
            r_ = j["res"]
            msg = r_.get("what") or r_.get("stderr", "")
            msg = re.sub(r"`[^`]*`", "`_`", re.sub(r"\d+", "N", msg))[:100] if u["gen"] != "panic" else re.sub(r"\d+", "N", msg)[:100]
            out.violation(f"generator:rust:{u['gen']}:{msg}", f"the Rust generator fails ({u['gen']}) on {os.path.basename(os.path.dirname(u['wit'])) if 'tests/codegen' not in u['wit'] else os.path.basename(u['wit'])} "
                          f"[{u['variant'] or 'default'}]: {json.dumps(r_)[:300]}", {"wit": open(u["wit"]).read() if os.path.isfile(u["wit"]) else u["wit"], "args": u["args"], "res": r_})
            continue
        rs = [f for f in os.listdir(u["out"]) if f.endswith(".rs")]
        if len(rs) != 1:
            raise ToolError(f"expected one .rs file in {u['out']}: {rs}")
        u["rs"] = os.path.join(u["out"], rs[0])
        for ed in ("2021", "2024"):
            if tier == "quick" and ed == "2024" and n % 3:
                continue
            pre, argv = rustprobe.replay(envs, cmd, u["rs"], os.path.join(u["out"], "o" + ed), emit="metadata", edition=ed, extra=["-Dwarnings"], drop_check_cfg=True)
            cmds.append((f"{n}:{ed}", pre + argv))
    res = run_commands(cmds, wd, workers=16, timeout_ms=600000)

    def name_of(u):
        p = u["wit"]
        return os.path.basename(p) if "tests/codegen" in p else "gen:" + os.path.basename(os.path.dirname(p))

    def scope_of(u):
        """part of a violation's identity: the adversarial world or corpus file by name; TLC-generated worlds (whose numbering
        differs between tiers) as `gen`"""
        n = name_of(u)
        return n[4:] if n.startswith("gen:adv-") else ("gen" if n.startswith("gen:") else n)

    def ctx_of(u, extra=None):
        c = {"name": name_of(u), "variant": u["variant"], "args": u["args"], "wit": open(u["wit"]).read() if os.path.isfile(u["wit"]) else u["wit"]}
        c.update(extra or {})
        return c
    compiled, failed = 0, set()
    for cid, r in sorted(res.items()):
        n, ed = cid.split(":")
        u = units[int(n)]
        if r["rc"] != 0:
            failed.add(int(n))
            err = r.get("stderr_head", "") + r["stderr"]
            # every distinct error of the unit is a violation of its own (a listed finding must not hide a different error of the
            # same unit), and the names inside the message stay in the key (only digits are folded): `found keyword `Self``
            # and `found keyword `type`` are different defects
            errs = rustc_errors(err)
            for first, site in list(dict.fromkeys(errs)) or [(err[-200:], "")]:
                out.violation(f"rustc:{scope_of(u)}[{u['variant'] or 'default'}]:{re.sub(chr(92) + 'd+', 'N', first)[:110]} @ {site}", f"generated Rust for {name_of(u)} [{u['variant'] or 'default'}, edition {ed}] does not compile: {first[:300]}",
                              ctx_of(u, {"stderr": err[:2500]}))
        else:
            compiled += 1
    # component encoder on the declared surface + the embedded type section
    jobs = []
    for n, u in enumerate(units):
        if u["gen"] != "ok" or n in failed:
            continue
        text = open(u["rs"]).read()
        sec = type_section(text)
        if isinstance(sec, dict):
            out.violation("type-section-length", f"generated Rust for {name_of(u)} [{u['variant'] or 'default'}]: the embedded component-type byte string has "
                          f"{sec['decoded']} bytes but is declared as [u8; {sec['declared']}] (does not compile for wasm32)", ctx_of(u))
            continue
        if sec is None:
            out.violation("no-component-type-section", f"generated Rust for {name_of(u)} [{u['variant'] or 'default'}] embeds no component-type section", ctx_of(u))
            continue
        sc = ss.scan("rust", u["out"])
        imps, seen = [], set()
        for i in sc["imports"]:
            if (i["module"], i["name"]) not in seen:
                seen.add((i["module"], i["name"]))
                imps.append({k: i[k] for k in ("module", "name", "params", "results")})
        exps, seen = [], set()
        for e in sc["exports"]:
            if e["name"] not in seen:
                seen.add(e["name"])
                exps.append({k: e[k] for k in ("name", "params", "results")})
        jobs.append({"id": str(n), "wit": u["wit"], "imports": imps, "exports": exps, "type_section": sec})
    write_ndjson(os.path.join(wd, "enc_jobs.ndjson"), jobs)
    sh([sx, "encode", os.path.join(wd, "enc_jobs.ndjson"), os.path.join(wd, "enc_out.ndjson")], check=True, timeout=3000)
    enc = {r["id"]: r for r in read_ndjson(os.path.join(wd, "enc_out.ndjson"))}
    # applicability (same rule as C12/C13): the reference surface of the input must itself be encodable
    ref_jobs = [{"id": j["id"], "wit": j["wit"], "async": ["all"] if units[int(j["id"])]["variant"] == "async" else []} for j in jobs]
    write_ndjson(os.path.join(wd, "ref_jobs.ndjson"), ref_jobs)
    sh([sx, "reference", os.path.join(wd, "ref_jobs.ndjson"), os.path.join(wd, "ref_out.ndjson")], check=True, timeout=3000)
    base = [{"id": r["id"], "wit": units[int(r["id"])]["wit"], "imports": [{k: x[k] for k in ("module", "name", "params", "results")} for x in r["imports"]],
             "exports": [e for e in r["exports"] if e["required"]]} for r in read_ndjson(os.path.join(wd, "ref_out.ndjson")) if "tool_error" not in r]
    write_ndjson(os.path.join(wd, "base_jobs.ndjson"), base)
    sh([sx, "encode", os.path.join(wd, "base_jobs.ndjson"), os.path.join(wd, "base_out.ndjson")], check=True, timeout=3000)
    encodable = {r["id"] for r in read_ndjson(os.path.join(wd, "base_out.ndjson")) if r.get("encoder") == "ok"}
    accepted = na = 0
    for j in jobs:
        u, r = units[int(j["id"])], enc[j["id"]]
        if j["id"] not in encodable:
            na += 1
            continue
        if "tool_error" in r:
            out.violation("type-section-undecodable", f"{name_of(u)} [{u['variant'] or 'default'}]: the embedded component-type section cannot be used: {r['tool_error'][:300]}", ctx_of(u))
            continue
        if r["encoder"] != "ok":
            msg = re.sub(r"`[^`]*`", "`_`", re.sub(r"\d+", "N", r["error"]))[:110]
            out.violation("encoder:" + msg, f"the component encoder rejects a module with the surface and type section of the generated Rust for {name_of(u)} "
                          f"[{u['variant'] or 'default'}]: {r['error'][:400]}", ctx_of(u))
            continue
        accepted += 1
        want, got = r["want"], r["got"]
        if want["exports"] != got["exports"]:
            out.violation("world:exports", f"{name_of(u)} [{u['variant'] or 'default'}]: the component exports {sorted(got['exports'])}, the world {sorted(want['exports'])}", ctx_of(u))
        for nm, item in got["imports"].items():
            w = want["imports"].get(nm)
            if w is None or w["kind"] != item["kind"] or (item["kind"] == "interface" and not set(item["funcs"]) <= set(w["funcs"])):
                out.violation("world:imports-extra", f"{name_of(u)} [{u['variant'] or 'default'}]: the component imports `{nm}` {item}, which the world does not", ctx_of(u))
    shutil.rmtree(os.path.join(wd, "out"), ignore_errors=True)
    write_ndjson(os.path.join(wd, "violations.ndjson"), [{"key": k, "desc": d, "name": r.get("name", "")} for k, d, r in out.violations])
    rc, unlisted = out.finish()
    write_evidence(PID, tier, "exploration", {
        "evaluations": len(cmds) + len(jobs), "distinct_nontrivial": len({(w["ctor"], w["wrap"]) for w in worlds}),
        "rule": "worlds of WorldGrammar.tla (TLC GEN) + adversarial-name worlds + tests/codegen, minus the Rust backend's declared exclusions, x "
                "{default, borrowed, borrowed-duplicate, async, no-std, merge-equal, hashmap, raw-strings}; rustc (host target, -Dwarnings, editions "
                "2021/2024, real wit_bindgen runtime) and ComponentEncoder on the declared surface with the bindings' own type section; non-trivial = "
                "distinct (constructor, position) cells",
        "samples": [{"wit": open(units[3]["wit"]).read(), "variant": units[3]["variant"]}],
        "units": len(units), "generation_failed_not_judged_here": sum(1 for u in units if u["gen"] != "ok"),
        "rustc_runs": len(cmds), "rustc_ok": compiled, "encoder_jobs": len(jobs), "encoder_accepted": accepted, "encoder_not_applicable": na,
        "tlc": {"distinct": g.distinct, "generated": g.generated},
    }, ["no wasm32 Rust target in the sandbox: rustc type-checks for the host; `cfg(target_arch = \"wasm32\")` items (the extern blocks) are checked by "
        "the scanner and the encoder instead", "the core module given to the encoder is synthesised from the declared imports/exports"], time.time() - t0, unlisted)
    return rc


def selftest():
    s = type_section('#[unsafe(link_section = "component-type:x")] #[doc(hidden)] pub static A: [u8; 4] = *b"\\0as\\x6d";')
    if s != "0061736d":
        log(f"selftest C09: byte-string decoder broken ({s})")
        return 2
    log("selftest C09 ok")
    return 0
