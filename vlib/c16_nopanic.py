"""C16  Generators handle every valid world without panicking."""
import os
import shutil
import time

from .core import *
from .genprobe import *

PID = "C16"


ALIAS_WORLDS = ["""package t:al;
interface other { resource a { constructor(); get: func() -> u32; } }
interface i {
  use other.{a};
  resource r0 { constructor(); plain: func(); }
  type b = r0;
  record rec { x: borrow<b>, y: u32 }
  f: func(x: list<borrow<a>>) -> u32;
  g: func(x: list<borrow<b>>, y: option<borrow<b>>, z: tuple<borrow<a>, u8>) -> u32;
  h: func(x: b, y: a) -> b;
  k: func(x: list<rec>, y: result<borrow<a>, string>);
  l: func(x: list<b>, y: option<a>) -> list<a>;
}
world w { import other; import i; export i; }
""", """package t:al2;
interface types { resource a { constructor(); } type c = a; }
world w {
  use types.{a, c};
  import f: func(x: list<borrow<a>>, y: borrow<c>) -> u32;
  export g: func(x: list<borrow<c>>, y: list<borrow<a>>, z: option<c>) -> u32;
}
"""]


def run(tier):
    t0 = time.time()
    wd = workdir(PID)
    out = Outcome(PID)
    cli = cli_exe()
    g, worlds = grammar_worlds(wd, full=(tier == "thorough"), k=0 if tier == "quick" else 5)
    wdir = os.path.join(wd, "worlds")
    paths = write_worlds(worlds, wdir)
    # resources reached through an alias (`type b = r0;`, `use other.{a};`): own and borrow of the alias in every container
    # position (generated worlds only name resources directly)
    extra = []
    for n, wit in enumerate(ALIAS_WORLDS):
        d = os.path.join(wdir, f"alias-{n}")
        os.makedirs(d, exist_ok=True)
        open(os.path.join(d, "w.wit"), "w").write(wit)
        extra.append(os.path.join(d, "w.wit"))
    # corpus too (it is what the repository's own exclusions are keyed by)
    corpus = extra + corpus_files()
    feats = wit_features(paths + corpus)
    invalid = [p for p in paths if "error" in feats[p]]
    if len(invalid) > len(paths) // 50:
        raise ToolError(f"{len(invalid)} generated worlds are not valid WIT, e.g. {feats[invalid[0]]}")
    jobs = []
    excl = {}
    excl_info = {}
    for lang in BACKENDS:
        excl[lang], excl_info[lang] = excluded_features(lang)
        info = backend_info(lang)
        for variant, vargs in [("", [])] + info["variants"]:
            args = cli_args(lang, vargs)
            for i, p in enumerate(paths + corpus):
                f = feats[p]
                if "error" in f:
                    continue
                # quick tier: option variants on every 4th generated world (and the whole corpus)
                if tier == "quick" and variant and i < len(paths) and i % 4 != 0:
                    continue
                sup = supported(lang, f["features"], variant, excl[lang], p, f)
                jobs.append({"lang": lang, "variant": variant, "wit": p, "args": args, "supported": sup,
                             "out": os.path.join(wd, "out", lang + "-" + (variant or "default"), str(i)),
                             "world": worlds[i] if i < len(paths) else {"corpus": os.path.basename(p)}})
    res = run_matrix(cli, jobs, workers=16, wd=wd)
    shutil.rmtree(os.path.join(wd, "out"), ignore_errors=True)
    counts = {"ok": 0, "error": 0, "panic": 0, "timeout": 0, "panic_in_declared_exclusion": 0}
    for j in res:
        st = j["res"]["status"]
        counts[st] += 1
        if st in ("panic", "timeout"):
            if not j["supported"]:
                counts["panic_in_declared_exclusion"] += 1
                continue
            w = j["world"]
            desc = w.get("corpus") or f"{w['ctor']} {w['wrap']} {w['role']} {w['fkind']} {w['dir']}"
            where = j["res"].get("where", "")
            where = re.sub(r"^/repo/", "", where)
            key = f"{j['lang']}:{where.split(':')[0]}:{j['res'].get('what', '')[:60]}"
            out.violation(key, f"{j['lang']} {j['variant'] or 'default'} panicked on world [{desc}] at {where}: {j['res'].get('what')}",
                          {"lang": j["lang"], "variant": j["variant"], "args": j["args"], "world": w,
                           "wit": open(j["wit"]).read() if os.path.isfile(j["wit"]) else j["wit"], "panic": j["res"]})
    write_ndjson(os.path.join(wd, "violations.ndjson"), [{"key": k, "desc": d} for k, d, _ in out.violations])
    rc, unlisted = out.finish()
    cells = {(w["ctor"], w["wrap"], w["role"]) for w in worlds}
    write_evidence(PID, tier, "exploration", {
        "evaluations": len(res),
        "distinct_nontrivial": len(cells),
        "rule": "worlds of WorldGrammar.tla (every type constructor in every position x role, function kinds and directions "
                f"cycling; {'full product' if tier == 'thorough' else 'reduced product'}) + the tests/codegen corpus, each run through "
                "the real CLI for every backend and each option variant of crates/test; a panic/abort/timeout outside the backend's "
                "declared exclusions (feature sets derived from should_fail_verify at run time) is a violation; non-trivial = distinct "
                "(constructor, position, role) cells",
        "samples": [{"world": worlds[7], "wit": open(paths[7]).read()}, {"world": worlds[-1]}],
        "outcomes": counts,
        "worlds": len(worlds),
        "corpus_files": len(corpus),
        "tlc_states": g.distinct,
        "excluded_features": {l: sorted(x for x in excl[l] if "|" not in x and "&" not in x) for l in BACKENDS},
        "exclusion_units": excl_info,
    }, ["the CLI built from /repo (profile without debug assertions)", "exclusions are generalised from file names to feature sets "
        "(features that occur only in files the backend declares failing)", "wit-parser decides validity of generated worlds"],
        time.time() - t0, unlisted)
    return rc


def selftest():
    # a world with an error-context result must be classified unsupported for C and supported for markdown
    ex_c, _ = excluded_features("c")
    ex_m, _ = excluded_features("markdown")
    f = ["ctor:errctx", "error-context", "ctor:errctx|role:result"]
    if supported("c", f, "", ex_c) or not supported("markdown", f, "", ex_m):
        log("selftest C16: exclusion derivation broken")
        return 2
    log("selftest C16 ok")
    return 0
