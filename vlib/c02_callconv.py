"""C02  Call glue follows the canonical calling convention for every signature."""
import os
import time

from .core import *
from .abi import *

PID = "C02"


def _gen(wd, deep):
    cfg = os.path.join(wd, "callconv.cfg")
    open(cfg, "w").write(f"CONSTANTS\n  NChunks = 32\n  Deep = {'TRUE' if deep else 'FALSE'}\nINIT Init\nNEXT Next\nINVARIANT Emit\n")
    return tlc("abi/MC_CallConv", cfg, workers=12, wd=wd, xmx="12g", timeout=3000)


def run(tier):
    t0 = time.time()
    wd = workdir(PID)
    out = Outcome(PID)
    exe = interp_exe()
    g = _gen(wd, tier == "thorough")
    vp = os.path.join(wd, "vecs.ndjson")
    write_ndjson(vp, g.vecs)
    rp = os.path.join(wd, "replay.ndjson")
    sh([exe, "c02", "replay", vp, rp], check=True, timeout=3000)
    rows = read_ndjson(rp)
    done = rows[-1]
    if done.get("done") != len(g.vecs):
        raise ToolError("abi-interp c02 replay did not finish")
    skipped = [r for r in rows[:-1] if "skipped" in r]
    if skipped:
        raise ToolError(f"{len(skipped)} signatures could not be rendered as WIT: {skipped[0]}")
    for r in rows[:-1]:
        pr = r["problem"]
        what = pr.get("notes", [None])[0] or ("panic" if "panic" in pr else "error")
        msg = pr.get("error") or pr.get("panic") or str(pr.get("notes"))
        if "SPEC-OR-WIT-PARSER" in msg:
            raise ToolError(f"spec and wit-parser disagree on a core signature (investigate, not a wit-bindgen violation): {msg}")
        if what in ("PARAM-RECORD-NOT-FREED", "RETURN-AFTER-TASK-RETURN"):
            key = f"{r['combo']}:{what}"
        else:
            key = f"{r['combo']}:{what}:nflat{r['nflat']}:nres{r['nres']}:W{r['W']}:" + json.dumps(r["ps"])[:80]
        out.violation(key, f"{r['combo']} W={r['W']} flat params {r['nflat']} flat results {r['nres']}: {msg}", r)
    rc, unlisted = out.finish()
    classes = {(v["nflat"], v["nres"], v["W"], v["indirect"], v["retptr"]) for v in g.vecs}
    write_evidence(PID, tier, "model_checking", {
        "states": g.distinct,
        "transitions": g.generated,
        "traces_validated_against_impl": done["runs"],
        "samples": [{k: g.vecs[i][k] for k in ("ps", "r", "W", "nflat", "nres", "lowerSig", "liftSig", "asyncLiftSig", "taskReturn")}
                    for i in (len(g.vecs) // 2, len(g.vecs) - 1)],
        "exhaustive": True,
        "evaluations": done["runs"],
        "distinct_nontrivial": len(classes),
        "rule": "MC_CallConv.tla: 44 parameter lists (0..20 one-slot parameters and mixes hitting 3,4,5,15,16,17,18 flat values) x "
                "13 results (0, 1, 2, 3, 16, 17 flat values, heap-owning, handles) x pointer width x value shifts; each signature is "
                "run through abi::call in 5 combinations (import-lower, export-lift, async-export-lift, export-lower, import-lift) x 2 "
                "garbage patterns with the harness playing the other side with the spec's encodings; non-trivial = distinct "
                "(flat params, flat results, width, indirect, retptr) classes",
        "signatures": len(g.vecs),
        "combinations_not_exercised": ["GuestImportAsync (todo!() in abi::call; Rust async imports use lower_to_memory/lift_from_memory "
                                       "directly, see C08/C21)", "GuestExportAsyncStackful", "(GuestExport, lift, async) used only by C#"],
    }, ["TLC", "harness/abi-interp", "wit-parser's wasm_signature is compared with the spec's CoreSig (a mismatch is a tool error)"],
        time.time() - t0, unlisted)
    return rc


def selftest():
    wd = workdir(PID + "_self")
    exe = interp_exe()
    g = _gen(wd, False)
    vs = [v for v in g.vecs if v["nflat"] == 16 and not v["retptr"]][:10]
    for v in vs:
        v["paramsFlat"][3]["cells"][0] = (v["paramsFlat"][3]["cells"][0] + 1) % 256
    vp = os.path.join(wd, "v.ndjson")
    write_ndjson(vp, vs)
    rp = os.path.join(wd, "o.ndjson")
    sh([exe, "c02", "replay", vp, rp], check=True)
    bad = {r["fi"] for r in read_ndjson(rp) if "problem" in r and "error" in r["problem"]}
    if len(bad) < len({v["fi"] for v in vs}):
        log("selftest C02: corrupted vectors not rejected")
        return 2
    log("selftest C02 ok")
    return 0
