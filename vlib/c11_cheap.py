"""C11: see vlib/cexec_run.py (native execution of generated C, heap ledger judgement)."""
from . import cexec_run


def run(tier):
    return cexec_run.run_property("C11", tier)


def selftest():
    from . import c10_cvalues
    return c10_cvalues.selftest()
