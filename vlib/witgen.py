"""Rendering of the abstract worlds of specs/gen/WorldGrammar.tla (and of CanonABI type JSON) to
WIT text.  Mirrors harness/vcommon/src/model.rs::WitBuilder (names t<n>, r<n>, f<i>, c<i>, e<i>, b<i>)."""


class Defs:
    def __init__(self):
        self.defs = []
        self.named = []       # (json-dump, name)
        self.resources = []

    def resource(self, r):
        if r not in self.resources:
            self.resources.append(r)
        return f"r{r}"

    def ty(self, t):
        k = t["k"]
        if k == "errctx":
            return "error-context"
        if k in ("bool", "u8", "s8", "u16", "s16", "u32", "s32", "u64", "s64", "f32", "f64", "char", "string"):
            return k
        if k == "list":
            return f"list<{self.ty(t['t'])}>"
        if k == "flist":
            return f"list<{self.ty(t['t'])}, {t['n']}>"
        if k == "map":
            return f"map<{self.ty(t['key'])}, {self.ty(t['val'])}>"
        if k == "tuple":
            return "tuple<" + ", ".join(self.ty(f) for f in t["fs"]) + ">"
        if k == "option":
            return f"option<{self.ty(t['t'])}>"
        if k == "result":
            a, b = t["ok"], t["err"]
            an, bn = a["k"] == "none", b["k"] == "none"
            if an and bn:
                return "result"
            if bn:
                return f"result<{self.ty(a)}>"
            if an:
                return f"result<_, {self.ty(b)}>"
            return f"result<{self.ty(a)}, {self.ty(b)}>"
        if k == "own":
            return f"own<{self.resource(t['r'])}>"
        if k == "borrow":
            return f"borrow<{self.resource(t['r'])}>"
        if k in ("future", "stream"):
            return k if t["t"]["k"] == "none" else f"{k}<{self.ty(t['t'])}>"
        return self.named_def(t)

    def named_def(self, t):
        import json
        key = json.dumps(t, sort_keys=True)
        for kk, n in self.named:
            if kk == key:
                return n
        k = t["k"]
        if k == "record":
            body = ", ".join(f"f{i}: {self.ty(f)}" for i, f in enumerate(t["fs"]))
        elif k == "variant":
            body = ", ".join((f"c{i}" if c["k"] == "none" else f"c{i}({self.ty(c)})") for i, c in enumerate(t["cs"]))
        elif k == "enum":
            body = ", ".join(f"e{i}" for i in range(t["n"]))
        elif k == "flags":
            body = ", ".join(f"b{i}" for i in range(t["n"]))
        else:
            raise ValueError(k)
        name = f"t{len(self.named)}"
        self.defs.append(f"{k} {name} {{ {body} }}")
        self.named.append((key, name))
        return name


def render_world(v, pkg="t:w", iface="i", world="w", docs=False):
    """v: a vector of WorldGrammar.tla: ctor, wrap, role, fkind, dir, t."""
    d = Defs()
    d.resource(0)
    texpr = d.ty(v["t"])
    if v["wrap"] in ("typedef", "world-type"):
        texpr_used = "td"
    else:
        texpr_used = texpr
    params = f"x: {texpr_used}" if v["role"] == "param" else ""
    result = f" -> {texpr_used}" if v["role"] == "result" else ""
    fk = v["fkind"]
    is_async = "async " if fk.startswith("async") else ""
    doc = "  /// does something { with } braces // and slashes\n" if docs else ""
    res_body = ["constructor();" if fk != "ctor" else f"constructor({params});", "plain: func();"]
    free_fn = ""
    if fk in ("method", "async-method"):
        res_body.append(f"m: {is_async}func({params}){result};")
    elif fk == "static":
        res_body.append(f"s: static func({params}){result};")
    elif fk in ("free", "async-free"):
        free_fn = f"{doc}  f: {is_async}func({params}){result};\n"
    named_defs = "".join(f"  {x}\n" for x in d.defs)
    td = f"  type td = {texpr};\n" if v["wrap"] == "typedef" else ""
    res = "  resource r0 {\n" + "".join(f"    {l}\n" for l in res_body) + "  }\n"
    wit = f"package {pkg};\n\n"
    if v["dir"] == "world-func":
        # the function (and for world-type the definitions) live in the world itself
        names = [n for _, n in d.named] + ["r0"]
        if v["wrap"] == "world-type":
            wit += f"interface {iface} {{\n{res}}}\n\nworld {world} {{\n  use {iface}.{{r0}};\n"
            wit += "".join(f"  {x}\n" for x in d.defs)
            wit += f"  type td = {texpr};\n"
        else:
            wit += f"interface {iface} {{\n{res}{named_defs}{td}}}\n\nworld {world} {{\n"
            use = names + (["td"] if v["wrap"] == "typedef" else [])
            wit += f"  use {iface}.{{{', '.join(use)}}};\n"
        wit += f"  import f: {is_async}func({params}){result};\n"
        if v["ctor"] != "borrow":
            wit += f"  export g: {is_async}func({params}){result};\n"
        wit += "}\n"
        return wit
    wit += f"interface {iface} {{\n{res}{named_defs}{td}{free_fn}}}\n\nworld {world} {{\n"
    if v["dir"] in ("import", "both"):
        wit += f"  import {iface};\n"
    if v["dir"] in ("export", "both"):
        wit += f"  export {iface};\n"
    wit += "}\n"
    return wit
