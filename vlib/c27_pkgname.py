"""C27  Distinct packages get distinct generated module names (crates/core/src/path.rs)."""
import os
import re
import time

from .core import *
from .small import *

PID = "C27"


def _sepfold(v):
    """Defect class of a colliding pair: versions equal after folding [.+-] and case (the
    replace()/to_snake_case chain in path.rs).  Used only to *name* the witness."""
    v = re.sub(r'(?<=[a-z0-9])(?=[A-Z])', '_', v)
    return re.sub(r'[.+\-_]+', '_', v).lower()


def _key(pkgs, mods):
    # pkgs: list of (name, ver)
    by = {}
    for (n, v), m in zip(pkgs, mods):
        by.setdefault(m, []).append((n, v))
    parts = []
    for m, ps in sorted(by.items()):
        if len(ps) < 2:
            continue
        names = {n for n, _ in ps}
        folds = {_sepfold(v) for _, v in ps}
        if len(names) == 1 and len(folds) == 1:
            parts.append("sepfold")
        else:
            parts.append("other:" + "|".join(f"{n}@{v}" for n, v in sorted(ps)))
    return "collision:" + ",".join(sorted(set(parts)))


def run(tier):
    t0 = time.time()
    wd = workdir(PID)
    out = Outcome(PID)
    exe = small_exe()
    # 1. the design: does the mangling separate all packages?  (TLC stops at the first pair)
    mc = tlc("gen/MC_PkgModuleName", "gen/MC_PkgModuleName", workers=8, wd=wd)
    # 2. GEN: every pair of the universe with the model's names and verdict -> real code
    g = tlc("gen/MC_PkgModuleName", "gen/MC_PkgModuleName_gen", workers=8, wd=wd, xmx="10g", timeout=1800)
    vp = os.path.join(wd, "vecs.ndjson")
    write_ndjson(vp, g.vecs)
    rp = os.path.join(wd, "replay.ndjson")
    sh([exe, "pkgname", "replay", vp, rp], check=True)
    rows = read_ndjson(rp)
    done = rows[-1]
    if done.get("done") != len(g.vecs):
        raise ToolError("pkgname replay did not finish")
    if done["invalid"] > len(g.vecs) // 2:
        raise ToolError(f"wit-parser rejected {done['invalid']} of {len(g.vecs)} package sets: alphabet is wrong")
    model_collisions = sum(1 for v in g.vecs if not v["injective"])
    real_collisions = 0
    sample_collision = None
    for r in rows[:-1]:
        if r.get("mismatch"):
            # spec and code disagree on a *name*: the transcription (or the code) changed
            out.violation("binding:" + "|".join(f"{n}@{v}" for n, v in r["pkgs"]),
                          f"name_package_module returned {r['got']}, the model expects {r['expected']}", r)
        elif r.get("collision"):
            real_collisions += 1
            sample_collision = sample_collision or r
            out.violation(_key([tuple(p) for p in r["pkgs"]], r["got"]),
                          f"packages {r['pkgs']} all map to module name(s) {r['got']}", r)
    if mc.violated and real_collisions == 0 and done["invalid"] == 0:
        raise ToolError("model reports a collision that the real code does not show and no mismatch was reported")
    # 3. VAL: seeded random sets of 2..4 packages, names re-derived and judged by the spec
    n_obs = 3000 if tier == "quick" else 40000
    op = os.path.join(wd, "obs.ndjson")
    sh([exe, "pkgname", "record", str(seed()), str(n_obs), op], check=True)
    t = tlc("gen/Obs_PkgModuleName", "gen/Obs_PkgModuleName", workers=1, wd=wd, env={"OBS": op}, xmx="4g", timeout=1800)
    for o in t.tagged.get("MISMATCH", [])[:3]:
        pk = [("".join(p["name"]), "".join(p["ver"])) for p in o["pkgs"]]
        out.violation("binding:" + "|".join(f"{n}@{v}" for n, v in pk),
                      "observed module names differ from the spec's: " + str(["".join(p["mod"]) for p in o["pkgs"]]), o)
    val_collisions = t.tagged.get("COLLISION", [])
    for o in val_collisions:
        pk = [("".join(p["name"]), "".join(p["ver"])) for p in o["pkgs"]]
        mods = ["".join(p["mod"]) for p in o["pkgs"]]
        out.violation(_key(pk, mods), f"packages {pk} map to {mods}", o)
    rc, unlisted = out.finish()
    write_evidence(PID, tier, "model_checking", {
        "states": mc.distinct + g.distinct + t.distinct,
        "transitions": mc.generated + g.generated + t.generated,
        "traces_validated_against_impl": n_obs,
        "samples": [g.vecs[0], sample_collision or g.vecs[-1]],
        "exhaustive": True,
        "evaluations": len(g.vecs) + n_obs,
        "distinct_nontrivial": sum(1 for v in g.vecs if len({''.join(p['name']) for p in v['pkgs']}) == 1),
        "rule": "every 2-subset of 3 names x (unversioned + 4 cores x 10 pre-release x 5 build-metadata forms) is "
                "named by the TLA+ transcription and by the real name_package_module; non-trivial = both packages "
                "have the same name (so versions are mangled in)",
        "model_collisions": model_collisions,
        "real_collisions": real_collisions,
        "invalid_sets_skipped": done["invalid"],
        "val": {"observations": n_obs, "collisions": len(val_collisions)},
    }, ["TLC", "wit-parser accepts exactly the valid package names/versions (invalid sets are skipped)"],
        time.time() - t0, unlisted)
    return rc


def selftest():
    wd = workdir(PID + "_self")
    exe = small_exe()
    op = os.path.join(wd, "obs.ndjson")
    sh([exe, "pkgname", "record", "5", "50", op], check=True)
    rows = read_ndjson(op)
    rows[7]["pkgs"][0]["mod"].append("z")
    write_ndjson(op, rows)
    t = tlc("gen/Obs_PkgModuleName", "gen/Obs_PkgModuleName", workers=1, wd=wd, env={"OBS": op})
    if not t.tagged.get("MISMATCH"):
        log("selftest C27: corrupted observation accepted")
        return 2
    log("selftest C27 ok")
    return 0
