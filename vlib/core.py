"""Shared machinery for the /verif checks: TLC runner, cargo builds, evidence, findings.

Exit-code contract (see DESIGN.md 2.3):
  0  property held on everything explored (KNOWN-FINDING lines allowed)
  1  VIOLATION property=<id> replay=<path> printed
  2  tool error / vacuity / timeout / extraction miss
"""
import json
import os
import re
import shutil
import subprocess
import sys
import time

VERIF = os.path.dirname(os.path.dirname(os.path.abspath(__file__)))
REPO = os.environ.get("VERIF_REPO", "/repo")
HARNESS = os.path.join(VERIF, "harness")
SPECS = os.path.join(VERIF, "specs")
WORK = os.path.join(VERIF, "work")
GUARD = "bytecodealliance_wit_bindgen_verif"
TLA_CP = "/opt/veriftools/tla/tla2tools.jar:/opt/veriftools/tla/CommunityModules-deps.jar"


class ToolError(Exception):
    pass


def log(*a):
    print(*a, file=sys.stderr, flush=True)


def seed():
    try:
        return int(os.environ.get("VERIF_SEED", "1"))
    except ValueError:
        return 1


def workdir(pid, clean=True):
    d = os.path.join(WORK, pid)
    if clean and os.path.isdir(d):
        shutil.rmtree(d, ignore_errors=True)
    os.makedirs(d, exist_ok=True)
    return d


# ----------------------------------------------------------------------------------------------
# cargo

def cargo_env():
    env = dict(os.environ)
    env["CARGO_NET_OFFLINE"] = "true"
    env.setdefault("CARGO_TERM_COLOR", "never")
    return env


def cargo_build(package, features=None, bins=None, release=True, extra=None, timeout=3600):
    """Build a harness package (path-depends on /repo, so rebuilds from the working tree)."""
    cmd = ["cargo", "build", "--offline", "-p", package]
    if release:
        cmd.append("--release")
    if features:
        cmd += ["--features", ",".join(features)]
    if bins:
        for b in bins:
            cmd += ["--bin", b]
    if extra:
        cmd += extra
    t0 = time.time()
    p = subprocess.run(cmd, cwd=HARNESS, env=cargo_env(), stdout=subprocess.PIPE,
                       stderr=subprocess.STDOUT, text=True, timeout=timeout)
    if p.returncode != 0:
        log(p.stdout[-6000:])
        raise ToolError(f"cargo build -p {package} failed (rc={p.returncode})")
    log(f"[build] {package} {features or ''} {time.time()-t0:.1f}s")
    return os.path.join(HARNESS, "target", "release" if release else "debug")


def cli_exe():
    """The real wit-bindgen CLI, rebuilt from /repo's working tree (profile `cli`)."""
    cmd = ["cargo", "build", "--offline", "--profile", "cli", "-p", "cli"]
    t0 = time.time()
    p = subprocess.run(cmd, cwd=HARNESS, env=cargo_env(), stdout=subprocess.PIPE, stderr=subprocess.STDOUT, text=True, timeout=3600)
    if p.returncode != 0:
        log(p.stdout[-6000:])
        raise ToolError("building the wit-bindgen CLI failed")
    log(f"[build] cli {time.time()-t0:.1f}s")
    return os.path.join(HARNESS, "target", "cli", "wit-bindgen")


def sh(cmd, cwd=None, env=None, timeout=3600, input=None, check=False):
    p = subprocess.run(cmd, cwd=cwd, env=env, stdout=subprocess.PIPE, stderr=subprocess.PIPE,
                       text=True, timeout=timeout, input=input)
    if check and p.returncode != 0:
        log(p.stdout[-3000:])
        log(p.stderr[-3000:])
        raise ToolError(f"command failed rc={p.returncode}: {' '.join(map(str, cmd))[:300]}")
    return p


# ----------------------------------------------------------------------------------------------
# TLC

class TlcResult:
    def __init__(self):
        self.rc = None
        self.out = ""
        self.generated = 0
        self.distinct = 0
        self.depth = 0
        self.vecs = []          # parsed JSON objects from <<"VEC", "...">> lines
        self.tagged = {}        # other tags -> list of parsed payloads
        self.violated = None    # name of violated invariant/property, if any
        self.error = None       # other TLC error text
        self.coverage = {}      # action name -> (distinct, total)
        self.wall = 0.0
        self.trace = []         # counterexample states (raw text) if any


_VEC_RE = re.compile(r'^<<"([A-Z_]+)", (".*")>>(?:  (?:TRUE|FALSE))?$')


def _canon_key(v):
    """text of a JSON value in which object keys and the elements of every array are sorted (a run-independent sort key)"""
    if isinstance(v, dict):
        return "{" + ",".join(json.dumps(k) + ":" + _canon_key(v[k]) for k in sorted(v)) + "}"
    if isinstance(v, list):
        return "[" + ",".join(sorted(_canon_key(x) for x in v)) + "]"
    return json.dumps(v)


def _parse_tlc_output(res, out, want_tags=("VEC",)):
    try:
        _parse_tlc_output_(res, out)
    finally:
        # TLC's workers print in no particular order: everything downstream (numbering of worlds, sampling by index, which
        # violation is reported first) must not depend on it
        # (and not on the order in which TLC prints a *set*: TLC orders strings by the number they were interned under, and
        # strings built at run time, "ctor:" \o c, are interned by whichever worker gets there first -- so the sort key reads
        # every JSON array as a multiset; the literal text only breaks ties between vectors that are equal up to that)
        res.vecs.sort(key=lambda v: (_canon_key(v), json.dumps(v, sort_keys=True)))


def _parse_tlc_output_(res, out):
    lines = out.splitlines()
    for ln in lines:
        m = _VEC_RE.match(ln)
        if m:
            tag = m.group(1)
            try:
                payload = json.loads(json.loads(m.group(2)))
            except Exception as e:  # pragma: no cover
                raise ToolError(f"cannot parse TLC {tag} line: {ln[:200]} ({e})")
            if tag == "VEC":
                res.vecs.append(payload)
            else:
                res.tagged.setdefault(tag, []).append(payload)
            continue
        m = re.search(r'(\d+) states generated, (\d+) distinct states found', ln)
        if m:
            res.generated = int(m.group(1))
            res.distinct = int(m.group(2))
        m = re.search(r'depth of the complete state graph search is (\d+)', ln)
        if m:
            res.depth = int(m.group(1))
        m = re.match(r'Error: Invariant (\S+) is violated', ln)
        if m:
            res.violated = m.group(1)
        m = re.match(r'Error: Action property (\S+) is violated', ln)
        if m:
            res.violated = m.group(1)
        if ln.startswith("Error: Postcondition"):
            res.violated = "POSTCONDITION"
        if ln.startswith("Error: Temporal properties were violated"):
            res.violated = "<temporal>"
        m = re.match(r'<(\w+) line \d+, col \d+ to line \d+, col \d+ of module (\w+)>: (\d+):(\d+)', ln)
        if m:
            res.coverage[m.group(1)] = (int(m.group(3)), int(m.group(4)))
    if res.violated is None:
        errs = [l for l in lines if l.startswith("Error:")]
        if errs:
            i = lines.index(errs[0])
            res.error = "\n".join(lines[i:i + 12])
    if res.violated:
        # keep the counterexample text
        try:
            i = next(k for k, l in enumerate(lines) if l.startswith("Error: "))
            res.trace = lines[i:i + 400]
        except StopIteration:
            pass


def tlc(spec, cfg=None, workers=4, wd=None, env=None, timeout=1200, simulate=None, depth=None,
        coverage=False, deadlock=False, xmx="4g", dfs=False, seed_=None, extra=None,
        expect_violation=False):
    """Run TLC on SPECS/<spec>.tla with SPECS/<cfg>.cfg. Returns TlcResult.

    A violated invariant is returned in .violated (the caller decides what that means);
    any other TLC error raises ToolError.
    """
    spec_path = spec if os.path.isabs(spec) else os.path.join(SPECS, spec)
    if not spec_path.endswith(".tla"):
        spec_path += ".tla"
    cfg_path = cfg or spec_path[:-4] + ".cfg"
    if not os.path.isabs(cfg_path):
        cfg_path = os.path.join(SPECS, cfg_path)
    if not cfg_path.endswith(".cfg"):
        cfg_path += ".cfg"
    sdir = os.path.dirname(spec_path)
    wd = wd or workdir("tlc_" + os.path.basename(spec_path)[:-4], clean=False)
    meta = os.path.join(wd, "meta_%d_%d" % (os.getpid(), int(time.time() * 1000) % 100000))
    jopts = ["-XX:+UseParallelGC", "-Xss1g", f"-Xmx{xmx}"]
    if dfs:
        jopts.append("-Dtlc2.tool.queue.IStateQueue=StateDeque")
    # module search path: the spec's directory and all sibling spec dirs
    libs = [sdir] + [os.path.join(SPECS, d) for d in sorted(os.listdir(SPECS))
                     if os.path.isdir(os.path.join(SPECS, d))]
    jopts.append("-DTLA-Library=" + ":".join(dict.fromkeys(libs)))
    cmd = ["timeout", str(timeout), "java"] + jopts + ["-cp", TLA_CP, "tlc2.TLC",
           "-workers", str(workers), "-metadir", meta, "-cleanup", "-noGenerateSpecTE",
           "-config", cfg_path]
    if not deadlock:
        cmd.append("-deadlock")  # -deadlock DISABLES deadlock checking
    if coverage:
        cmd += ["-coverage", "1"]
    if simulate:
        cmd += ["-simulate", f"num={simulate}"]
        if depth:
            cmd += ["-depth", str(depth)]
        if seed_ is not None:
            cmd += ["-seed", str(seed_)]
    if extra:
        cmd += extra
    cmd.append(spec_path)
    e = dict(os.environ)
    e.pop("JAVA_TOOL_OPTIONS", None)
    if env:
        e.update({k: str(v) for k, v in env.items()})
    t0 = time.time()
    p = subprocess.run(cmd, cwd=wd, env=e, stdout=subprocess.PIPE, stderr=subprocess.STDOUT, text=True)
    res = TlcResult()
    res.rc = p.returncode
    res.out = p.stdout
    res.wall = time.time() - t0
    shutil.rmtree(meta, ignore_errors=True)
    if p.returncode == 124:
        res.error = "timeout"
        _parse_tlc_output(res, p.stdout)
        return res
    _parse_tlc_output(res, p.stdout)
    if res.error and not res.violated:
        log(p.stdout[-4000:])
        raise ToolError(f"TLC error in {os.path.basename(spec_path)}: {res.error[:600]}")
    if res.violated and not expect_violation:
        pass
    if p.returncode not in (0, 12, 13) and not res.violated:
        log(p.stdout[-4000:])
        raise ToolError(f"TLC rc={p.returncode} on {os.path.basename(spec_path)}")
    log(f"[tlc] {os.path.basename(spec_path)} cfg={os.path.basename(cfg_path)} "
        f"gen={res.generated} distinct={res.distinct} vecs={len(res.vecs)} "
        f"violated={res.violated} {res.wall:.1f}s")
    return res


def sany(spec):
    spec_path = spec if os.path.isabs(spec) else os.path.join(SPECS, spec)
    p = sh(["java", "-cp", TLA_CP, "tla2sany.SANY", spec_path], cwd=os.path.dirname(spec_path))
    return p.returncode == 0 and "Semantic errors" not in p.stdout, p.stdout


# ----------------------------------------------------------------------------------------------
# findings

def load_findings():
    path = os.path.join(VERIF, "known-findings.json")
    if not os.path.exists(path):
        return []
    with open(path) as f:
        return json.load(f).get("findings", [])


class Outcome:
    """Collects violations for one property run and maps them onto known findings."""

    def __init__(self, pid):
        self.pid = pid
        self.violations = []   # (key, description, replay_obj)
        self.findings = [f for f in load_findings() if f["property"] == pid]

    def violation(self, key, desc, replay):
        self.violations.append((key, desc, replay))

    def _match(self, key):
        for f in self.findings:
            if f.get("status") != "open":
                continue
            pat = f.get("key_regex")
            if pat and re.fullmatch(pat, key):
                return f
            if f.get("key") == key:
                return f
        return None

    def finish(self):
        """Print KNOWN-FINDING / VIOLATION lines; return (exit code, n_unlisted)."""
        seen_known = {}
        unlisted = []
        for key, desc, replay in sorted(self.violations, key=lambda v: v[0]):
            f = self._match(key)
            if f is not None:
                seen_known.setdefault(f["id"], (f, key, desc))
            else:
                unlisted.append((key, desc, replay))
        for fid, (f, key, desc) in seen_known.items():
            print(f"KNOWN-FINDING: property={self.pid} {f['id']}: {f['what']} (witness: {key})")
        rc = 0
        if unlisted:
            os.makedirs(os.path.join(VERIF, "replay"), exist_ok=True)
            shown = set()
            for n, (key, desc, replay) in enumerate(unlisted):
                if n >= 5:
                    break
                safe = re.sub(r'[^A-Za-z0-9_.-]', '_', key)[:80]
                path = os.path.join(VERIF, "replay", f"{self.pid}-{safe}.json")
                with open(path, "w") as fh:
                    json.dump({"property": self.pid, "key": key, "description": desc,
                               "replay": replay}, fh, indent=1)
                if path not in shown:
                    print(f"VIOLATION property={self.pid} replay={path}")
                    log(f"  {key}: {desc}"[:2000])
                    shown.add(path)
            rc = 1
        sys.stdout.flush()
        return rc, len(unlisted)


# ----------------------------------------------------------------------------------------------
# evidence

def write_evidence(pid, tier, level, coverage, assumptions, wall, violations=0):
    os.makedirs(os.path.join(VERIF, "evidence"), exist_ok=True)
    ev = {
        "property_id": pid,
        "tier": tier,
        "seed": seed(),
        "level": level,
        "coverage": coverage,
        "assumptions": assumptions,
        "wall_s": round(wall, 2),
        "violations": violations,
    }
    path = os.path.join(VERIF, "evidence", f"{pid}.json")
    tmp = path + ".tmp"
    with open(tmp, "w") as f:
        json.dump(ev, f, indent=1, sort_keys=False)
        f.write("\n")
    os.replace(tmp, path)
    return path


def write_ndjson(path, rows):
    with open(path, "w") as f:
        for r in rows:
            f.write(json.dumps(r, separators=(",", ":")))
            f.write("\n")


def read_ndjson(path):
    rows = []
    with open(path) as f:
        for ln in f:
            ln = ln.strip()
            if ln:
                rows.append(json.loads(ln))
    return rows
