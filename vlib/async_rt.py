"""C18-C23: the Rust async guest runtime, trace-validated against specs/rt (CMHost + Trace_Async).

One harness run serves the six properties: the real runtime is executed natively against the mock
host under the scenario families of async_scen.py, with the host's choices enumerated depth-first
(quick: bounded per scenario) or drawn at random (thorough adds seeds); TLC validates every
recorded event sequence and evaluates the property monitors at every step.  A violation is
attributed to the property named in the monitor's message."""
import os
import re
import time

from .core import *
from .async_scen import families

PROP_OF_MONITOR = re.compile(r"\((C\d\d)(?:/C\d\d)*\)")
ALL = ["C18", "C19", "C20", "C21", "C22", "C23"]

# monitors of Trace_Async.tla per property (used for the evidence text and for attribution of
# host traps, which carry no property tag)
TRAP_PROPS = {
    "member of a waitable set": "C18",
    "still has members": "C18",
    "copy is still in progress": "C18",
    "writable future end dropped": "C20",
    "not idle": "C19",
    "without a copy in progress": "C18",
    "subtask.drop before": "C21",
    "subtask.cancel": "C21",
    "lost wakeup": "C23",
    "can never return": "C23",
}


def _exe(features):
    d = cargo_build("async-mock", features=features or None)
    # feature builds share the target dir: copy the binary aside
    src = os.path.join(d, "async-mock")
    dst = os.path.join(WORK, "async-mock-" + ("-".join(features) if features else "default"))
    os.makedirs(WORK, exist_ok=True)
    import shutil
    shutil.copy2(src, dst)
    return dst


def classify(msg, event=None):
    m = PROP_OF_MONITOR.search(msg)
    if m:
        return m.group(1)
    evn = (event or {}).get("ev", "") if isinstance(event, dict) else ""
    if "member of a waitable set" in msg or "still has members" in msg:
        return "C18"
    if evn.startswith("future."):
        return "C20"
    if evn.startswith("stream."):
        return "C19"
    if evn.startswith("subtask.") or evn == "call":
        return "C21"
    for k, p in TRAP_PROPS.items():
        if k in msg:
            return p
    if "panicked" in msg:
        return "C22"
    return "C18"


_CACHE = {}


def run_all(tier):
    """Runs harness + TLC once per (tier, process); returns dict with findings per property."""
    if tier in _CACHE:
        return _CACHE[tier]
    t0 = time.time()
    wd = workdir("ASYNC")
    scen = families()
    by_feature = {}
    for s in scen:
        by_feature.setdefault(s.get("feature", ""), []).append(s)
    results = {"violations": [], "events": 0, "runs": 0, "states": 0, "scenarios": len(scen), "truncated": 0, "samples": [], "tags": {}, "crashes": []}
    max_dfs = 300 if tier == "quick" else 3000
    for feat, scs in sorted(by_feature.items()):
        exe = _exe([feat] if feat else [])
        sp = os.path.join(wd, f"scen_{feat or 'default'}.ndjson")
        write_ndjson(sp, scs)
        passes = [("dfs", max_dfs, 0)]
        passes.append(("random", 20 if tier == "quick" else 300, seed()))
        for mode, mx, sd in passes:
            tp = os.path.join(wd, f"trace_{feat or 'default'}_{mode}.ndjson")
            p = sh([exe, "run", sp, tp, "--mode", mode, "--max", str(mx), "--seed", str(sd)], timeout=3000)
            if p.returncode < 0 or p.returncode in (101, 134):
                # the process was killed by a signal / aborted: a panic that cannot unwind or memory corruption inside the runtime
                # under test (the harness itself catches ordinary panics per scenario).  Nothing of this pass can be judged.
                results["crashes"].append({"feature": feat, "mode": mode, "rc": p.returncode, "stderr": p.stderr[-600:]})
                continue
            if p.returncode not in (0, 3):
                raise ToolError(f"async-mock failed (rc={p.returncode}) on feature set {feat!r} mode {mode}: {p.stderr[-400:]}")
            summary = json.loads(open(tp).readlines()[-1])
            results["runs"] += summary["runs"]
            results["truncated"] += summary["truncated"]
            nev = 0
            for ln in open(tp):
                nev += 1
                if '"DEADLOCK"' in ln:
                    results["scenario_deadlocks"] = results.get("scenario_deadlocks", 0) + 1
            results["events"] += nev
            t = tlc("rt/Trace_Async", "rt/Trace_Async", workers=1, wd=wd, env={"TRACE": tp}, dfs=True, xmx="12g", timeout=3000)
            results["states"] += t.distinct
            for tag in ("BREACH", "HOSTTRAP", "DRIFT"):
                for o in t.tagged.get(tag, []):
                    results["violations"].append({"tag": tag, "feature": feat, "mode": mode, "trace": tp, **o})
            if t.violated and not any(t.tagged.get(k) for k in ("BREACH", "HOSTTRAP", "DRIFT")):
                raise ToolError(f"Trace_Async rejected a trace without a diagnosis: {t.violated} {t.tagged}")
            if not results["samples"]:
                rows = [json.loads(l) for l in open(tp).readlines()[:400]]
                first = []
                for r in rows[1:]:
                    if r["ev"] == "reset":
                        break
                    if r["ev"] not in ("decide", "ctx.set"):
                        first.append(r)
                results["samples"] = [first[:60]]
    for s in scen:
        k = s["tag"].split("/")[0]
        results["tags"][k] = results["tags"].get(k, 0) + 1
    results["wall"] = time.time() - t0
    _CACHE[tier] = results
    return results


PROP_TEXT = {
    "C18": "registration / join / leave-before-cancel-or-drop / deliver-exactly-once / no dangling registration monitors",
    "C19": "stream value accounting: counts = host transfers, in-order prefix, untransferred values returned, lowering ledger balanced",
    "C20": "future value accounting and outcome reporting; writer never stranded (host trap rules); default value on drop",
    "C21": "async import call: params freed once after start, own released iff cancelled before start, results lifted once, handle dropped once",
    "C22": "executor answers (exit/wait/yield), context slot discipline, task state and destructors released exactly once, block_on",
    "C23": "cross-task wakeups: one item per sleep, coalescing, wakeup read cancelled (after leaving the set) before polling / destruction",
}


def run_property(pid, tier):
    t0 = time.time()
    res = run_all(tier)
    out = Outcome(pid)
    for c in res["crashes"]:
        # no property of the runtime can be judged on a run in which it brings the process down
        out.violation(f"crash:{c['feature'] or 'default'}:{c['mode']}", f"the runtime aborted the test process (rc={c['rc']}) while the scenario families of feature set "
                      f"{c['feature']!r} ran ({c['mode']}): {c['stderr'][-300:]}", c)
    for v in res["violations"]:
        if v["tag"] == "DRIFT":
            raise ToolError(f"mock host and CMHost.tla disagree about a trap: {v}")
        msg = v.get("what", "")
        if classify(msg, v.get("event")) != pid:
            continue
        key = f"{v['tag'].lower()}:{msg[:120]}"
        out.violation(key, f"{msg} -- at event #{v.get('at')} {json.dumps(v.get('event'))[:300]} (feature {v['feature']!r}, {v['mode']})", v)
    rc, unlisted = out.finish()
    write_evidence(pid, tier, "model_checking", {
        "states": res["states"],
        "transitions": res["states"],
        "traces_validated_against_impl": res["runs"],
        "samples": res["samples"],
        "exhaustive": res["truncated"] == 0,
        "evaluations": res["events"],
        "distinct_nontrivial": len(res["tags"]),
        "rule": "scenario families of vlib/async_scen.py (user scripts over real StreamWriter/Reader, FutureWriter/Reader, Subtask, "
                "start_task/callback/block_on) x host schedules enumerated depth-first by the mock host's decision points "
                f"(bounded per scenario; {res['truncated']} scenarios hit the bound) plus seeded random schedules; every run is one "
                "trace validated by TLC against CMHost.tla + the monitors of Trace_Async.tla; non-trivial = distinct scenario families",
        "monitors": PROP_TEXT[pid],
        "scenarios": res["scenarios"],
        "trace_events": res["events"],
        "user_program_deadlocks_not_judged": res.get("scenario_deadlocks", 0),
        "shared_run_wall_s": round(res["wall"], 1),
    }, ["TLC", "the mock host harness/async-mock/src/host.rs (itself validated against CMHost.tla on every trace: drift is a tool error)",
        "the transcription of the Component Model async rules in specs/rt/CMHost.tla",
        "tracer hook events (guarded by cfg bytecodealliance_wit_bindgen_verif)"], time.time() - t0, unlisted)
    return rc


def selftest(pid):
    """The binding must be able to fail: (1) delete the `join(w, 0)` before a cancel, (2) change a
    reported count, (3) delete a host.transfer event -- each corrupted trace must be rejected."""
    wd = workdir("ASYNC_self")
    exe = _exe([])
    scen = [s for s in families() if s["tag"] in ("swrite-yield-cancel/tracked", "swrite/u8")]
    sp = os.path.join(wd, "s.ndjson")
    write_ndjson(sp, scen)
    tp = os.path.join(wd, "t.ndjson")
    sh([exe, "run", sp, tp, "--mode", "dfs", "--max", "40"], check=True)
    rows = read_ndjson(tp)

    def rejected(rows2, name):
        p2 = os.path.join(wd, f"t_{name}.ndjson")
        write_ndjson(p2, rows2)
        t = tlc("rt/Trace_Async", "rt/Trace_Async", workers=1, wd=wd, env={"TRACE": p2}, dfs=True)
        return bool(t.tagged.get("BREACH") or t.tagged.get("HOSTTRAP") or t.tagged.get("DRIFT"))

    ok = True
    # (1) drop the join(w,0) that precedes a cancel
    k = next(i for i, r in enumerate(rows) if r["ev"] == "stream.cancel-write")
    j = max(i for i in range(k) if rows[i]["ev"] == "join" and rows[i]["s"] == 0)
    ok &= rejected(rows[:j] + rows[j + 1:], "nojoin")
    # (2) the user is told a different count
    k = next(i for i, r in enumerate(rows) if r["ev"] == "user.result" and r["r"].get("res") == "complete" and r["r"]["n"] > 0)
    r2 = json.loads(json.dumps(rows))
    r2[k]["r"]["n"] -= 1
    ok &= rejected(r2, "count")
    # (3) a transfer the host made disappears
    k = next(i for i, r in enumerate(rows) if r["ev"] == "host.transfer" and r["k"] > 0 and "during" in r)
    ok &= rejected(rows[:k] + rows[k + 1:], "notransfer")
    if not ok:
        log(f"selftest {pid}: a corrupted trace was accepted")
        return 2
    log(f"selftest {pid} ok")
    return 0
