"""C15  Binding generation is deterministic."""
import hashlib
import os
import shutil
import time

from .core import *
from .genprobe import *

PID = "C15"


def wide_world(n_ifaces, n_types, seedv):
    """a world with many interfaces / types / functions so that hash-map iteration order matters"""
    out = ["package t:wide;\n"]
    for i in range(n_ifaces):
        out.append(f"interface iface{i} {{\n")
        for t in range(n_types):
            out.append(f"  record rec{i}x{t} {{ a: u32, b: string, c: list<u8> }}\n")
            out.append(f"  variant var{i}x{t} {{ x(rec{i}x{t}), y(string), z }}\n")
            out.append(f"  enum en{i}x{t} {{ p, q, r }}\n")
        out.append(f"  resource res{i} {{ constructor(); m{i}: func(a: rec{i}x0) -> var{i}x0; s{i}: static func() -> en{i}x0; }}\n")
        for t in range(n_types):
            out.append(f"  f{i}x{t}: func(a: rec{i}x{t}, b: list<var{i}x{t}>) -> result<en{i}x{t}, string>;\n")
        out.append(f"  g{i}: func(s: stream<u8>, f: future<string>) -> future<u32>;\n")
        out.append("}\n")
    out.append("world w {\n")
    for i in range(n_ifaces):
        out.append(f"  import iface{i};\n")
        if (i + seedv) % 2 == 0:
            out.append(f"  export iface{i};\n")
    out.append("  export run: func() -> string;\n}\n")
    return "".join(out)


def _hash_tree(d):
    rows = []
    for root, _, files in os.walk(d):
        for f in files:
            p = os.path.join(root, f)
            rows.append([os.path.relpath(p, d), hashlib.sha256(open(p, "rb").read()).hexdigest()[:16]])
    return sorted(rows)


def run(tier):
    t0 = time.time()
    wd = workdir(PID)
    out = Outcome(PID)
    cli = cli_exe()
    k = 3 if tier == "quick" else 8
    g, worlds = grammar_worlds(wd, full=False, k=0)
    step = 12 if tier == "quick" else 2
    worlds = worlds[::step]
    wdir = os.path.join(wd, "worlds")
    paths = write_worlds(worlds, wdir)
    for n, (a, b) in enumerate([(6, 3), (12, 2)] if tier == "quick" else [(6, 3), (12, 2), (20, 4), (3, 12)]):
        os.makedirs(os.path.join(wdir, f"wide{n}"), exist_ok=True)
        p = os.path.join(wdir, f"wide{n}", "w.wit")
        open(p, "w").write(wide_world(a, b, n))
        paths.append(p)
    inputs = paths + corpus_files()
    feats = wit_features(inputs)
    units = []
    for lang in BACKENDS:
        excl, _ = excluded_features(lang)
        info = backend_info(lang)
        variants = [("", [])] + ([v for v in info["variants"] if v[0] == "async"] if tier == "quick" else info["variants"])
        for variant, vargs in variants:
            for p in inputs:
                f = feats[p]
                if "error" in f or not supported(lang, f["features"], variant, excl, p, f):
                    continue
                units.append({"lang": lang, "variant": variant, "wit": p, "args": cli_args(lang, vargs)})
    cmds = []
    for ui, u in enumerate(units):
        for r in range(k):
            o = os.path.join(wd, "out", str(ui), str(r))
            os.makedirs(o, exist_ok=True)
            cmds.append((f"{ui}:{r}", [cli, u["lang"], u["wit"], "--out-dir", o, "--all-features"] + u["args"]))
    res = run_commands(cmds, wd, workers=16)
    obs = []
    checks = []
    for ui, u in enumerate(units):
        rcs = [res[f"{ui}:{r}"]["rc"] for r in range(k)]
        if any(rc != 0 for rc in rcs):
            # generation failed (reported by C16 when it is a panic); determinism of failure: all must fail
            if len(set(rc == 0 for rc in rcs)) > 1:
                out.violation(f"flaky:{u['lang']}:{os.path.basename(os.path.dirname(u['wit']))}", f"generation sometimes fails: exit codes {rcs}", u)
            continue
        trees = [_hash_tree(os.path.join(wd, "out", str(ui), str(r))) for r in range(k)]
        differing = sorted({n for t in trees for n, h in t if any([n, h] not in t2 for t2 in trees)})
        u["trees"] = trees
        u["differing"] = differing
        checks.append((f"chk:{ui}", [cli, u["lang"], u["wit"], "--out-dir", os.path.join(wd, "out", str(ui), "0"), "--all-features", "--check"] + u["args"]))
    cres = run_commands(checks, wd, workers=16)
    for ui, u in enumerate(units):
        if "trees" not in u:
            continue
        c = cres.get(f"chk:{ui}")
        name = os.path.basename(u["wit"]) if "codegen" in u["wit"] else "gen:" + os.path.basename(os.path.dirname(u["wit"]))
        obs.append({"unit": f"{u['lang']}/{u['variant'] or 'default'}/{name}", "runs": u["trees"],
                    "check": "ok" if c and c["rc"] == 0 else "differs", "differing": u["differing"]})
    shutil.rmtree(os.path.join(wd, "out"), ignore_errors=True)
    op = os.path.join(wd, "obs.ndjson")
    write_ndjson(op, obs)
    t = tlc("gen/Determinism", "gen/Determinism", workers=1, wd=wd, env={"OBS": op}, xmx="6g", extra=["-continue"])
    for o in t.tagged.get("NONDET", []):
        lang = o["unit"].split("/")[0]
        files = sorted({re.sub(r"[0-9]+", "N", os.path.basename(f)) for f in o["differing"]})
        key = (f"nondet:{lang}:" + ",".join(files)[:120]) if o["differing"] else f"check-after-generate:{lang}"
        out.violation(key, f"{o['unit']}: independent processes produced different bytes for {o['differing'][:6]} (--check after generation: {o['check']})", o)
    rc, unlisted = out.finish()
    write_evidence(PID, tier, "exploration", {
        "evaluations": len(cmds) + len(checks),
        "distinct_nontrivial": len(obs),
        "rule": f"each (input, backend, variant) unit is generated by {k} independent processes (fresh hash seeds, ASLR) and then "
                "checked with --check; inputs: tests/codegen corpus, a sample of WorldGrammar.tla worlds and wide worlds with many "
                "interfaces/types; file names and sha256 must agree (judged by Determinism.tla); non-trivial = units whose "
                "generation succeeded",
        "samples": [{"unit": obs[0]["unit"], "runs": obs[0]["runs"][:2]}, {"unit": obs[-1]["unit"]}],
        "units": len(units),
        "processes_per_unit": k,
        "tlc_states": t.distinct,
    }, ["sha256 of file contents", "independent processes differ in hash seeds (std RandomState) and address layout"], time.time() - t0, unlisted)
    return rc


def selftest():
    wd = workdir(PID + "_self")
    op = os.path.join(wd, "obs.ndjson")
    write_ndjson(op, [{"unit": "x", "runs": [[["a", "1"]], [["a", "2"]]], "check": "ok", "differing": ["a"]}])
    t = tlc("gen/Determinism", "gen/Determinism", workers=1, wd=wd, env={"OBS": op})
    if not t.tagged.get("NONDET"):
        log("selftest C15: differing outputs accepted")
        return 2
    log("selftest C15 ok")
    return 0
