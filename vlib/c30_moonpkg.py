"""C30  MoonBit output forms a consistent package graph.

specs/gen/MoonPkgGraph.tla defines the model worlds (a user interface that mentions types of a
non-empty subset of five interfaces with equal last segments, kebab-case names and two versions of
one package; imported, exported or both) and the clauses of the property over an *observation* of
the generator's output (packages, their moon.pkg.json import entries, the `@alias.` qualifiers
their sources use).  TLC enumerates the worlds (MC_MoonPkgGraph, GEN), the real generator runs on
each (default and --async=all), the output is projected to an observation and TLC judges it
(Obs_MoonPkgGraph).  The tests/codegen corpus is observed as well and judged on the clauses that do
not need the model world (Declared, OneAliasPerPackage, NoDuplicateEntries, Exists)."""
import json
import os
import re
import shutil
import time

from .core import *
from .genprobe import *

PID = "C30"
TYPES_BODY = "{ record t { x: u32 } }"


def world_dir(v, d):
    """renders the model world of MC_MoonPkgGraph into directory d (root package a:p, deps/ for the others)"""
    ifs = v["ifaces"]
    os.makedirs(d, exist_ok=True)
    uses, params = [], []
    for u in v["used"]:
        i = ifs[u - 1]
        ref = i["name"] if (i["ns"], i["pkg"]) == ("a", "p") else f"{i['ns']}:{i['pkg']}/{i['name']}" + (f"@{i['ver']}" if i["ver"] else "")
        uses.append(f"  use {ref}.{{t as t{u}}};")
        params.append(f"x{u}: t{u}")
    first = v["used"][0]
    wit = "package a:p;\n\ninterface types " + TYPES_BODY + "\n\ninterface my-api {\n" + "\n".join(uses) + \
          f"\n  f: func({', '.join(params)}) -> t{first};\n  g: func(x: list<t{first}>) -> option<t{v['used'][-1]}>;\n}}\n\nworld w {{\n"
    if v["dir"] in ("import", "both"):
        wit += "  import my-api;\n"
    if v["dir"] in ("export", "both"):
        wit += "  export my-api;\n"
    wit += "}\n"
    open(os.path.join(d, "a.wit"), "w").write(wit)
    for k, i in enumerate(ifs):
        if (i["ns"], i["pkg"]) == ("a", "p"):
            continue
        dd = os.path.join(d, "deps", f"{i['ns']}-{i['pkg']}" + (f"-{i['ver']}" if i["ver"] else ""))
        os.makedirs(dd, exist_ok=True)
        ver = f"@{i['ver']}" if i["ver"] else ""
        open(os.path.join(dd, "x.wit"), "w").write(f"package {i['ns']}:{i['pkg']}{ver};\n\ninterface {i['name']} {TYPES_BODY}\n")
    return d


def strip_code(src):
    """MoonBit source without string literals and comments"""
    src = re.sub(r'"(?:[^"\\\n]|\\.)*"', '""', src)
    src = re.sub(r"#\|[^\n]*", "", src)          # multi-line string lines
    src = re.sub(r"//[^\n]*", "", src)
    return src


def observe(out_dir):
    """(project name, list of package observations)"""
    mod = os.path.join(out_dir, "moon.mod.json")
    if not os.path.exists(mod):
        raise ToolError(f"no moon.mod.json in {out_dir}")
    project = json.load(open(mod))["name"]
    pkgs = []
    for root, _, names in os.walk(out_dir):
        if "moon.pkg.json" not in names:
            continue
        rel = os.path.relpath(root, out_dir)
        try:
            cfg = json.load(open(os.path.join(root, "moon.pkg.json")))
        except Exception as e:
            pkgs.append({"path": rel, "imports": [], "used": [], "invalid_json": str(e)})
            continue
        imports = []
        for e in cfg.get("import", []):
            if isinstance(e, str):
                path, alias = e, e.rsplit("/", 1)[-1]
            else:
                path, alias = e["path"], e.get("alias", e["path"].rsplit("/", 1)[-1])
            ext = not path.startswith(project + "/")
            if not ext:
                path = path[len(project) + 1:]
            imports.append({"path": path, "alias": alias, "ext": ext})
        used = set()
        for n in sorted(names):
            if n.endswith(".mbt"):
                code = strip_code(open(os.path.join(root, n)).read())
                used |= set(re.findall(r"@([A-Za-z_][A-Za-z0-9_\-]*(?:/[A-Za-z0-9_\-]+)*)\.", code))
        pkgs.append({"path": rel, "imports": imports, "used": sorted(used)})
    return project, sorted(pkgs, key=lambda p: p["path"])


def run(tier):
    t0 = time.time()
    wd = workdir(PID)
    out = Outcome(PID)
    cli = cli_exe()
    g = tlc("gen/MC_MoonPkgGraph", "gen/MC_MoonPkgGraph", workers=2, wd=wd)
    if g.violated:
        raise ToolError(f"MC_MoonPkgGraph: {g.violated}")
    variants = [("", [])] + backend_info("moonbit")["variants"]
    units = []
    for k, v in enumerate(g.vecs):
        d = world_dir(v, os.path.join(wd, "worlds", str(k)))
        for vname, vargs in variants:
            units.append({"id": f"model:{k}:{vname or 'default'}", "v": v, "wit": d, "variant": vname, "args": cli_args("moonbit", vargs),
                          "out": os.path.join(wd, "out", f"m{k}-{vname or 'default'}")})
    corpus = corpus_files()
    feats = wit_features(corpus)
    excl, _ = excluded_features("moonbit")
    for i, p in enumerate(corpus):
        f = feats[p]
        for vname, vargs in variants:
            if "error" in f or not supported("moonbit", f["features"], vname, excl, p, f):
                continue
            units.append({"id": f"corpus:{os.path.basename(p)}:{vname or 'default'}", "v": None, "wit": p, "variant": vname,
                          "args": cli_args("moonbit", vargs), "out": os.path.join(wd, "out", f"c{i}-{vname or 'default'}")})
    gen = run_matrix(cli, [{"lang": "moonbit", "wit": u["wit"], "out": u["out"], "args": u["args"]} for u in units], workers=16, wd=wd)
    obs, by_id, failed_model = [], {}, 0
    for u, j in zip(units, gen):
        if j["res"]["status"] != "ok":
            if u["v"] is not None:
                failed_model += 1
                out.violation(f"model-world-not-generated:{u['variant'] or 'default'}", f"the MoonBit generator fails on model world {u['id']}: {j['res']}", {"id": u["id"], "res": j["res"]})
            continue
        _, pkgs = observe(u["out"])
        o = {"id": u["id"], "pkgs": pkgs, "dir": u["v"]["dir"] if u["v"] else "none", "used": u["v"]["used"] if u["v"] else []}
        for p in pkgs:
            if "invalid_json" in p:
                out.violation("invalid-moon-pkg-json", f"{u['id']}: {p['path']}/moon.pkg.json is not valid JSON: {p['invalid_json']}", o)
        obs.append(o)
        by_id[u["id"]] = (u, o)
    op = os.path.join(wd, "obs.ndjson")
    write_ndjson(op, obs)
    t = tlc("gen/Obs_MoonPkgGraph", "gen/Obs_MoonPkgGraph", workers=1, wd=wd, env={"OBS": op}, xmx="4g", extra=["-continue"])
    for m in t.tagged.get("MISMATCH", []):
        u, o = by_id[m["id"]]
        kind = "model" if u["v"] else "corpus:" + os.path.basename(u["wit"])
        out.violation(f"{'+'.join(sorted(m['failing']))}:{kind}:{u['variant'] or 'default'}",
                      f"{m['id']}: the generated package graph violates {sorted(m['failing'])}", {"obs": o, "args": u["args"]})
    shutil.rmtree(os.path.join(wd, "out"), ignore_errors=True)
    rc, unlisted = out.finish()
    write_evidence(PID, tier, "model_checking", {
        "states": g.distinct + t.distinct, "transitions": g.generated + t.generated,
        "traces_validated_against_impl": len(obs),
        "samples": [obs[0], obs[len(obs) // 2]] if obs else [{}],
        "model_worlds": len(g.vecs), "variants": [v for v, _ in variants], "corpus_units": sum(1 for u in units if u["v"] is None),
        "packages_observed": sum(len(o["pkgs"]) for o in obs), "import_entries": sum(len(p["imports"]) for o in obs for p in o["pkgs"]),
        "alias_uses": sum(len(p["used"]) for o in obs for p in o["pkgs"]),
        "spec": "specs/gen/MoonPkgGraph.tla (clauses Declared, OneAliasPerPackage, NoDuplicateEntries, Exists, References), MC_MoonPkgGraph.tla (worlds, "
                "clause independence by ASSUME), Obs_MoonPkgGraph.tla (judgement of observations)",
    }, ["`@alias.` uses are read from the .mbt text after removing string literals and comments (no MoonBit toolchain here)",
        "the References clause applies to the model worlds only; corpus outputs are judged on the other four clauses"], time.time() - t0, unlisted)
    return rc


def selftest():
    wd = workdir(PID + "_self")
    o = {"id": "x", "dir": "import", "used": [1],
         "pkgs": [{"path": "interface/a/p/types", "imports": [], "used": []},
                  {"path": "interface/a/p/my-api", "imports": [{"path": "interface/a/p/types", "alias": "types", "ext": False}], "used": ["types", "ghost"]}]}
    op = os.path.join(wd, "obs.ndjson")
    write_ndjson(op, [o, o])
    t = tlc("gen/Obs_MoonPkgGraph", "gen/Obs_MoonPkgGraph", workers=1, wd=wd, env={"OBS": op})
    if not t.tagged.get("MISMATCH"):
        log("selftest C30: an undeclared alias was accepted")
        return 2
    log("selftest C30 ok")
    return 0
