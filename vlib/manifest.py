#!/usr/bin/env python3
"""Regenerates /verif/MANIFEST.json from the table below (run: python3 -m vlib.manifest)."""
import json
import os

VERIF = os.path.dirname(os.path.dirname(os.path.abspath(__file__)))

# id -> (category, technique, level text, level note, design ref)
CLAIMED = {
    "C26": ("model_checking",
            "TLA+ spec Ns.tla model-checked by TLC; every bounded history replayed on the real Ns; "
            "recorded random histories trace-validated by TLC (Trace_Ns.tla)",
            "TLC explores every history of <=7 calls of the faithful Ns model and checks freshness/conflict "
            "invariants; all 8^5 (thorough 8^6) histories are replayed against the real code with results and "
            "final state compared; 400+ seeded longer histories over a wider alphabet are validated by the spec.",
            "Trusted: TLC, the 60-line replay driver. Names are observed only through the public API.",
            "5 C26"),
    "C25": ("model_checking",
            "TLA+ spec SourceBuf.tla (faithful model + text-level clauses) model-checked by TLC; every bounded "
            "call history replayed on the real Source with full state projection; recorded histories trace-validated",
            "TLC checks content preservation, indentation = line-level brace-nesting reference, literal neutrality and "
            "balanced-restore on every history of <=3 (thorough 4) calls over a whole-line and a line-splitting "
            "fragment alphabet; each history is replayed on the real buffer (text, indent, continuing, comment flag "
            "compared); 600+ random longer histories are validated step by step by the spec.",
            "Trusted: TLC; projection of private fields via public-API probes. Inputs on which the statement is silent "
            "are not generated (listed in evidence.not_generated).",
            "5 C25"),
    "C27": ("model_checking",
            "TLA+ transcription PkgModuleName.tla; TLC enumerates all package pairs of a bounded universe and checks "
            "injectivity; names replayed against the real name_package_module; random sets validated by the spec",
            "TLC enumerates every pair over 3 names x 201 versions (pre-release/build forms with dots, hyphens, case), "
            "decides injectivity on the model, and each pair is run through the real function (names must agree with "
            "the model, collisions are violations); 3000+ random sets of 2-4 packages are re-derived by the spec.",
            "Trusted: TLC; wit-parser's acceptance of package names/versions defines validity.",
            "5 C27"),
    "C34": ("model_checking",
            "TLA+ spec TestConfig.tla; TLC enumerates all files of <=4 (thorough 5) lines over 17 line kinds with the "
            "expected configuration; each replayed through the real parse_test_config under 3 markers x 2 spellings; "
            "random files validated by the spec",
            "The spec defines the configuration as a function of the leading marker block only; TLC checks the spec's own "
            "sanity (only the leading block matters, string form == list form) and emits every bounded file; the real "
            "parser (compiled from /repo/crates/test/src/config.rs) must return the spec's configuration or error.",
            "Trusted: TLC, the toml crate, the rendering of abstract line kinds to concrete text.",
            "5 C34"),
    "C24": ("model_checking",
            "TLA+ spec Realloc.tla (allocator contract + host view) model-checked with a branch-level model of cabi_realloc/"
            "Cleanup; TLC-generated and random request histories executed on the real code over a tracking arena allocator; "
            "every log trace-validated by TLC (Trace_Realloc.tla)",
            "TLC explores all histories of 3 (thorough 4) requests under every well-behaved allocator choice and checks "
            "non-null/aligned/contents-preserved/zero-size/no-overlap and the GlobalAlloc layout contract; the real "
            "cabi_realloc and Cleanup then run those histories (x2 scales) plus 1500+ random ones (align up to 2^16, size up "
            "to 2^20); each entry call, return and underlying alloc/realloc/dealloc is an event the spec must accept.",
            "Trusted: TLC; the arena allocator of harness/rtalloc. cabi_realloc is compiled natively from its source text "
            "extracted at build time (it is cfg'd out on linux-gnu).",
            "5 C24"),
    "C01": ("model_checking",
            "TLA+ transcription of the canonical ABI (CanonABI.tla); TLC enumerates a bounded type x value x pointer-width "
            "universe and emits expected flat values and memory images; an interpreting Bindgen executes the real generator's "
            "instruction streams and compares",
            "The Component Model ABI (alignment, size, flatten, store, lower_flat) is written once in TLA+. TLC evaluates it on "
            "every type of the level-1 (thorough: level-2) closure x 3-8 boundary values x W in {4,8} and checks the spec's own "
            "consistency; each vector is run through abi::lower_flat, lower_to_memory and lift_from_memory (what was lowered and "
            "the spec's image with garbage padding) in both list modes; bytes, core types, pointers/blocks and sizes must agree.",
            "Trusted: TLC, the transcription of the Component Model spec, the 600-line instruction interpreter. Not covered: "
            "types deeper than the bound, string encodings other than UTF-8.",
            "5 C01"),
    "C02": ("model_checking",
            "TLA+ calling-convention spec (CallConv.tla) enumerated by TLC over signatures crossing the 16/4/1 limits; "
            "abi::call executed by the interpreter in 5 (variant, direction, async) combinations with the harness as the "
            "other side, using the spec's encodings",
            "For each of ~570 signatures x widths x value shifts TLC emits core signatures, flat/indirect parameter encodings, "
            "result encodings and task.return parameters; the glue must perform exactly one call with the canonical core "
            "signature, pass/receive the spec's values, free an export's parameter record exactly once with its layout, and "
            "leave nothing on the stack (generator asserts are captured).",
            "Trusted: as C01. wit-parser's wasm_signature is cross-checked against the spec (mismatch = tool error).",
            "5 C02"),
    "C03": ("model_checking",
            "Heap ownership derived from CanonABI.tla (blocks of Store, OwnedHandles, MayOwnHeap); the real cleanup "
            "instruction streams executed after the real lowering; frees/drops compared as multisets",
            "For every C01 vector the real lowering allocates through realloc, then post_return and deallocate_lists[_and_own]"
            "_in_types (direct and indirect operands) are executed: each spec block must be freed once with its size/align, "
            "nothing else, handles dropped exactly in lists-and-own mode, and post-return needed iff the type may own heap.",
            "Trusted: as C01.",
            "5 C03"),
    "C04": ("model_checking",
            "TLA+ spec SlotJoin.tla validates the real abi::cast table and the real flattening of 1000+ variant shapes "
            "(VAL mode): join = canonical join at both widths, casts canonical and lossless on reachable pairs",
            "All 49 class pairs and the reachable-pair set are exhaustive; value-level equality is decided on byte-distinct "
            "patterns, which is complete for compositions of reinterpret/zero-extend/wrap. The same casts are executed inside "
            "C01's variant vectors, and the Rust and C backends' own emitters (perform_cast) are executed natively on every "
            "signature of MC_RustExec whose values contain a joined slot (one variant per pair of core types that can share a slot).",
            "Trusted: TLC; the meaning of primitive Bitcast names. The perform_cast emitters of MoonBit, C#, C++, D and Go are not "
            "executed (no toolchain in the sandbox).",
            "5 C04"),
    "C18": ("model_checking",
            "TLA+ specs CMHost.tla (Component Model async host rules) + Trace_Async.tla (property monitors); the real Rust async "
            "runtime runs natively against a mock host under scripted user programs; host choices enumerated depth-first and at "
            "random; every recorded run is trace-validated by TLC",
            "waitable registration: every rt.register/unregister/deliver/cabiwake hook event and every join/cancel/drop built-in is checked against the monitors RegisteredImpliesJoined, LeaveBeforeCancelOrDrop, DeliverExactlyOnce, NoDanglingRegistration, no re-registration across tasks (scenario families in which a stream read / an import call is polled in one task, handed over and polled in another). ~4000 runs / 700k events per quick run; all monitors are evaluated after every event.",
            "Trusted: TLC; the transcription of the Component Model async rules (CMHost.tla); the mock host (checked against "
            "CMHost.tla on every trace, disagreement = tool error); tracer hook placement. Exhaustive only within the per-scenario "
            "DFS bound; interleavings are limited to the scenario families of vlib/async_scen.py.",
            "5 C18"),
    "C19": ("model_checking",
            "TLA+ specs CMHost.tla (Component Model async host rules) + Trace_Async.tla (property monitors); the real Rust async "
            "runtime runs natively against a mock host under scripted user programs; host choices enumerated depth-first and at "
            "random; every recorded run is trace-validated by TLC",
            "stream value accounting: per operation the host's transfers must be the in-order prefix of the written items, reported counts must equal transferred counts, untransferred values are returned, the lowering ledger (lower/dealloc_lists/lift/drop) balances; reads symmetric; both ends in one component included. ~4000 runs / 700k events per quick run; all monitors are evaluated after every event.",
            "Trusted: TLC; the transcription of the Component Model async rules (CMHost.tla); the mock host (checked against "
            "CMHost.tla on every trace, disagreement = tool error); tracer hook placement. Exhaustive only within the per-scenario "
            "DFS bound; interleavings are limited to the scenario families of vlib/async_scen.py.",
            "5 C19"),
    "C20": ("model_checking",
            "TLA+ specs CMHost.tla (Component Model async host rules) + Trace_Async.tla (property monitors); the real Rust async "
            "runtime runs natively against a mock host under scripted user programs; host choices enumerated depth-first and at "
            "random; every recorded run is trace-validated by TLC",
            "future accounting: reported outcomes (written / reader-dropped / cancelled / already-sent / value) must match what the host did; the host's rule that a writable future end is only dropped when done makes a stranded writer a trap; default value write on drop is exercised. ~4000 runs / 700k events per quick run; all monitors are evaluated after every event.",
            "Trusted: TLC; the transcription of the Component Model async rules (CMHost.tla); the mock host (checked against "
            "CMHost.tla on every trace, disagreement = tool error); tracer hook placement. Exhaustive only within the per-scenario "
            "DFS bound; interleavings are limited to the scenario families of vlib/async_scen.py.",
            "5 C20"),
    "C21": ("model_checking",
            "TLA+ specs CMHost.tla (Component Model async host rules) + Trace_Async.tla (property monitors); the real Rust async "
            "runtime runs natively against a mock host under scripted user programs; host choices enumerated depth-first and at "
            "random; every recorded run is trace-validated by TLC",
            "async import: params_dealloc_lists once and only after STARTED/RETURNED, lists_and_own iff STARTED_CANCELLED, results_lift once iff RETURNED, subtask.drop once after resolution, cancel only in progress (host rule). ~4000 runs / 700k events per quick run; all monitors are evaluated after every event.",
            "Trusted: TLC; the transcription of the Component Model async rules (CMHost.tla); the mock host (checked against "
            "CMHost.tla on every trace, disagreement = tool error); tracer hook placement. Exhaustive only within the per-scenario "
            "DFS bound; interleavings are limited to the scenario families of vlib/async_scen.py.",
            "5 C21"),
    "C22": ("model_checking",
            "TLA+ specs CMHost.tla (Component Model async host rules) + Trace_Async.tla (property monitors); the real Rust async "
            "runtime runs natively against a mock host under scripted user programs; host choices enumerated depth-first and at "
            "random; every recorded run is trace-validated by TLC",
            "executor: answers Exit/Wait/Yield consistent with registrations, sleep state and finished work; context slot empty while running and holding the state between callbacks; task state and body destructors released exactly once; start_task and block_on drivers; host cancellation. ~4000 runs / 700k events per quick run; all monitors are evaluated after every event.",
            "Trusted: TLC; the transcription of the Component Model async rules (CMHost.tla); the mock host (checked against "
            "CMHost.tla on every trace, disagreement = tool error); tracer hook placement. Exhaustive only within the per-scenario "
            "DFS bound; interleavings are limited to the scenario families of vlib/async_scen.py.",
            "5 C22"),
    "C23": ("model_checking",
            "TLA+ specs CMHost.tla (Component Model async host rules) + Trace_Async.tla (property monitors); the real Rust async "
            "runtime runs natively against a mock host under scripted user programs; host choices enumerated depth-first and at "
            "random; every recorded run is trace-validated by TLC",
            "cross-task wakeups (feature inter-task-wakeup): a wake of a sleeping task is followed by exactly one unit-stream write that completes at once, wakes of polling/woken tasks write nothing, at most one item per sleep, the wakeup read is cancelled after leaving the set before the next poll and before destruction. ~4000 runs / 700k events per quick run; all monitors are evaluated after every event.",
            "Trusted: TLC; the transcription of the Component Model async rules (CMHost.tla); the mock host (checked against "
            "CMHost.tla on every trace, disagreement = tool error); tracer hook placement. Exhaustive only within the per-scenario "
            "DFS bound; interleavings are limited to the scenario families of vlib/async_scen.py.",
            "5 C23"),
    "C32": ("model_checking",
            "TLA+ MacroDeps.tla: crate layouts x macro invocation forms and the files WIT resolution reads (GEN + sanity); the real "
            "generate! macro expanded by the real rustc under strace for every layout; observation (opened, dep-info) judged by TLC",
            "All 282 valid (layout, form) pairs: root files, directory and single-file deps, nested deps, non-WIT files, second path; "
            "forms default / path / file / list / world-in-path / inline / inline+path / inline without wit dir.",
            "Trusted: strace's view of opened files; rustc's dep-info is what cargo's freshness check reads.",
            "5 C32"),
    "C33": ("model_checking",
            "TLA+ spec CheckMode.tla; TLC enumerates all output-directory states over <=3 (thorough 4) generated files; the real "
            "CLI runs --check on each; observations judged by the spec (VAL)",
            "Every assignment of {same, missing, altered, crlf, truncated, extended, empty} to the generated files of 3 (thorough 6) generators, with and "
            "without an unrelated file; exit status, line-ending diagnosis and a before/after snapshot of the directory are "
            "checked by Conforms in CheckMode.tla.",
            "Trusted: TLC; mtime+sha256 snapshots as the no-write observation; the CLI is built from the working tree.",
            "5 C33"),
    "C16": ("exploration",
            "WorldGrammar.tla (TLC) enumerates every type constructor in every position; the real CLI runs every backend and "
            "option variant on each world and on the tests/codegen corpus; a panic outside the repository-declared exclusions "
            "(derived at run time from crates/test/src/<lang>.rs) is a violation",
            "Bounded-exhaustive over the world grammar (31 constructors x 14 positions x 2 roles with function kinds and "
            "directions cycling; thorough: full product) x 8 backends x their option variants: the verdict is the process exit "
            "status, so this is exploration with a TLA+-defined input space.",
            "Trusted: generalisation of file-name exclusions to feature sets; wit-parser's notion of a valid world.",
            "5 C16"),
    "C14": ("model_checking",
            "TLA+ ScalarConv.tla (canonical lower/lift on the full i32 domain + evaluator of a term language), self-checked by ASSUME in "
            "MC_ScalarConv.tla; the conversion expressions of all 7 backends are extracted from a probe world's wrappers, parsed "
            "(fail-closed) and judged by TLC (Obs_ScalarConv.tla)",
            "7 backends x 12 scalar types x {import, export} x {lower, lift}: 8-bit types on all 256 low parts x 7 upper-bit patterns, "
            "16-bit on boundaries + stride, 32-bit on boundary bit patterns; 64-bit/float conversions must be pure cast chains.",
            "Trusted: the extractor's wrapper shapes and the parser's reading of each language's casts. No Apalache run: the wide "
            "conversions contain no arithmetic to solve.",
            "12.6"),
    "C15": ("exploration",
            "Determinism.tla judges observations: every (input, backend, variant) unit generated by k independent processes "
            "+ a following --check; inputs from the corpus, WorldGrammar.tla and wide many-interface worlds",
            "k=3 (thorough 8) independent processes per unit, 1400+ units in the quick tier; names and sha256 of all files must "
            "agree and --check against the first output must succeed. The TLA+ part is the input grammar and the (tiny) "
            "equality judgement; the verdict is byte comparison across processes.",
            "Trusted: independent processes really differ in hash seeds/ASLR; sha256.",
            "5 C15"),
    "C05": ("model_checking",
            "TLA+ CallConv/CanonABI evaluated by TLC over MC_RustExec.tla = canonical core-level encoding of arguments and results at "
            "pointer width 8 (spec->impl); the real Rust bindings are compiled natively, their core imports routed to a type-agnostic host "
            "(harness/vhost) that compares / builds real memory from the spec's cells; exports called through their real symbols",
            "f(x: T) -> T for 162 types (two-level closure over all value primitives, records, variants, enums, flags, options, results, "
            "lists, tuples) x every boundary value, plus the multi-parameter functions crossing the 16/1 flattening limits; 810 cases "
            "quick, both directions each. Lifted values are judged by lowering them again through a second import.",
            "Trusted: rustc; the textual rewrite of the generator's own non-wasm32 import stubs; only pointer width 8 is executed "
            "(W=4 is covered for the shared generator by C01-C03). Handles/resources and async are outside (C07, C08).",
            "12.5"),
    "C06": ("model_checking",
            "same run as C05; judged by a counting global allocator that tags every block guest/host: nothing the bindings allocate may "
            "outlive a call + post-return, blocks handed over by the host must be freed exactly once with their layout, no unknown frees",
            "the same 810 cases x {import direction, export direction + real post-return}.",
            "Trusted: the ledger (harness/vhost); stack and static memory are not judged.",
            "12.5"),
    "C07": ("model_checking",
            "TLA+ ResourceOwn.tla: histories of guest- and host-side resource operations (GEN, all histories up to MaxLen) and the monitor "
            "of the handle discipline; the real generated Rust bindings for a fixed resource world run natively against a permissive "
            "logging host, the event log of every history is validated by TLC (Trace_ResourceOwn.tla)",
            "All 6.7k histories of <= 3 operations (thorough: <= 4) over: imported resource (constructor, method, static, own and borrow "
            "parameters, own handles inside a record, a list, a tuple and an option) and exported resource (constructor, method, own / "
            "borrow parameters, own parameter taken apart with into_inner, results x and option<x>, host drop).",
            "Trusted: the textual rewrite of the import stubs; a low-address arena so that rep pointers survive the i32 round trip the "
            "bindings make; error-context handles and fallible constructors are not in the fixed world.",
            "12.7"),
    "C08": ("model_checking",
            "TLA+ AsyncCall.tla: the protocol of one guest task with a component-model host (async-lower subtasks, waitable sets, callback "
            "codes, task.return / task.cancel) as one transition function, model-checked against every guest that respects the guards x "
            "every host schedule (MC_AsyncCall, which also emits the schedules); the real Rust bindings generated with --async filters "
            "and /repo's real async runtime run natively against a spec-driven async host (harness/vhost ahost.rs) under those schedules "
            "with the value vectors of C05 (MC_RustExec over CallConv); TLC validates the event log of every task (Trace_AsyncCall) and "
            "the host compares every lowered value with the canonical encoding at the moment a real host would read it",
            "Signatures x values of MC_RustExec (all types of the level-1 universe, parameter lists across the 4 / 16 flat limits, "
            "results of all shapes) x {imports and export async, export only, imports only (block_on)} x per async import call "
            "{returned at once, started at the call, starting then started, starting then returned} x cancellation at every wait "
            "(quick: a rotating slice per signature; thorough: all schedules).",
            "Trusted: the async host (its answers are checked against the spec on every event: a disagreement is a tool error), the "
            "heap ledger with the low arena (freed guest memory is never reused, so reading parameters that were freed too early is "
            "seen), the textual rewrite of the import stubs. One task at a time; futures, streams, resources as values are not in it.",
            "12.9"),
    "C09": ("exploration",
            "WorldGrammar.tla worlds (TLC GEN) + adversarial-name worlds + corpus -> real Rust generator x all crates/test variants + "
            "--raw-strings -> rustc (host target, -Dwarnings, editions 2021/2024, real wit_bindgen runtime) and ComponentEncoder on the "
            "declared surface with the bindings' own embedded component-type section",
            "Every third (constructor, position, role) cell in the quick tier, all keyword / prelude / temporary-name / case-folding "
            "worlds, tests/codegen; the verdicts are rustc's and wit-component's.",
            "No wasm32 Rust target in the sandbox: cfg(target_arch = \"wasm32\") items are only parsed by rustc and are judged through "
            "the scanner + encoder instead.",
            "5 C09"),
    "C10": ("model_checking",
            "same vectors as C05 (MC_RustExec.tla over CallConv/CanonABI, canonical encodings at pointer width 8) driven through the real "
            "C bindings compiled natively with clang against the type-agnostic host (harness/vhost, C ABI); guest code is generated "
            "plumbing export->import; values as seen by C code are dumped by path and compared with the spec values",
            "f(x: T) -> T for 167 types x boundary values + the multi-parameter functions; --no-sig-flattening (with dumps) and the "
            "default flattening (host-side comparisons only); 1100 cases quick.",
            "Trusted: clang; member names f<i>/val/tag/is_some/is_err/ptr/len as documented by the C backend; utf16, resources and "
            "async are not executed.",
            "12.6"),
    "C11": ("model_checking",
            "same run as C10, judged by the ledger: every malloc/calloc/realloc/free of bindings and plumbing is redirected to it, "
            "host-built memory comes from the bindings' own cabi_realloc; after export call + real post-return no guest block may remain, "
            "import arguments must stay untouched, no unknown or double free",
            "the same 1100 cases; plumbing frees owned export arguments with the generated *_free helpers as the README prescribes.",
            "Trusted: the ledger; the resource part of the property (destructor runs once, any resource name) is covered only statically "
            "(C13 judges the destructor's export name; finding F-C13-1 fixed).",
            "12.6"),
    "C12": ("exploration",
            "WorldGrammar.tla worlds (TLC GEN) + adversarial-name worlds + corpus -> real C generator -> clang --target=wasm32 (-Werror) -> "
            "wasm-ld with the component-type object -> wit_component::ComponentEncoder with validation; decoded world and declared string "
            "encoding compared with the request",
            "Every (constructor, position, role) cell (quick: every second) x {default, no-sig-flattening, autodrop, async, utf16} plus C "
            "keyword / temporary-name / case-folding collision worlds and tests/codegen; the verdict is the real tool chain's.",
            "Trusted: clang 14, wasm-ld 14, wit-component 0.257; a freestanding libc shim replaces wasi-sdk. Where even the reference "
            "surface is not encodable (--async=all over sync-declared functions, flags>32, stream<char>) the check stops after linking.",
            "5 C12"),
    "C13": ("model_checking",
            "TLA+ CoreSurface.tla (on CallConv/CanonABI) evaluated by TLC over WorldGrammar.tla worlds = expected core imports/exports "
            "with signatures (spec->impl); generators' declared surface read from the real wasm32 module (C: clang+wasm-ld) or by "
            "fail-closed declaration scanners (Rust, C++, C#, Go, MoonBit, D); wit_component::ComponentEncoder as second oracle",
            "Every (constructor, position, role) cell with cycling function kind/direction plus the flattening-boundary worlds in "
            "all kinds/directions, sync and --async=all, all seven backends with their crates/test variants, plus the tests/codegen "
            "corpus judged against wit-parser's mangling. The spec itself is meta-checked against wit-parser on every world.",
            "Trusted: wit-parser/wit-component 0.257 as the reference for names; clang 14/wasm-ld for C; the scanners' type-spelling "
            "tables. Not covered: whether text-scanned imports are really referenced at link time (approximated by identifier use).",
            "5 C13"),
    "C17": ("model_checking",
            "TLA+ AsyncFilter.tla model-checked (stateful AsyncFilterSet: first match wins, used-set, ensure_all_used); TLC-generated "
            "(directive list, world) vectors replayed into the real AsyncFilterSet, recorded query traces validated by TLC, and the "
            "same vectors driven through the real Rust/C/Go/MoonBit generators whose [async-lower]/[async-lift] surface must equal the spec's selection",
            "All directive lists of length <= 2 (thorough 3) over {all, name, import:name, export:name} x {+,-} x 6 names against 6 "
            "worlds (8.9k vectors) for the core; a stratified sample of them (rejected lists, two decisive directives, shadowing) "
            "through four generators, with Rust's accept/reject verdict compared to MustReject/MustAccept.",
            "Trusted: the declaration scanners / clang route of C13 to read which ABI a function is bound with.",
            "5 C17"),
    "C28": ("model_checking",
            "TLA+ TypeEq.tla (structural equality DefEq, content facts, usage facts, union over classes) model-checked for being an "
            "equivalence with class-constant facts on every enumerated world; TLC-generated worlds with expected partition and facts "
            "replayed into the real wit_bindgen_core::Types (analyze + collect_equal_types)",
            "Every sequence of 3 definitions from 10 closed + 5 open templates per earlier definition (equal / reordered / renamed "
            "records, variants, enums, flags, aliases, containers, two resources, own/borrow handles), use sites rotating over "
            "import/export x param/result/error: 6.7k worlds (quick), 20k (thorough).",
            "Trusted: wit-parser resolution of the rendered WIT; the `error` fact is read as 'the definition named in the error "
            "position'; facts do not look through future/stream payloads.",
            "5 C28"),
    "C29": ("model_checking",
            "TLA+ MarkdownDoc.tla: the link-rewriting pass as a machine over the Markdown event stream (MC over all event strings <= 6: "
            "no new nesting; witness for the pre-fix behaviour) + the clauses NoNestedLinks / RefsDefined / DocsVerbatim judged by TLC on "
            "observations of real generated documents (HTML tokenised)",
            "300 documentation shapes (pairs of 10 line kinds x {function, type, field}) + WorldGrammar worlds with docs + tests/codegen.",
            "Trusted: Python html.parser; docs on packages/worlds/interfaces are not rendered by the backend at all and are out of scope.",
            "5 C29"),
    "C30": ("model_checking",
            "TLA+ MoonPkgGraph.tla: model worlds (GEN) and the clauses Declared / OneAliasPerPackage / NoDuplicateEntries / Exists / "
            "References judged by TLC on observations of the real MoonBit generator's output (moon.pkg.json + `@alias.` uses)",
            "All 31 non-empty subsets of five interfaces with equal last segments, kebab-case names and two versions of one package x "
            "{import, export, both} x {default, --async=all}, plus tests/codegen (graph clauses only).",
            "Trusted: textual extraction of `@alias.` uses after removing strings and comments.",
            "5 C30"),
    "C31": ("exploration",
            "WorldGrammar.tla worlds + adversarial-name worlds + corpus -> real C++ generator -> g++ -std=c++20 -fsyntax-only "
            "against the repository's helper headers",
            "Bounded-exhaustive world grammar (quick: every third cell; thorough: 5 alternatives per cell) plus keyword / "
            "mangling-collision worlds; the verdict is the C++ front end's.",
            "Trusted: g++ 12 with -fpermissive and -D_GLIBCXX_USE_DEPRECATED=0 stands in for clang++ --target=wasm32 + libc++ "
            "(pointer-width casts and a libstdc++-only name clash are not judged).",
            "5 C31"),
}

PENDING_REASON = "check not built yet in this session (planned, see DESIGN.md section 5); not claimed until it runs"


def main():
    props = [json.loads(l) for l in open(os.path.join(VERIF, "properties.jsonl"))]
    checks = []
    na = []
    for p in props:
        pid = p["id"]
        if pid in CLAIMED:
            cat, tech, text, note, ref = CLAIMED[pid]
            checks.append({
                "property_id": pid,
                "quick_cmd": f"./check {pid} --tier quick",
                "thorough_cmd": f"./check {pid} --tier thorough",
                "evidence_file": f"/verif/evidence/{pid}.json",
                "replay_cmd_template": f"./check {pid} --replay {{path}}",
                "engine": "tlc+harness",
                "level_claimed": {"category": cat, "text": text, "design_ref": ref},
                "level_note": note,
                "technique": tech,
            })
        else:
            na.append({"property_id": pid, "reason": NOT_APPLICABLE.get(pid, PENDING_REASON)})
    hooks_path = os.path.join(VERIF, "hooks.json")
    hook_commits = json.load(open(hooks_path))["source_commits"] if os.path.exists(hooks_path) else []
    m = {
        "version": 1,
        "setup_cmd": "./setup.sh",
        "hooks": {
            "guard": "bytecodealliance_wit_bindgen_verif",
            "enable": "RUSTFLAGS='--cfg bytecodealliance_wit_bindgen_verif' (set in /verif/harness/.cargo/config.toml; "
                      "all harness crates path-depend on /repo; C08's probe crate sets the same flags in its own .cargo/config.toml, "
                      "vlib/rustprobe.py HOOK_FLAGS)",
            "baseline_off_cmd": "cd /repo && cargo test --workspace --no-fail-fast --offline",
            "source_commits": hook_commits,
            "add_only": True,
        },
        "engines": [
            {"name": "tlc+harness", "path": "/verif/check",
             "serves_properties": [c["property_id"] for c in checks],
             "kind_free_text": "TLA+ specs under /verif/specs checked by TLC (model checking, vector generation, "
                               "trace validation) bound to the real code by Rust harnesses under /verif/harness"},
        ],
        "checks": checks,
        "not_applicable": na,
        "notes": "See DESIGN.md. Every check is ./check <ID> --tier quick|thorough; exit 0/1/2 as documented there.",
    }
    with open(os.path.join(VERIF, "MANIFEST.json"), "w") as f:
        json.dump(m, f, indent=1)
        f.write("\n")


NOT_APPLICABLE = {}

if __name__ == "__main__":
    main()
