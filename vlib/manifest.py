#!/usr/bin/env python3
"""Regenerates /verif/MANIFEST.json from the table below (run: python3 -m vlib.manifest)."""
import json
import os

VERIF = os.path.dirname(os.path.dirname(os.path.abspath(__file__)))

# id -> (category, technique, level text, level note, design ref)
CLAIMED = {
    "C26": ("model_checking",
            "TLA+ spec Ns.tla model-checked by TLC; every bounded history replayed on the real Ns; "
            "recorded random histories trace-validated by TLC (Trace_Ns.tla)",
            "TLC explores every history of <=7 calls of the faithful Ns model and checks freshness/conflict "
            "invariants; all 8^5 (thorough 8^6) histories are replayed against the real code with results and "
            "final state compared; 400+ seeded longer histories over a wider alphabet are validated by the spec.",
            "Trusted: TLC, the 60-line replay driver. Names are observed only through the public API.",
            "5 C26"),
    "C25": ("model_checking",
            "TLA+ spec SourceBuf.tla (faithful model + text-level clauses) model-checked by TLC; every bounded "
            "call history replayed on the real Source with full state projection; recorded histories trace-validated",
            "TLC checks content preservation, indentation = line-level brace-nesting reference, literal neutrality and "
            "balanced-restore on every history of <=3 (thorough 4) calls over a whole-line and a line-splitting "
            "fragment alphabet; each history is replayed on the real buffer (text, indent, continuing, comment flag "
            "compared); 600+ random longer histories are validated step by step by the spec.",
            "Trusted: TLC; projection of private fields via public-API probes. Inputs on which the statement is silent "
            "are not generated (listed in evidence.not_generated).",
            "5 C25"),
    "C27": ("model_checking",
            "TLA+ transcription PkgModuleName.tla; TLC enumerates all package pairs of a bounded universe and checks "
            "injectivity; names replayed against the real name_package_module; random sets validated by the spec",
            "TLC enumerates every pair over 3 names x 201 versions (pre-release/build forms with dots, hyphens, case), "
            "decides injectivity on the model, and each pair is run through the real function (names must agree with "
            "the model, collisions are violations); 3000+ random sets of 2-4 packages are re-derived by the spec.",
            "Trusted: TLC; wit-parser's acceptance of package names/versions defines validity.",
            "5 C27"),
    "C34": ("model_checking",
            "TLA+ spec TestConfig.tla; TLC enumerates all files of <=4 (thorough 5) lines over 17 line kinds with the "
            "expected configuration; each replayed through the real parse_test_config under 3 markers x 2 spellings; "
            "random files validated by the spec",
            "The spec defines the configuration as a function of the leading marker block only; TLC checks the spec's own "
            "sanity (only the leading block matters, string form == list form) and emits every bounded file; the real "
            "parser (compiled from /repo/crates/test/src/config.rs) must return the spec's configuration or error.",
            "Trusted: TLC, the toml crate, the rendering of abstract line kinds to concrete text.",
            "5 C34"),
    "C24": ("model_checking",
            "TLA+ spec Realloc.tla (allocator contract + host view) model-checked with a branch-level model of cabi_realloc/"
            "Cleanup; TLC-generated and random request histories executed on the real code over a tracking arena allocator; "
            "every log trace-validated by TLC (Trace_Realloc.tla)",
            "TLC explores all histories of 3 (thorough 4) requests under every well-behaved allocator choice and checks "
            "non-null/aligned/contents-preserved/zero-size/no-overlap and the GlobalAlloc layout contract; the real "
            "cabi_realloc and Cleanup then run those histories (x2 scales) plus 1500+ random ones (align up to 2^16, size up "
            "to 2^20); each entry call, return and underlying alloc/realloc/dealloc is an event the spec must accept.",
            "Trusted: TLC; the arena allocator of harness/rtalloc. cabi_realloc is compiled natively from its source text "
            "extracted at build time (it is cfg'd out on linux-gnu).",
            "5 C24"),
}

PENDING_REASON = "check not built yet in this session (planned, see DESIGN.md section 5); not claimed until it runs"


def main():
    props = [json.loads(l) for l in open(os.path.join(VERIF, "properties.jsonl"))]
    checks = []
    na = []
    for p in props:
        pid = p["id"]
        if pid in CLAIMED:
            cat, tech, text, note, ref = CLAIMED[pid]
            checks.append({
                "property_id": pid,
                "quick_cmd": f"./check {pid} --tier quick",
                "thorough_cmd": f"./check {pid} --tier thorough",
                "evidence_file": f"/verif/evidence/{pid}.json",
                "replay_cmd_template": f"./check {pid} --replay {{path}}",
                "engine": "tlc+harness",
                "level_claimed": {"category": cat, "text": text, "design_ref": ref},
                "level_note": note,
                "technique": tech,
            })
        else:
            na.append({"property_id": pid, "reason": NOT_APPLICABLE.get(pid, PENDING_REASON)})
    hooks_path = os.path.join(VERIF, "hooks.json")
    hook_commits = json.load(open(hooks_path))["source_commits"] if os.path.exists(hooks_path) else []
    m = {
        "version": 1,
        "setup_cmd": "./setup.sh",
        "hooks": {
            "guard": "bytecodealliance_wit_bindgen_verif",
            "enable": "RUSTFLAGS='--cfg bytecodealliance_wit_bindgen_verif' (set in /verif/harness/.cargo/config.toml; "
                      "all harness crates path-depend on /repo)",
            "baseline_off_cmd": "cd /repo && cargo test --workspace --no-fail-fast --offline",
            "source_commits": hook_commits,
            "add_only": True,
        },
        "engines": [
            {"name": "tlc+harness", "path": "/verif/check",
             "serves_properties": [c["property_id"] for c in checks],
             "kind_free_text": "TLA+ specs under /verif/specs checked by TLC (model checking, vector generation, "
                               "trace validation) bound to the real code by Rust harnesses under /verif/harness"},
        ],
        "checks": checks,
        "not_applicable": na,
        "notes": "See DESIGN.md. Every check is ./check <ID> --tier quick|thorough; exit 0/1/2 as documented there.",
    }
    with open(os.path.join(VERIF, "MANIFEST.json"), "w") as f:
        json.dump(m, f, indent=1)
        f.write("\n")


NOT_APPLICABLE = {}

if __name__ == "__main__":
    main()
