#!/bin/sh
# Run once after a fresh restore, offline: pre-builds the harness workspace so that the checks'
# own (incremental) builds are fast.  Everything comes from files on disk.
set -e
cd "$(dirname "$0")/harness"
export CARGO_NET_OFFLINE=true
cargo build --offline --release --workspace --exclude cli 2>&1 | tail -3
cargo build --offline --profile cli -p cli 2>&1 | tail -3
cargo build --offline --release -p async-mock --features wakeup 2>&1 | tail -1
