#!/bin/sh
# Run once after a fresh restore, offline: pre-builds the harness workspace so that the checks'
# own (incremental) builds are fast.  Everything comes from files on disk.
set -e
cd "$(dirname "$0")/harness"
export CARGO_NET_OFFLINE=true
cargo build --offline --release --workspace 2>&1 | tail -3
