#!/bin/sh
# Run once after a fresh restore, offline: pre-builds the harness workspace so that the checks'
# own (incremental) builds are fast.  Everything comes from files on disk.
set -e
cd "$(dirname "$0")/harness"
export CARGO_NET_OFFLINE=true
cargo build --offline --release --workspace --exclude cli 2>&1 | tail -3
cargo build --offline --profile cli -p cli 2>&1 | tail -3
cargo build --offline --release -p async-mock --features wakeup 2>&1 | tail -1
# the probe crate (rustc command line + wit-bindgen runtime for C05-C09, C32) and the libc shim for clang --target=wasm32
cd .. && python3 -c "
import sys; sys.path.insert(0, '.')
from vlib import rustprobe, surface_scan
from vlib.core import workdir
rustprobe.probe_rustc(workdir('setup'))
rustprobe.probe_rustc(workdir('setup'), hook=True)      # C08: the runtime with the verification cfg
surface_scan.ensure_libc()
print('probe ok')" 2>&1 | tail -1
