//! `cabi_realloc` in /repo/crates/guest-rust/src/rt/mod.rs is compiled only for wasm targets
//! (`cfg(any(target_env = "p1", target_env = ""))`).  To run *that code* natively, its source is
//! copied verbatim (function item found by brace matching) into OUT_DIR on every build, so the
//! check always exercises the working tree.  A miss is a build error, never a silent pass.
use std::{env, fs, path::PathBuf};

fn main() {
    let src_path = "/repo/crates/guest-rust/src/rt/mod.rs";
    println!("cargo:rerun-if-changed={src_path}");
    let src = fs::read_to_string(src_path).expect("read rt/mod.rs");
    let start = src
        .find("pub unsafe fn cabi_realloc(")
        .expect("cabi_realloc not found in rt/mod.rs (extraction pattern miss)");
    let body_open = start + src[start..].find('{').expect("no body");
    let mut depth = 0usize;
    let mut end = None;
    for (i, c) in src[body_open..].char_indices() {
        match c {
            '{' => depth += 1,
            '}' => {
                depth -= 1;
                if depth == 0 {
                    end = Some(body_open + i + 1);
                    break;
                }
            }
            _ => {}
        }
    }
    let end = end.expect("unbalanced braces");
    let item = &src[start..end];
    let out = PathBuf::from(env::var("OUT_DIR").unwrap()).join("cabi_realloc.rs");
    fs::write(out, item).unwrap();
}
