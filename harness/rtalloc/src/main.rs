//! C24: `cabi_realloc` (source extracted verbatim from the working tree, see build.rs) and the
//! real `wit_bindgen::rt::Cleanup`, run natively on top of a tracking arena allocator.  Every
//! entry call and every underlying allocator call is logged; TLC validates the log against
//! specs/rt/Realloc.tla (Trace_Realloc.tla).
extern crate alloc;

use anyhow::Result;
use serde_json::{json, Value};
use std::alloc::{GlobalAlloc, Layout, System};
use std::cell::UnsafeCell;
use std::sync::atomic::{AtomicBool, AtomicUsize, Ordering};
use vcommon::*;

mod extracted {
    include!(concat!(env!("OUT_DIR"), "/cabi_realloc.rs"));
}

// ------------------------------------------------------------------------------------------
// arena allocator: addresses are reported as offsets (+OFFSET) so that they fit TLC integers

const ARENA_SIZE: usize = 96 << 20;
const OFFSET: usize = 1 << 20;

#[repr(C, align(1048576))]
struct Arena(UnsafeCell<[u8; ARENA_SIZE]>);
unsafe impl Sync for Arena {}
static ARENA: Arena = Arena(UnsafeCell::new([0; ARENA_SIZE]));
static BUMP: AtomicUsize = AtomicUsize::new(0);
static ARMED: AtomicBool = AtomicBool::new(false);

#[derive(Clone, Copy)]
struct Ev {
    kind: u8, // 1 alloc, 2 realloc, 3 dealloc
    p: usize,
    size: usize,
    align: usize,
    new: usize,
    q: usize,
}
const MAX_EV: usize = 1024;
struct EvBuf(UnsafeCell<[Ev; MAX_EV]>);
unsafe impl Sync for EvBuf {}
static EVS: EvBuf = EvBuf(UnsafeCell::new([Ev { kind: 0, p: 0, size: 0, align: 0, new: 0, q: 0 }; MAX_EV]));
static NEV: AtomicUsize = AtomicUsize::new(0);

fn base() -> usize {
    ARENA.0.get() as usize
}
fn in_arena(p: *mut u8) -> bool {
    let a = p as usize;
    a >= base() && a < base() + ARENA_SIZE
}
/// address as the spec sees it
fn rel(p: *mut u8) -> usize {
    if in_arena(p) { p as usize - base() + OFFSET } else { p as usize }
}
fn log(e: Ev) {
    let i = NEV.fetch_add(1, Ordering::Relaxed);
    if i < MAX_EV {
        unsafe { (*EVS.0.get())[i] = e };
    }
}

// the allocator's own record of live arena blocks (robustness against bad calls from the code
// under test: sizes used for copying/poisoning come from here, never from the caller)
const MAX_LIVE: usize = 2048;
struct Live(UnsafeCell<[(usize, usize); MAX_LIVE]>);
unsafe impl Sync for Live {}
static LIVE: Live = Live(UnsafeCell::new([(0, 0); MAX_LIVE]));
static NLIVE: AtomicUsize = AtomicUsize::new(0);

unsafe fn live_add(p: usize, size: usize) {
    let n = NLIVE.load(Ordering::Relaxed);
    if n < MAX_LIVE {
        (*LIVE.0.get())[n] = (p, size);
        NLIVE.store(n + 1, Ordering::Relaxed);
    }
}
unsafe fn live_take(p: usize) -> Option<usize> {
    let n = NLIVE.load(Ordering::Relaxed);
    let t = &mut *LIVE.0.get();
    for i in 0..n {
        if t[i].0 == p {
            let sz = t[i].1;
            t[i] = t[n - 1];
            NLIVE.store(n - 1, Ordering::Relaxed);
            return Some(sz);
        }
    }
    None
}

struct Tracking;

unsafe fn arena_alloc(layout: Layout) -> *mut u8 {
    let mut off = BUMP.load(Ordering::Relaxed);
    // 16 bytes of guard between blocks
    off += 16;
    off = (off + layout.align() - 1) & !(layout.align() - 1);
    if off + layout.size() > ARENA_SIZE {
        return std::ptr::null_mut();
    }
    BUMP.store(off + layout.size(), Ordering::Relaxed);
    let p = (base() + off) as *mut u8;
    live_add(p as usize, layout.size());
    // fresh memory is poisoned, never zero
    std::ptr::write_bytes(p, 0xA5, layout.size());
    p
}

unsafe impl GlobalAlloc for Tracking {
    unsafe fn alloc(&self, layout: Layout) -> *mut u8 {
        if !ARMED.load(Ordering::Relaxed) {
            return System.alloc(layout);
        }
        let p = arena_alloc(layout);
        log(Ev { kind: 1, p: rel(p), size: layout.size(), align: layout.align(), new: 0, q: 0 });
        p
    }
    unsafe fn dealloc(&self, ptr: *mut u8, layout: Layout) {
        if !in_arena(ptr) {
            if ARMED.load(Ordering::Relaxed) {
                log(Ev { kind: 3, p: rel(ptr), size: layout.size(), align: layout.align(), new: 0, q: 0 });
                return; // foreign pointer handed to dealloc while armed: logged, not executed
            }
            return System.dealloc(ptr, layout);
        }
        log(Ev { kind: 3, p: rel(ptr), size: layout.size(), align: layout.align(), new: 0, q: 0 });
        if let Some(sz) = live_take(ptr as usize) {
            std::ptr::write_bytes(ptr, 0xDD, sz);
        }
    }
    unsafe fn realloc(&self, ptr: *mut u8, layout: Layout, new_size: usize) -> *mut u8 {
        if !in_arena(ptr) && !ARMED.load(Ordering::Relaxed) {
            return System.realloc(ptr, layout, new_size);
        }
        let real = if in_arena(ptr) { live_take(ptr as usize) } else { None };
        // in place when the block is the last one handed out and the new size is even
        let end = base() + BUMP.load(Ordering::Relaxed);
        let q = match real {
            Some(old) if ptr as usize + old == end && new_size % 2 == 0 && ptr as usize + new_size <= base() + ARENA_SIZE => {
                BUMP.store(ptr as usize + new_size - base(), Ordering::Relaxed);
                if new_size > old {
                    std::ptr::write_bytes(ptr.add(old), 0xA5, new_size - old);
                }
                live_add(ptr as usize, new_size);
                ptr
            }
            _ => {
                let q = arena_alloc(Layout::from_size_align_unchecked(new_size, layout.align()));
                if let (false, Some(old)) = (q.is_null(), real) {
                    std::ptr::copy_nonoverlapping(ptr, q, old.min(new_size));
                    std::ptr::write_bytes(ptr, 0xDD, old);
                }
                q
            }
        };
        log(Ev { kind: 2, p: rel(ptr), size: layout.size(), align: layout.align(), new: new_size, q: rel(q) });
        q
    }
}

#[global_allocator]
static GLOBAL: Tracking = Tracking;

fn arm() {
    NEV.store(0, Ordering::Relaxed);
    ARMED.store(true, Ordering::Relaxed);
}
fn disarm(w: &mut Vec<Value>) {
    ARMED.store(false, Ordering::Relaxed);
    let n = NEV.load(Ordering::Relaxed).min(MAX_EV);
    for i in 0..n {
        let e = unsafe { (*EVS.0.get())[i] };
        w.push(match e.kind {
            1 => json!({"ev": "sys.alloc", "size": e.size, "align": e.align, "p": e.p}),
            2 => json!({"ev": "sys.realloc", "p": e.p, "size": e.size, "align": e.align, "new": e.new, "q": e.q}),
            _ => json!({"ev": "sys.dealloc", "p": e.p, "size": e.size, "align": e.align}),
        });
    }
}

// ------------------------------------------------------------------------------------------

struct Block {
    ptr: *mut u8,
    size: usize,
    align: usize,
    fill: u8,
}

fn pattern(fill: u8, i: usize) -> u8 {
    fill.wrapping_add((i as u8).wrapping_mul(7)) | 1
}

/// One entry-point call with logging; returns the new block (if any).
fn do_realloc(out: &mut Vec<Value>, old: Option<&Block>, any_ptr: usize, align: usize, newn: usize, fill: u8) -> Option<Block> {
    let (oldp, oldn) = match old {
        Some(b) => (b.ptr, b.size),
        None => (any_ptr as *mut u8, 0),
    };
    out.push(json!({"ev": "call", "oldp": rel(oldp), "oldn": oldn, "align": align, "newn": newn}));
    progress(out);
    arm();
    let r = catch(std::panic::AssertUnwindSafe(|| unsafe { extracted::cabi_realloc(oldp, oldn, align, newn) }));
    disarm(out);
    let ret = match r {
        Ok(p) => p,
        Err(msg) => {
            out.push(json!({"ev": "panic", "msg": msg}));
            return None;
        }
    };
    // how much of the old contents survived?
    let mut kept = 0usize;
    if let Some(b) = old {
        if in_arena(ret) && !ret.is_null() {
            let n = oldn.min(newn);
            while kept < n && unsafe { *ret.add(kept) } == pattern(b.fill, kept) {
                kept += 1;
            }
        }
    }
    out.push(json!({"ev": "ret", "ret": rel(ret), "kept": kept}));
    if newn == 0 || !in_arena(ret) {
        return None;
    }
    // host writes the whole new block (a wild block would corrupt a neighbour's pattern)
    let safe = newn.min(base() + ARENA_SIZE - ret as usize);
    for i in 0..safe {
        unsafe { *ret.add(i) = pattern(fill, i) };
    }
    Some(Block { ptr: ret, size: newn, align, fill })
}

/// Crash attribution: before every call into the code under test the events so far are
/// appended to the side file named by VERIF_PROGRESS, so that after an abort the driver knows
/// which call was running.
fn progress(out: &[Value]) {
    if let Ok(p) = std::env::var("VERIF_PROGRESS") {
        use std::io::Write;
        if let Ok(mut f) = std::fs::OpenOptions::new().create(true).write(true).truncate(true).open(p) {
            for e in out.iter().rev().take(1) {
                let _ = writeln!(f, "{e}");
            }
        }
    }
}

fn reset(out: &mut Vec<Value>) {
    BUMP.store(0, Ordering::Relaxed);
    NLIVE.store(0, Ordering::Relaxed);
    out.push(json!({"ev": "reset"}));
}

struct Cl {
    c: Option<wit_bindgen::rt::Cleanup>,
}

fn run_history(hist: &[Value], scale: usize, out: &mut Vec<Value>) {
    reset(out);
    // blocks by the index (1-based) of the request that made them
    let mut blocks: std::collections::HashMap<u64, Block> = Default::default();
    let mut cleanups: std::collections::HashMap<u64, Cl> = Default::default();
    for (k, h) in hist.iter().enumerate() {
        let idx = (k + 1) as u64;
        match h["op"].as_str().unwrap() {
            "realloc" => {
                let align = h["align"].as_u64().unwrap() as usize * scale;
                let newn = h["newn"].as_u64().unwrap() as usize * scale;
                let oldref = h["old"].as_u64().unwrap();
                let old = if oldref > 0 { blocks.remove(&oldref) } else { None };
                if oldref > 0 && old.is_none() {
                    out.push(json!({"ev": "harness-error", "msg": "history refers to a block that does not exist"}));
                    return;
                }
                let nb = do_realloc(out, old.as_ref(), 0x10 * k, align, newn, (idx as u8).wrapping_mul(31));
                if let Some(b) = nb {
                    blocks.insert(idx, b);
                }
            }
            "cnew" => {
                let size = h["size"].as_u64().unwrap() as usize * scale;
                let align = h["align"].as_u64().unwrap() as usize * scale;
                arm();
                let (p, c) = wit_bindgen::rt::Cleanup::new(Layout::from_size_align(size, align).unwrap());
                disarm(out);
                out.push(json!({"ev": "cnew", "id": idx, "size": size, "align": align, "p": rel(p), "has": c.is_some()}));
                cleanups.insert(idx, Cl { c });
            }
            "cdrop" => {
                let id = h["id"].as_u64().unwrap();
                let c = cleanups.get_mut(&id).and_then(|c| c.c.take());
                arm();
                drop(c);
                disarm(out);
                out.push(json!({"ev": "cdrop", "id": id}));
            }
            "cforget" => {
                let id = h["id"].as_u64().unwrap();
                let c = cleanups.get_mut(&id).and_then(|c| c.c.take());
                arm();
                if let Some(c) = c {
                    c.forget();
                }
                disarm(out);
                out.push(json!({"ev": "cforget", "id": id}));
            }
            op => panic!("unknown op {op}"),
        }
    }
    // anything still held is forgotten deliberately (the arena is reset)
    for (_, c) in cleanups.drain() {
        if let Some(c) = c.c {
            c.forget();
        }
    }
    let _ = blocks.iter().map(|(_, b)| b.align).count();
}

fn replay(vecs: &str, outp: &str) -> Result<()> {
    let vecs = read_ndjson(vecs)?;
    let mut w = NdjsonWriter::create(outp)?;
    for v in &vecs {
        for scale in [1usize, 16] {
            let mut out = Vec::new();
            run_history(v["hist"].as_array().unwrap(), scale, &mut out);
            for e in out {
                w.write(&e)?;
            }
            w.flush()?;
        }
    }
    w.finish()
}

fn record(seed: u64, n: usize, outp: &str) -> Result<()> {
    let mut rng = Rng::new(seed);
    let mut w = NdjsonWriter::create(outp)?;
    for _ in 0..n {
        let len = 1 + rng.below(8);
        let mut hist: Vec<Value> = Vec::new();
        let mut live: Vec<(u64, usize, usize)> = Vec::new(); // (idx, size, align)
        let mut cl: Vec<u64> = Vec::new();
        for k in 0..len {
            let idx = (k + 1) as u64;
            let align = 1usize << rng.below(17);
            let size = match rng.below(5) {
                0 => 0,
                1 => 1 + rng.below(16),
                2 => 1 + rng.below(4096),
                3 => align * (1 + rng.below(3)),
                _ => 1 + rng.below(1 << 20),
            };
            match rng.below(10) {
                0..=3 => {
                    hist.push(json!({"op": "realloc", "old": 0, "oldn": 0, "align": align, "newn": size}));
                    if size > 0 {
                        live.push((idx, size, align));
                    }
                }
                4..=6 if !live.is_empty() => {
                    let i = rng.below(live.len());
                    let (oidx, osize, oalign) = live.remove(i);
                    let newn = size.max(1);
                    hist.push(json!({"op": "realloc", "old": oidx, "oldn": osize, "align": oalign, "newn": newn}));
                    live.push((idx, newn, oalign));
                }
                7 => {
                    hist.push(json!({"op": "cnew", "size": size, "align": align}));
                    if size > 0 {
                        cl.push(idx);
                    }
                }
                8 if !cl.is_empty() => {
                    let id = cl.remove(rng.below(cl.len()));
                    hist.push(json!({"op": "cdrop", "id": id}));
                }
                9 if !cl.is_empty() => {
                    let id = cl.remove(rng.below(cl.len()));
                    hist.push(json!({"op": "cforget", "id": id}));
                }
                _ => {
                    hist.push(json!({"op": "realloc", "old": 0, "oldn": 0, "align": align, "newn": 0}));
                }
            }
        }
        let mut out = Vec::new();
        run_history(&hist, 1, &mut out);
        for e in out {
            w.write(&e)?;
        }
        w.flush()?;
    }
    w.finish()
}

fn main() -> Result<()> {
    let a: Vec<String> = std::env::args().collect();
    match a[1].as_str() {
        "replay" => replay(&a[2], &a[3]),
        "record" => record(a[2].parse()?, a[3].parse()?, &a[4]),
        _ => anyhow::bail!("usage: rtalloc replay|record ..."),
    }
}
