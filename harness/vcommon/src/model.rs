//! The type/value model shared by the TLA+ specs (specs/abi/CanonABI.tla, JSON form described in
//! DESIGN.md appendix B) and the harnesses: parsing from the spec's JSON and rendering to WIT.
use serde_json::{json, Value};

#[derive(Clone, Debug, PartialEq)]
pub enum Ty {
    Prim(String),
    List(Box<Ty>),
    FList(Box<Ty>, u32),
    Map(Box<Ty>, Box<Ty>),
    Record(Vec<Ty>),
    Tuple(Vec<Ty>),
    Variant(Vec<Option<Ty>>),
    Enum(u32),
    Option(Box<Ty>),
    Result(Option<Box<Ty>>, Option<Box<Ty>>),
    Flags(u32),
    Own(u32),
    Borrow(u32),
    Future(Option<Box<Ty>>),
    Stream(Option<Box<Ty>>),
}

fn opt_ty(v: &Value) -> Option<Ty> {
    if v["k"] == "none" {
        None
    } else {
        Some(Ty::from_json(v))
    }
}

impl Ty {
    pub fn from_json(v: &Value) -> Ty {
        let k = v["k"].as_str().unwrap_or_else(|| panic!("type without kind: {v}"));
        let seq = |x: &Value| x.as_array().unwrap().iter().map(Ty::from_json).collect::<Vec<_>>();
        match k {
            "list" => Ty::List(Box::new(Ty::from_json(&v["t"]))),
            "flist" => Ty::FList(Box::new(Ty::from_json(&v["t"])), v["n"].as_u64().unwrap() as u32),
            "map" => Ty::Map(Box::new(Ty::from_json(&v["key"])), Box::new(Ty::from_json(&v["val"]))),
            "record" => Ty::Record(seq(&v["fs"])),
            "tuple" => Ty::Tuple(seq(&v["fs"])),
            "variant" => Ty::Variant(v["cs"].as_array().unwrap().iter().map(opt_ty).collect()),
            "enum" => Ty::Enum(v["n"].as_u64().unwrap() as u32),
            "option" => Ty::Option(Box::new(Ty::from_json(&v["t"]))),
            "result" => Ty::Result(opt_ty(&v["ok"]).map(Box::new), opt_ty(&v["err"]).map(Box::new)),
            "flags" => Ty::Flags(v["n"].as_u64().unwrap() as u32),
            "own" => Ty::Own(v["r"].as_u64().unwrap() as u32),
            "borrow" => Ty::Borrow(v["r"].as_u64().unwrap() as u32),
            "future" => Ty::Future(opt_ty(&v["t"]).map(Box::new)),
            "stream" => Ty::Stream(opt_ty(&v["t"]).map(Box::new)),
            p => Ty::Prim(p.to_string()),
        }
    }

    pub fn to_json(&self) -> Value {
        let o = |t: &Option<Box<Ty>>| t.as_ref().map(|t| t.to_json()).unwrap_or(json!({"k": "none"}));
        match self {
            Ty::Prim(p) => json!({"k": p}),
            Ty::List(t) => json!({"k": "list", "t": t.to_json()}),
            Ty::FList(t, n) => json!({"k": "flist", "t": t.to_json(), "n": n}),
            Ty::Map(k, v) => json!({"k": "map", "key": k.to_json(), "val": v.to_json()}),
            Ty::Record(fs) => json!({"k": "record", "fs": fs.iter().map(|t| t.to_json()).collect::<Vec<_>>()}),
            Ty::Tuple(fs) => json!({"k": "tuple", "fs": fs.iter().map(|t| t.to_json()).collect::<Vec<_>>()}),
            Ty::Variant(cs) => json!({"k": "variant", "cs": cs.iter().map(|c| c.as_ref().map(|t| t.to_json()).unwrap_or(json!({"k": "none"}))).collect::<Vec<_>>()}),
            Ty::Enum(n) => json!({"k": "enum", "n": n}),
            Ty::Option(t) => json!({"k": "option", "t": t.to_json()}),
            Ty::Result(a, b) => json!({"k": "result", "ok": o(a), "err": o(b)}),
            Ty::Flags(n) => json!({"k": "flags", "n": n}),
            Ty::Own(r) => json!({"k": "own", "r": r}),
            Ty::Borrow(r) => json!({"k": "borrow", "r": r}),
            Ty::Future(t) => json!({"k": "future", "t": o(t)}),
            Ty::Stream(t) => json!({"k": "stream", "t": o(t)}),
        }
    }

    pub fn contains(&self, pred: &dyn Fn(&Ty) -> bool) -> bool {
        if pred(self) {
            return true;
        }
        match self {
            Ty::List(t) | Ty::FList(t, _) | Ty::Option(t) => t.contains(pred),
            Ty::Map(k, v) => k.contains(pred) || v.contains(pred),
            Ty::Record(fs) | Ty::Tuple(fs) => fs.iter().any(|t| t.contains(pred)),
            Ty::Variant(cs) => cs.iter().flatten().any(|t| t.contains(pred)),
            Ty::Result(a, b) => a.iter().chain(b.iter()).any(|t| t.contains(pred)),
            Ty::Future(t) | Ty::Stream(t) => t.iter().any(|t| t.contains(pred)),
            _ => false,
        }
    }
}

/// A WIT-level value.  Integers, floats (bit patterns), chars and handles are little-endian
/// byte vectors of the type's width, exactly as in the TLA+ spec.
#[derive(Clone, Debug, PartialEq)]
pub enum Val {
    Bool(bool),
    Bytes(Vec<u8>),
    Str(Vec<u8>),
    List(Vec<Val>),
    Map(Vec<(Val, Val)>),
    Record(Vec<Val>),
    Variant(u32, Option<Box<Val>>),
    Enum(u32),
    Opt(Option<Box<Val>>),
    Res(bool, Option<Box<Val>>),
    Flags(Vec<bool>),
}

fn bytes(v: &Value) -> Vec<u8> {
    v.as_array().unwrap_or_else(|| panic!("expected byte array, got {v}")).iter().map(|b| b.as_u64().unwrap() as u8).collect()
}

fn payload(t: Option<&Ty>, v: &Value) -> Option<Box<Val>> {
    t.map(|t| Box::new(Val::from_json(t, v)))
}

impl Val {
    pub fn from_json(t: &Ty, v: &Value) -> Val {
        match t {
            Ty::Prim(p) if p == "bool" => Val::Bool(v.as_bool().unwrap()),
            Ty::Prim(p) if p == "string" => Val::Str(bytes(v)),
            Ty::Prim(_) | Ty::Own(_) | Ty::Borrow(_) | Ty::Future(_) | Ty::Stream(_) => Val::Bytes(bytes(v)),
            Ty::List(e) | Ty::FList(e, _) => Val::List(v.as_array().unwrap().iter().map(|x| Val::from_json(e, x)).collect()),
            Ty::Map(k, w) => Val::Map(
                v.as_array()
                    .unwrap()
                    .iter()
                    .map(|kv| (Val::from_json(k, &kv[0]), Val::from_json(w, &kv[1])))
                    .collect(),
            ),
            Ty::Record(fs) | Ty::Tuple(fs) => {
                Val::Record(fs.iter().zip(v.as_array().unwrap()).map(|(t, x)| Val::from_json(t, x)).collect())
            }
            Ty::Variant(cs) => {
                let c = v["c"].as_u64().unwrap() as usize;
                Val::Variant(c as u32, payload(cs[c].as_ref(), &v["v"]))
            }
            Ty::Enum(_) => Val::Enum(v.as_u64().unwrap() as u32),
            Ty::Option(t) => {
                if v["some"].as_bool().unwrap() {
                    Val::Opt(Some(Box::new(Val::from_json(t, &v["v"]))))
                } else {
                    Val::Opt(None)
                }
            }
            Ty::Result(a, b) => {
                let ok = v["ok"].as_bool().unwrap();
                let t = if ok { a } else { b };
                Val::Res(ok, payload(t.as_deref(), &v["v"]))
            }
            Ty::Flags(_) => Val::Flags(v.as_array().unwrap().iter().map(|b| b.as_bool().unwrap()).collect()),
        }
    }

    pub fn to_json(&self) -> Value {
        let nov = json!({"none": true});
        match self {
            Val::Bool(b) => json!(b),
            Val::Bytes(b) | Val::Str(b) => json!(b),
            Val::List(vs) | Val::Record(vs) => Value::Array(vs.iter().map(|v| v.to_json()).collect()),
            Val::Map(kv) => Value::Array(kv.iter().map(|(k, v)| json!([k.to_json(), v.to_json()])).collect()),
            Val::Variant(c, p) => json!({"c": c, "v": p.as_ref().map(|p| p.to_json()).unwrap_or(nov)}),
            Val::Enum(c) => json!(c),
            Val::Opt(p) => json!({"some": p.is_some(), "v": p.as_ref().map(|p| p.to_json()).unwrap_or(nov)}),
            Val::Res(ok, p) => json!({"ok": ok, "v": p.as_ref().map(|p| p.to_json()).unwrap_or(nov)}),
            Val::Flags(b) => json!(b),
        }
    }
}

/// Renders model types as WIT.  Records, variants, enums, flags and resources become named
/// definitions `t<n>` / `r<n>` of one interface; everything else is written inline.
#[derive(Default)]
pub struct WitBuilder {
    pub defs: Vec<String>,
    resources: Vec<u32>,
    named: Vec<(Ty, String)>,
}

impl WitBuilder {
    pub fn ty(&mut self, t: &Ty) -> String {
        match t {
            Ty::Prim(p) => match p.as_str() {
                "errctx" => "error-context".to_string(),
                p => p.to_string(),
            },
            Ty::List(e) => format!("list<{}>", self.ty(e)),
            Ty::FList(e, n) => format!("list<{}, {}>", self.ty(e), n),
            Ty::Map(k, v) => format!("map<{}, {}>", self.ty(k), self.ty(v)),
            Ty::Tuple(fs) => {
                let parts: Vec<String> = fs.iter().map(|f| self.ty(f)).collect();
                format!("tuple<{}>", parts.join(", "))
            }
            Ty::Option(e) => format!("option<{}>", self.ty(e)),
            Ty::Result(a, b) => match (a, b) {
                (None, None) => "result".to_string(),
                (Some(a), None) => format!("result<{}>", self.ty(a)),
                (None, Some(b)) => format!("result<_, {}>", self.ty(b)),
                (Some(a), Some(b)) => format!("result<{}, {}>", self.ty(a), self.ty(b)),
            },
            Ty::Own(r) => format!("own<{}>", self.resource(*r)),
            Ty::Borrow(r) => format!("borrow<{}>", self.resource(*r)),
            Ty::Future(p) => match p {
                None => "future".to_string(),
                Some(p) => format!("future<{}>", self.ty(p)),
            },
            Ty::Stream(p) => match p {
                None => "stream".to_string(),
                Some(p) => format!("stream<{}>", self.ty(p)),
            },
            Ty::Record(_) | Ty::Variant(_) | Ty::Enum(_) | Ty::Flags(_) => self.named(t),
        }
    }

    fn resource(&mut self, r: u32) -> String {
        if !self.resources.contains(&r) {
            self.resources.push(r);
            self.defs.push(format!("resource r{r};"));
        }
        format!("r{r}")
    }

    fn named(&mut self, t: &Ty) -> String {
        if let Some((_, n)) = self.named.iter().find(|(u, _)| u == t) {
            return n.clone();
        }
        // children first so that definitions are ordered
        let body = match t {
            Ty::Record(fs) => {
                let parts: Vec<String> = fs.iter().enumerate().map(|(i, f)| format!("f{i}: {}", self.ty(f))).collect();
                format!("{{ {} }}", parts.join(", "))
            }
            Ty::Variant(cs) => {
                let parts: Vec<String> = cs
                    .iter()
                    .enumerate()
                    .map(|(i, c)| match c {
                        Some(c) => format!("c{i}({})", self.ty(c)),
                        None => format!("c{i}"),
                    })
                    .collect();
                format!("{{ {} }}", parts.join(", "))
            }
            Ty::Enum(n) => {
                let parts: Vec<String> = (0..*n).map(|i| format!("e{i}")).collect();
                format!("{{ {} }}", parts.join(", "))
            }
            Ty::Flags(n) => {
                let parts: Vec<String> = (0..*n).map(|i| format!("b{i}")).collect();
                format!("{{ {} }}", parts.join(", "))
            }
            _ => unreachable!(),
        };
        let name = format!("t{}", self.named.len());
        let kw = match t {
            Ty::Record(_) => "record",
            Ty::Variant(_) => "variant",
            Ty::Enum(_) => "enum",
            _ => "flags",
        };
        self.defs.push(format!("{kw} {name} {body}"));
        self.named.push((t.clone(), name.clone()));
        name
    }
}
