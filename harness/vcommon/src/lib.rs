//! Shared helpers for the /verif harness binaries: ndjson I/O, a seeded PRNG and
//! panic capture.  Deliberately tiny and dependency-free beyond serde.
pub mod model;
use serde_json::Value;
use std::fs::File;
use std::io::{BufRead, BufReader, BufWriter, Write};

pub fn read_ndjson(path: &str) -> anyhow::Result<Vec<Value>> {
    let f = BufReader::new(File::open(path)?);
    let mut out = Vec::new();
    for line in f.lines() {
        let line = line?;
        let line = line.trim();
        if line.is_empty() {
            continue;
        }
        out.push(serde_json::from_str(line)?);
    }
    Ok(out)
}

pub struct NdjsonWriter {
    w: BufWriter<File>,
}

impl NdjsonWriter {
    pub fn create(path: &str) -> anyhow::Result<Self> {
        Ok(NdjsonWriter { w: BufWriter::new(File::create(path)?) })
    }
    pub fn write(&mut self, v: &Value) -> anyhow::Result<()> {
        serde_json::to_writer(&mut self.w, v)?;
        self.w.write_all(b"\n")?;
        Ok(())
    }
    pub fn flush(&mut self) -> anyhow::Result<()> {
        self.w.flush()?;
        Ok(())
    }
    pub fn finish(mut self) -> anyhow::Result<()> {
        self.w.flush()?;
        Ok(())
    }
}

/// SplitMix64: small, seedable, good enough for input generation.
#[derive(Clone)]
pub struct Rng(pub u64);

impl Rng {
    pub fn new(seed: u64) -> Rng {
        Rng(seed.wrapping_mul(0x9E3779B97F4A7C15) ^ 0xD1B54A32D192ED03)
    }
    pub fn next_u64(&mut self) -> u64 {
        self.0 = self.0.wrapping_add(0x9E3779B97F4A7C15);
        let mut z = self.0;
        z = (z ^ (z >> 30)).wrapping_mul(0xBF58476D1CE4E5B9);
        z = (z ^ (z >> 27)).wrapping_mul(0x94D049BB133111EB);
        z ^ (z >> 31)
    }
    pub fn below(&mut self, n: usize) -> usize {
        if n == 0 {
            0
        } else {
            (self.next_u64() % n as u64) as usize
        }
    }
    pub fn chance(&mut self, num: u64, den: u64) -> bool {
        self.next_u64() % den < num
    }
    pub fn pick<'a, T>(&mut self, xs: &'a [T]) -> &'a T {
        &xs[self.below(xs.len())]
    }
}

/// Run `f`, turning a panic into `Err(message)`.  The default panic hook is silenced for the
/// duration (a panic in code under test is data, not noise).
pub fn catch<T>(f: impl FnOnce() -> T + std::panic::UnwindSafe) -> Result<T, String> {
    let prev = std::panic::take_hook();
    std::panic::set_hook(Box::new(|_| {}));
    let r = std::panic::catch_unwind(f);
    std::panic::set_hook(prev);
    r.map_err(|e| {
        if let Some(s) = e.downcast_ref::<&str>() {
            s.to_string()
        } else if let Some(s) = e.downcast_ref::<String>() {
            s.clone()
        } else {
            "<non-string panic>".to_string()
        }
    })
}

pub fn silence_panics() {
    std::panic::set_hook(Box::new(|_| {}));
}
