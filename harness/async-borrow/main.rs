//! C08, borrowed handles: a fixed world (w.wit) whose exports -- bound asynchronously -- take `borrow<r>` parameters of an
//! imported resource.  The host lends the handles for the duration of the call; the bindings must give every one of them
//! back (`[resource-drop]r`) before the task reports its result (`task.return`) or its cancellation (`task.cancel`) -- as
//! the synchronous binding does before it returns.  Every run is one task of specs/rt/AsyncCall.tla.
#![allow(unused, non_snake_case, clippy::all)]
#[allow(warnings)]
mod bindings {
    include!("w_native.rs");
}
use bindings::t::b::imp::R;
use std::cell::Cell;
use vhost::serde_json::json;

thread_local! { static YIELDS: Cell<u32> = const { Cell::new(0) }; static EXPECT: Cell<u64> = const { Cell::new(0) }; }

async fn maybe_yield() {
    for _ in 0..YIELDS.with(|y| y.get()) {
        wit_bindgen::rt::async_support::yield_async().await;
    }
}

struct Impl;
impl bindings::exports::t::b::exp::Guest for Impl {
    async fn peek(x: &R, y: u32) -> u32 {
        maybe_yield().await;
        x.get() + y
    }
    async fn both(x: &R, z: &R) -> String {
        let a = x.get();
        maybe_yield().await;
        format!("{}-{}", a, z.get())
    }
    async fn plain(y: u32) -> u32 {
        maybe_yield().await;
        y + 1
    }
}
bindings::export!(Impl with_types_in bindings);

unsafe extern "C" {
    #[link_name = "[async-lift]t:b/exp#peek"]
    fn export_peek(a: i32, b: i32) -> i32;
    #[link_name = "[callback][async-lift]t:b/exp#peek"]
    fn callback_peek(a: u32, b: u32, c: u32) -> u32;
    #[link_name = "[async-lift]t:b/exp#both"]
    fn export_both(a: i32, b: i32) -> i32;
    #[link_name = "[callback][async-lift]t:b/exp#both"]
    fn callback_both(a: u32, b: u32, c: u32) -> u32;
    #[link_name = "[async-lift]t:b/exp#plain"]
    fn export_plain(a: i32) -> i32;
    #[link_name = "[callback][async-lift]t:b/exp#plain"]
    fn callback_plain(a: u32, b: u32, c: u32) -> u32;
}

/// the component-model host of w.wit: handle h of r holds the value 100 + h
fn host(key: &str, a: &[u64]) -> Option<u64> {
    Some(match key {
        "t:b/imp|[resource-drop]r" => {
            vhost::ahost::borrow_dropped(a[0] as u32);
            0
        }
        "t:b/imp|[method]r.get" => 100 + a[0],
        "t:b/imp|[constructor]r" => 99,
        "[export]t:b/exp|[task-return]peek" | "[export]t:b/exp|[task-return]plain" => {
            let want = EXPECT.with(|e| e.get());
            vhost::ahost::note_task_return(((a[0] as u32) as u64 != want) as usize);
            0
        }
        "[export]t:b/exp|[task-return]both" => {
            let s = unsafe { std::slice::from_raw_parts(a[0] as usize as *const u8, a[1] as usize) };
            vhost::ahost::note_task_return((s != b"105-106") as usize);
            0
        }
        _ => return None,
    })
}

fn main() {
    vhost::init();
    vhost::set_import_handler(host);
    let v = vhost::vector();
    let runs = v["runs"].as_array().unwrap().clone();
    for (n, r) in runs.iter().enumerate() {
        let (f, yields, cancel) = (r["f"].as_str().unwrap().to_string(), r["yields"].as_u64().unwrap() as u32, r["cancel_at"].as_u64().unwrap() as usize);
        YIELDS.with(|y| y.set(yields));
        let label = format!("task:{n}");      // built before the bracket opens: what is allocated inside belongs to the guest
        vhost::select(0);
        vhost::begin(&label);
        vhost::ahost::schedule("", cancel, 0, false, true);
        match f.as_str() {
            "peek" => {
                vhost::ahost::lend(&[5]);
                EXPECT.with(|e| e.set(105 + 7));
                vhost::track(true);
                let code = unsafe { export_peek(5, 7) } as u32;
                vhost::ahost::drive(code, |a, b, c| unsafe { callback_peek(a, b, c) });
            }
            "both" => {
                vhost::ahost::lend(&[5, 6]);
                vhost::track(true);
                let code = unsafe { export_both(5, 6) } as u32;
                vhost::ahost::drive(code, |a, b, c| unsafe { callback_both(a, b, c) });
            }
            _ => {
                vhost::ahost::lend(&[]);
                EXPECT.with(|e| e.set(8));
                vhost::track(true);
                let code = unsafe { export_plain(7) } as u32;
                vhost::ahost::drive(code, |a, b, c| unsafe { callback_plain(a, b, c) });
            }
        }
        vhost::end(&label);
    }
    vhost::finish();
}
