/* minimal freestanding shim of <string.h> */
#ifndef VERIF_STRING_H
#define VERIF_STRING_H
#include <stddef.h>
#ifdef __cplusplus
extern "C" {
#endif
void *memcpy(void *, const void *, size_t);
void *memmove(void *, const void *, size_t);
void *memset(void *, int, size_t);
int memcmp(const void *, const void *, size_t);
size_t strlen(const char *);
#ifdef __cplusplus
}
#endif
#endif
