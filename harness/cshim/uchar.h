/* minimal freestanding shim of <uchar.h> */
#ifndef VERIF_UCHAR_H
#define VERIF_UCHAR_H
#include <stdint.h>
#ifndef __cplusplus
typedef uint_least16_t char16_t;
typedef uint_least32_t char32_t;
#endif
#endif
