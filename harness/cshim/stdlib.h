/* minimal freestanding shim of <stdlib.h> for compiling generated C to wasm32 (no wasi-sdk in the sandbox) */
#ifndef VERIF_STDLIB_H
#define VERIF_STDLIB_H
#include <stddef.h>
#ifdef __cplusplus
extern "C" {
#endif
void *malloc(size_t);
void *calloc(size_t, size_t);
void *realloc(void *, size_t);
void free(void *);
void *aligned_alloc(size_t, size_t);
_Noreturn void abort(void);
#ifdef __cplusplus
}
#endif
#endif
