#ifndef VERIF_ASSERT_H
#define VERIF_ASSERT_H
#define assert(x) ((void)0)
#endif
