/* just enough libc for wasm-ld to resolve the symbols generated C references */
#include <stddef.h>
#include <stdint.h>
static unsigned char heap[1 << 16];
static size_t top;
void *malloc(size_t n) { size_t a = (top + 15) & ~(size_t)15; top = a + n; return heap + a; }
void *calloc(size_t a, size_t b) { return malloc(a * b); }
void *aligned_alloc(size_t al, size_t n) { (void)al; return malloc(n); }
void free(void *p) { (void)p; }
void *memcpy(void *d, const void *s, size_t n) { unsigned char *a = d; const unsigned char *b = s; while (n--) *a++ = *b++; return d; }
void *memmove(void *d, const void *s, size_t n) { return memcpy(d, s, n); }
void *memset(void *d, int c, size_t n) { unsigned char *a = d; while (n--) *a++ = (unsigned char)c; return d; }
int memcmp(const void *x, const void *y, size_t n) { const unsigned char *a = x, *b = y; while (n--) { if (*a != *b) return *a - *b; a++; b++; } return 0; }
size_t strlen(const char *s) { size_t n = 0; while (s[n]) n++; return n; }
void *realloc(void *p, size_t n) { void *q = malloc(n); if (p) memcpy(q, p, n); return q; }
_Noreturn void abort(void) { __builtin_trap(); }
