//! surface: the trusted component-model tooling used as a second oracle by C09, C12, C13, C17.
//!
//!   surface encode <jobs.ndjson> <out.ndjson>
//!       job: {id, wit, world?, imports:[{module,name,params,results}], exports:[{name,params,results}],
//!             type_section?: hex (the backend's own component-type section), string_encoding?}
//!       Builds a core module with exactly those imports/exports (bodies `unreachable`), embeds the
//!       component-type section (from the WIT unless given), runs wit_component::ComponentEncoder with
//!       validation, decodes the result and compares the world's import/export names with the input world.
//!   surface reference <jobs.ndjson> <out.ndjson>
//!       job: {id, wit, world?, async:[directives]}: the core imports/exports wit-parser's legacy name
//!       mangling assigns to every function of the world (names and signatures).
//!   surface module <wasm> : imports/exports (with signatures) of a linked core module.
use anyhow::{anyhow, bail, Context, Result};
use serde_json::{json, Value};
use vcommon::*;
use wasm_encoder::{CodeSection, CustomSection, EntityType, ExportKind, ExportSection, FunctionSection, ImportSection, Instruction, MemorySection, MemoryType, Module, TypeSection, ValType};
use wit_component::{ComponentEncoder, DecodedWasm, StringEncoding};
use wit_parser::abi::{AbiVariant, WasmType};
use wit_parser::*;

fn valty(s: &str) -> Result<ValType> {
    Ok(match s {
        "i32" => ValType::I32,
        "i64" => ValType::I64,
        "f32" => ValType::F32,
        "f64" => ValType::F64,
        o => bail!("unknown core type {o}"),
    })
}

fn load(wit: &str, world: Option<&str>) -> Result<(Resolve, WorldId)> {
    let mut resolve = Resolve::default();
    resolve.all_features = true;
    let (pkg, _) = resolve.push_path(wit)?;
    let w = resolve.select_world(&[pkg], world)?;
    Ok((resolve, w))
}

fn world_shape(resolve: &Resolve, w: WorldId) -> Value {
    let world = &resolve.worlds[w];
    let mut out = serde_json::Map::new();
    for (dir, items) in [("imports", &world.imports), ("exports", &world.exports)] {
        let mut m = serde_json::Map::new();
        for (key, item) in items.iter() {
            let name = resolve.name_world_key(key);
            match item {
                WorldItem::Function(f) => {
                    m.insert(name, json!({"kind": "func", "params": f.params.len(), "result": f.result.is_some()}));
                }
                WorldItem::Interface { id, .. } => {
                    let iface = &resolve.interfaces[*id];
                    let mut fs: Vec<String> = iface.functions.keys().cloned().collect();
                    fs.sort();
                    m.insert(name, json!({"kind": "interface", "funcs": fs}));
                }
                WorldItem::Type { .. } => {
                    m.insert(name, json!({"kind": "type"}));
                }
            }
        }
        out.insert(dir.to_string(), Value::Object(m));
    }
    Value::Object(out)
}

fn hex(s: &str) -> Vec<u8> {
    (0..s.len() / 2).map(|i| u8::from_str_radix(&s[2 * i..2 * i + 2], 16).unwrap()).collect()
}

fn encode_one(job: &Value) -> Result<Value> {
    let (resolve, w) = load(job["wit"].as_str().unwrap(), job["world"].as_str())?;
    let mut module = Module::new();
    let mut types = TypeSection::new();
    let mut imports = ImportSection::new();
    let mut funcs = FunctionSection::new();
    let mut exports = ExportSection::new();
    let mut code = CodeSection::new();
    let mut nty = 0u32;
    let mut nfunc = 0u32;
    let sig = |v: &Value| -> Result<(Vec<ValType>, Vec<ValType>)> {
        let p = v["params"].as_array().unwrap().iter().map(|x| valty(x.as_str().unwrap())).collect::<Result<Vec<_>>>()?;
        let r = v["results"].as_array().unwrap().iter().map(|x| valty(x.as_str().unwrap())).collect::<Result<Vec<_>>>()?;
        Ok((p, r))
    };
    for i in job["imports"].as_array().unwrap() {
        let (p, r) = sig(i)?;
        types.ty().function(p, r);
        imports.import(i["module"].as_str().unwrap(), i["name"].as_str().unwrap(), EntityType::Function(nty));
        nty += 1;
        nfunc += 1;
    }
    let mut export_list = job["exports"].as_array().unwrap().clone();
    if !export_list.iter().any(|e| e["name"] == "cabi_realloc") {
        export_list.push(json!({"name": "cabi_realloc", "params": ["i32", "i32", "i32", "i32"], "results": ["i32"]}));
    }
    for e in &export_list {
        let (p, r) = sig(e)?;
        types.ty().function(p, r);
        funcs.function(nty);
        let mut f = wasm_encoder::Function::new([]);
        f.instruction(&Instruction::Unreachable);
        f.instruction(&Instruction::End);
        code.function(&f);
        exports.export(e["name"].as_str().unwrap(), ExportKind::Func, nfunc);
        nty += 1;
        nfunc += 1;
    }
    let mut memory = MemorySection::new();
    memory.memory(MemoryType { minimum: 1, maximum: None, memory64: false, shared: false, page_size_log2: None });
    exports.export("memory", ExportKind::Memory, 0);
    module.section(&types);
    module.section(&imports);
    module.section(&funcs);
    module.section(&memory);
    module.section(&exports);
    module.section(&code);
    let enc = match job["string_encoding"].as_str() {
        Some("utf16") => StringEncoding::UTF16,
        _ => StringEncoding::UTF8,
    };
    let section = match job["type_section"].as_str() {
        Some(h) => hex(h),
        None => wit_component::metadata::encode(&resolve, w, enc, None)?,
    };
    module.section(&CustomSection { name: "component-type:verif".into(), data: section.into() });
    let wasm = module.finish();
    let mut encoder = ComponentEncoder::default();
    let component = encoder.validate(true).module(&wasm).and_then(|e| e.encode());
    let component = match component {
        Ok(c) => c,
        Err(e) => return Ok(json!({"id": job["id"], "encoder": "error", "error": format!("{e:#}")})),
    };
    // decode and compare the shape of the world
    let decoded = wit_component::decode(&component)?;
    let (r2, w2) = match decoded {
        DecodedWasm::Component(r, w) => (r, w),
        DecodedWasm::WitPackage(..) => bail!("decoded a package, not a component"),
    };
    let a = world_shape(&resolve, w);
    let b = world_shape(&r2, w2);
    Ok(json!({"id": job["id"], "encoder": "ok", "want": a, "got": b}))
}

fn core(t: &WasmType) -> &'static str {
    match t {
        WasmType::I32 | WasmType::Pointer | WasmType::Length => "i32",
        WasmType::I64 | WasmType::PointerOrI64 => "i64",
        WasmType::F32 => "f32",
        WasmType::F64 => "f64",
    }
}

fn sig_json(s: &wit_parser::abi::WasmSignature) -> (Vec<&'static str>, Vec<&'static str>) {
    (s.params.iter().map(core).collect(), s.results.iter().map(core).collect())
}

/// Is `f` bound async under the given `--async` directives (same rule as the spec AsyncFilter)?
fn is_async(dirs: &[String], qualified: &str, import: bool, f: &Function) -> bool {
    for d in dirs {
        let (en, body) = match d.strip_prefix('-') {
            Some(b) => (false, b),
            None => (true, d.as_str()),
        };
        if body == "all" {
            return en;
        }
        if let Some(n) = body.strip_prefix("import:") {
            if import && n == qualified {
                return en;
            }
        } else if let Some(n) = body.strip_prefix("export:") {
            if !import && n == qualified {
                return en;
            }
        } else if body == qualified {
            return en;
        }
    }
    matches!(f.kind, FunctionKind::AsyncFreestanding | FunctionKind::AsyncMethod(_) | FunctionKind::AsyncStatic(_))
}

fn reference_one(job: &Value) -> Result<Value> {
    let (resolve, w) = load(job["wit"].as_str().unwrap(), job["world"].as_str())?;
    let dirs: Vec<String> = job["async"].as_array().map(|a| a.iter().map(|x| x.as_str().unwrap().to_string()).collect()).unwrap_or_default();
    let world = &resolve.worlds[w];
    let mut imports = Vec::new();
    let mut exports = Vec::new();
    let mut funcs: Vec<(Option<WorldKey>, Function, bool)> = Vec::new();
    let mut resources: Vec<(Option<WorldKey>, String, bool)> = Vec::new();
    for (imp, items) in [(true, &world.imports), (false, &world.exports)] {
        for (key, item) in items.iter() {
            match item {
                WorldItem::Function(f) => funcs.push((None, f.clone(), imp)),
                WorldItem::Interface { id, .. } => {
                    for (_, f) in resolve.interfaces[*id].functions.iter() {
                        funcs.push((Some(key.clone()), f.clone(), imp));
                    }
                    for (name, tid) in resolve.interfaces[*id].types.iter() {
                        if matches!(resolve.types[*tid].kind, TypeDefKind::Resource) {
                            resources.push((Some(key.clone()), name.clone(), imp));
                        }
                    }
                }
                WorldItem::Type { id, .. } => {
                    if matches!(resolve.types[*id].kind, TypeDefKind::Resource) {
                        if let Some(n) = &resolve.types[*id].name {
                            resources.push((None, n.clone(), imp));
                        }
                    }
                }
            }
        }
    }
    for (key, f, imp) in &funcs {
        let iface = key.as_ref().map(|k| resolve.name_world_key(k));
        let qualified = match &iface {
            Some(i) => format!("{i}#{}", f.name),
            None => f.name.clone(),
        };
        let a = is_async(&dirs, &qualified, *imp, f);
        if *imp {
            let module = iface.clone().unwrap_or_else(|| "$root".to_string());
            let variant = if a { AbiVariant::GuestImportAsync } else { AbiVariant::GuestImport };
            let (p, r) = sig_json(&resolve.wasm_signature(variant, f));
            let name = if a { format!("[async-lower]{}", f.name) } else { f.name.clone() };
            imports.push(json!({"module": module, "name": name, "params": p, "results": r, "func": qualified, "async": a, "required": false}));
        } else {
            let base = qualified.clone();
            let variant = if a { AbiVariant::GuestExportAsync } else { AbiVariant::GuestExport };
            let (p, r) = sig_json(&resolve.wasm_signature(variant, f));
            let name = if a { format!("[async-lift]{base}") } else { base.clone() };
            exports.push(json!({"name": name, "params": p, "results": r, "func": qualified, "async": a, "required": true}));
            if a {
                exports.push(json!({"name": format!("[callback][async-lift]{base}"), "params": ["i32", "i32", "i32"], "results": ["i32"], "func": qualified, "async": a, "required": true}));
                let module = format!("[export]{}", iface.clone().unwrap_or_else(|| "$root".to_string()));
                let (m2, n2, s2) = f.task_return_import(&resolve, key.as_ref(), Mangling::Legacy);
                assert_eq!(m2, module);
                let (p, r) = sig_json(&s2);
                imports.push(json!({"module": m2, "name": n2, "params": p, "results": r, "func": qualified, "required": false}));
            } else {
                exports.push(json!({"name": format!("cabi_post_{base}"), "params": r, "results": [], "func": qualified, "required": false}));
            }
        }
    }
    for (key, f, imp) in &funcs {
        let iface = key.as_ref().map(|k| resolve.name_world_key(k)).unwrap_or_else(|| "$root".to_string());
        let module = if *imp { iface } else { format!("[export]{iface}") };
        for (idx, tid) in f.find_futures_and_streams(&resolve).into_iter().enumerate() {
            let k = match &resolve.types[tid].kind {
                TypeDefKind::Future(_) => "future",
                TypeDefKind::Stream(_) => "stream",
                _ => unreachable!(),
            };
            let nm = |op: &str| format!("[{k}-{op}-{idx}]{}", f.name);
            let rw: Vec<&str> = if k == "future" { vec!["i32", "i32"] } else { vec!["i32", "i32", "i32"] };
            imports.push(json!({"module": module, "name": nm("new"), "params": [], "results": ["i64"], "required": false}));
            for op in ["read", "write"] {
                for pre in ["", "[async-lower]"] {
                    imports.push(json!({"module": module, "name": format!("{pre}{}", nm(op)), "params": rw, "results": ["i32"], "required": false}));
                }
            }
            for op in ["cancel-read", "cancel-write"] {
                for pre in ["", "[async-lower]"] {
                    imports.push(json!({"module": module, "name": format!("{pre}{}", nm(op)), "params": ["i32"], "results": ["i32"], "required": false}));
                }
            }
            for op in ["drop-readable", "drop-writable"] {
                imports.push(json!({"module": module, "name": nm(op), "params": ["i32"], "results": [], "required": false}));
            }
        }
    }
    for (key, name, imp) in &resources {
        let iface = key.as_ref().map(|k| resolve.name_world_key(k)).unwrap_or_else(|| "$root".to_string());
        if *imp {
            imports.push(json!({"module": iface, "name": format!("[resource-drop]{name}"), "params": ["i32"], "results": [], "required": false}));
        } else {
            let m = format!("[export]{iface}");
            imports.push(json!({"module": m, "name": format!("[resource-drop]{name}"), "params": ["i32"], "results": [], "required": false}));
            imports.push(json!({"module": m, "name": format!("[resource-new]{name}"), "params": ["i32"], "results": ["i32"], "required": false}));
            imports.push(json!({"module": m, "name": format!("[resource-rep]{name}"), "params": ["i32"], "results": ["i32"], "required": false}));
            let base = if iface == "$root" { format!("[dtor]{name}") } else { format!("{iface}#[dtor]{name}") };
            exports.push(json!({"name": base, "params": ["i32"], "results": [], "required": false}));
        }
    }
    Ok(json!({"id": job["id"], "imports": imports, "exports": exports}))
}

fn module_surface(path: &str) -> Result<Value> {
    use wasmparser::{Parser, Payload, TypeRef};
    let bytes = std::fs::read(path)?;
    let mut types: Vec<(Vec<String>, Vec<String>)> = Vec::new();
    let mut func_types: Vec<u32> = Vec::new();
    let mut imports = Vec::new();
    let mut exports = Vec::new();
    let mut nimp = 0u32;
    let t = |v: &wasmparser::ValType| format!("{v}").to_lowercase();
    for payload in Parser::new(0).parse_all(&bytes) {
        match payload? {
            Payload::TypeSection(r) => {
                for rg in r {
                    for st in rg?.into_types() {
                        if let wasmparser::CompositeInnerType::Func(f) = &st.composite_type.inner {
                            types.push((f.params().iter().map(&t).collect(), f.results().iter().map(&t).collect()));
                        } else {
                            types.push((vec![], vec![]));
                        }
                    }
                }
            }
            Payload::ImportSection(r) => {
                for i in r.into_imports() {
                    let i = i?;
                    if let TypeRef::Func(ti) = i.ty {
                        let (p, r) = types[ti as usize].clone();
                        imports.push(json!({"module": i.module, "name": i.name, "params": p, "results": r}));
                        func_types.push(ti);
                        nimp += 1;
                    }
                }
            }
            Payload::FunctionSection(r) => {
                for f in r {
                    func_types.push(f?);
                }
            }
            Payload::ExportSection(r) => {
                for e in r {
                    let e = e?;
                    if e.kind == wasmparser::ExternalKind::Func {
                        let (p, r) = types[func_types[e.index as usize] as usize].clone();
                        exports.push(json!({"name": e.name, "params": p, "results": r}));
                    }
                }
            }
            _ => {}
        }
    }
    let _ = nimp;
    Ok(json!({"imports": imports, "exports": exports}))
}

fn component_one(job: &Value) -> Result<Value> {
    // a linked core module (with its own component-type section) -> component -> compare world
    let (resolve, w) = load(job["wit"].as_str().unwrap(), job["world"].as_str())?;
    let wasm = std::fs::read(job["module"].as_str().unwrap()).context("read module")?;
    let mut encoder = ComponentEncoder::default();
    let component = match encoder.validate(true).module(&wasm).and_then(|e| e.encode()) {
        Ok(c) => c,
        Err(e) => return Ok(json!({"id": job["id"], "encoder": "error", "error": format!("{e:#}")})),
    };
    let (r2, w2) = match wit_component::decode(&component)? {
        DecodedWasm::Component(r, w) => (r, w),
        _ => return Err(anyhow!("not a component")),
    };
    let a = world_shape(&resolve, w);
    let b = world_shape(&r2, w2);
    // the string encodings the module's own metadata declares for the world's functions
    let (_, bindgen) = wit_component::metadata::decode(&wasm)?;
    let mut encodings = std::collections::BTreeSet::new();
    let mw = &bindgen.resolve.worlds[bindgen.world];
    for (map, items) in [(&bindgen.metadata.import_encodings, &mw.imports), (&bindgen.metadata.export_encodings, &mw.exports)] {
        for (key, item) in items.iter() {
            let names: Vec<String> = match item {
                WorldItem::Function(f) => vec![f.name.clone()],
                WorldItem::Interface { id, .. } => bindgen.resolve.interfaces[*id].functions.keys().cloned().collect(),
                WorldItem::Type { .. } => vec![],
            };
            for n in names {
                if let Some(e) = map.get(&bindgen.resolve, key, &n) {
                    encodings.insert(format!("{e:?}"));
                }
            }
        }
    }
    Ok(json!({"id": job["id"], "encoder": "ok", "want": a, "got": b, "encodings": encodings}))
}

fn main() -> Result<()> {
    let a: Vec<String> = std::env::args().collect();
    match a.get(1).map(|s| s.as_str()) {
        Some("module") => {
            println!("{}", module_surface(&a[2])?);
            Ok(())
        }
        Some(cmd @ ("encode" | "reference" | "component")) => {
            let jobs = read_ndjson(&a[2])?;
            let mut w = NdjsonWriter::create(&a[3])?;
            for j in &jobs {
                let r = std::panic::catch_unwind(std::panic::AssertUnwindSafe(|| match cmd {
                    "encode" => encode_one(j),
                    "reference" => reference_one(j),
                    _ => component_one(j),
                }));
                let v = match r {
                    Ok(Ok(v)) => v,
                    Ok(Err(e)) => json!({"id": j["id"], "tool_error": format!("{e:#}")}),
                    Err(_) => json!({"id": j["id"], "tool_error": "panic in wit-component/wit-parser"}),
                };
                w.write(&v)?;
            }
            w.finish()
        }
        _ => bail!("usage: surface encode|reference|component <jobs> <out> | module <wasm>"),
    }
}
