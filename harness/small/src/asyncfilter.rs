//! C17 (core part): the real `AsyncFilterSet` (`push`, `is_async`, `ensure_all_used`) driven by
//! directive lists and worlds enumerated by TLC (replay) and by seeded random lists whose
//! observed answers TLC re-derives from AsyncFilter.tla (record).
use anyhow::Result;
use serde_json::{json, Value};
use vcommon::*;
use wit_bindgen_core::AsyncFilterSet;
use wit_parser::{Function, FunctionKind, Resolve, WorldItem, WorldKey};

pub fn directive_text(d: &Value) -> String {
    let en = d["en"].as_bool().unwrap();
    let name = d["name"].as_str().unwrap();
    let body = match d["kind"].as_str().unwrap() {
        "all" => "all".to_string(),
        "fn" => name.to_string(),
        "import" => format!("import:{name}"),
        "export" => format!("export:{name}"),
        k => panic!("unknown kind {k}"),
    };
    if en { body } else { format!("-{body}") }
}

pub fn world_wit(items: &[String]) -> String {
    let mut s = String::from(
        "package t:p;\ninterface i {\n  g: func();\n  h: async func();\n  resource r { m: func(); }\n}\nworld w {\n",
    );
    for it in items {
        s.push_str(match it.as_str() {
            "if" => "  import f: func();\n",
            "ef" => "  export f: func();\n",
            "ii" => "  import i;\n",
            "ei" => "  export i;\n",
            "ek" => "  export k: async func();\n",
            "ir" => "  resource c { f: func(); }\n",
            x => panic!("unknown item {x}"),
        });
    }
    s.push_str("}\n");
    s
}

fn declared_async(f: &Function) -> bool {
    matches!(
        f.kind,
        FunctionKind::AsyncFreestanding | FunctionKind::AsyncMethod(_) | FunctionKind::AsyncStatic(_)
    )
}

/// All functions of the world as (interface key, function, is_import).
fn world_functions(resolve: &Resolve, wit: &str) -> Vec<(Option<WorldKey>, Function, bool)> {
    let _ = wit;
    let (wid, world) = resolve.worlds.iter().next().unwrap();
    let _ = wid;
    let mut out = Vec::new();
    for (imp, items) in [(true, &world.imports), (false, &world.exports)] {
        for (key, item) in items.iter() {
            match item {
                WorldItem::Function(f) => out.push((None, f.clone(), imp)),
                WorldItem::Interface { id, .. } => {
                    for (_, f) in resolve.interfaces[*id].functions.iter() {
                        out.push((Some(key.clone()), f.clone(), imp));
                    }
                }
                WorldItem::Type { .. } => {}
            }
        }
    }
    out
}

fn qualified(resolve: &Resolve, key: &Option<WorldKey>, f: &Function) -> String {
    match key {
        Some(k) => format!("{}#{}", resolve.name_world_key(k), f.name),
        None => f.name.clone(),
    }
}

/// Runs the real filter; returns (answers as [name, imp, decl, ans], ensure_all_used is error).
fn observe(dirs: &[String], items: &[String], reverse: bool) -> Result<(Vec<Value>, bool)> {
    let wit = world_wit(items);
    let mut resolve = Resolve::default();
    resolve.push_str("w.wit", &wit)?;
    let mut set = AsyncFilterSet::default();
    for d in dirs {
        set.push(d);
    }
    let mut funcs = world_functions(&resolve, &wit);
    if reverse {
        funcs.reverse();
    }
    let mut answers = Vec::new();
    for (key, f, imp) in &funcs {
        let ans = set.is_async(&resolve, key.as_ref(), f, *imp);
        answers.push(json!({"name": qualified(&resolve, key, f), "imp": imp, "decl": declared_async(f), "ans": ans}));
    }
    Ok((answers, set.ensure_all_used().is_err()))
}

pub fn replay(vecs: &str, out: &str) -> Result<()> {
    let vecs = read_ndjson(vecs)?;
    let mut w = NdjsonWriter::create(out)?;
    for (i, v) in vecs.iter().enumerate() {
        let dirs: Vec<String> = v["dirs"].as_array().unwrap().iter().map(directive_text).collect();
        let items: Vec<String> = v["world"].as_array().unwrap().iter().map(|x| x.as_str().unwrap().to_string()).collect();
        for reverse in [false, true] {
            let (answers, err) = observe(&dirs, &items, reverse)?;
            let mut problems = Vec::new();
            // the world the harness built must be the world the spec talks about
            let mut got_funcs: Vec<(String, bool, bool)> = answers
                .iter()
                .map(|a| (a["name"].as_str().unwrap().to_string(), a["imp"].as_bool().unwrap(), a["decl"].as_bool().unwrap()))
                .collect();
            let mut want_funcs: Vec<(String, bool, bool)> = v["funcs"]
                .as_array()
                .unwrap()
                .iter()
                .map(|a| (a["name"].as_str().unwrap().to_string(), a["imp"].as_bool().unwrap(), a["decl"].as_bool().unwrap()))
                .collect();
            got_funcs.sort();
            want_funcs.sort();
            if got_funcs != want_funcs {
                problems.push(json!({"world_mismatch": got_funcs}));
            }
            let is_async = |name: &str, imp: bool| {
                v["async"].as_array().unwrap().iter().any(|a| a["name"] == name && a["imp"] == imp)
            };
            for a in &answers {
                let want = is_async(a["name"].as_str().unwrap(), a["imp"].as_bool().unwrap());
                if a["ans"].as_bool().unwrap() != want {
                    problems.push(json!({"func": a, "expected_async": want}));
                }
            }
            if v["mustReject"].as_bool().unwrap() && !err {
                problems.push(json!({"ensure_all_used": "accepted a directive that matched nothing"}));
            }
            if v["mustAccept"].as_bool().unwrap() && err {
                problems.push(json!({"ensure_all_used": "rejected although every directive decided a function"}));
            }
            if !problems.is_empty() {
                w.write(&json!({"i": i, "dirs": dirs, "world": items, "reverse": reverse, "problems": problems}))?;
            }
        }
    }
    w.write(&json!({"done": vecs.len()}))?;
    w.finish()
}

pub fn record(seed: u64, n: usize, out: &str) -> Result<()> {
    let mut rng = Rng::new(seed);
    let mut w = NdjsonWriter::create(out)?;
    let names = ["f", "t:p/i#g", "t:p/i#h", "t:p/i#[method]r.m", "g", "k", "[method]c.f", "c.f", "t:p/i", "i#g", "t:p/i#[method]r", "all2"];
    let all_items = ["if", "ef", "ii", "ei", "ek", "ir"];
    for _ in 0..n {
        let nd = rng.below(6);
        let mut dirs = Vec::new();
        for _ in 0..nd {
            let kind = *rng.pick(&["all", "fn", "fn", "import", "export"][..]);
            let name = if kind == "all" { "" } else { *rng.pick(&names[..]) };
            dirs.push(json!({"en": rng.chance(1, 2), "kind": kind, "name": name}));
        }
        let mut items: Vec<String> = all_items.iter().filter(|_| rng.chance(3, 5)).map(|s| s.to_string()).collect();
        if items.is_empty() {
            items.push("ii".to_string());
        }
        let texts: Vec<String> = dirs.iter().map(directive_text).collect();
        let (answers, err) = observe(&texts, &items, rng.chance(1, 2))?;
        w.write(&json!({"dirs": dirs, "world": items, "answers": answers, "err": err}))?;
    }
    w.finish()
}
