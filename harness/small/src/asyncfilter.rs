use anyhow::{bail, Result};
pub fn replay(_vecs: &str, _out: &str) -> Result<()> { bail!("todo") }
pub fn record(_seed: u64, _n: usize, _out: &str) -> Result<()> { bail!("todo") }
