//! C34: the test runner's `parse_test_config` (private module of wit-bindgen-test, compiled
//! here directly from /repo/crates/test/src/config.rs) on files enumerated by TLC (replay)
//! and on seeded random files whose observed configuration TLC re-derives (record).
use anyhow::Result;
use serde_json::{json, Value};
use vcommon::*;

#[allow(dead_code)]
#[path = "/repo/crates/test/src/config.rs"]
mod config;

const MARKERS: [&str; 3] = ["//@", ";;@", "#@"];

fn body_text(b: &str, variant: usize) -> &'static str {
    match (b, variant % 2) {
        ("argsS", 0) => " args = '--x  --y'",
        ("argsS", _) => "args='--x\t--y '",
        ("argsL", 0) => " args = ['--x', '--y']",
        ("argsL", _) => "args=[\"--x\",\"--y\"]",
        ("argsS2", 0) => " args = ' -z '",
        ("argsS2", _) => " args = \"-z\"",
        ("flagsS", 0) => " wasmtime-flags = '-W a'",
        ("flagsS", _) => "wasmtime-flags='-W   a'",
        ("flagsL", 0) => " wasmtime-flags = ['-W', 'a']",
        ("flagsL", _) => " wasmtime-flags = [\n'-W', 'a']".split('\n').next().unwrap(), // kept single-line
        ("bogus", _) => " unknown-key = 1",
        ("blank", _) => "",
        ("code", 0) => " fn main() { let args = 1; }",
        ("code", _) => " int main(void) { return 0; }",
        _ => panic!("unknown body {b}"),
    }
}

fn render_line(l: &Value, marker: &str, variant: usize) -> String {
    let ind = l["ind"].as_u64().unwrap() as usize;
    let pre = match l["pre"].as_str().unwrap() {
        "m" => marker.to_string(),
        "c" => format!("{} ", &marker[..marker.len() - 1]),
        "o" => (if marker == "//@" { ";;@" } else { "//@" }).to_string(),
        "n" => String::new(),
        p => panic!("unknown prefix {p}"),
    };
    let mut body = body_text(l["body"].as_str().unwrap(), variant).to_string();
    if l["body"] == "flagsL" && variant % 2 == 1 {
        body = " wasmtime-flags = ['-W','a']".to_string();
    }
    format!("{}{}{}", " ".repeat(ind), pre, body)
}

pub fn render(file: &Value, marker: &str, variant: usize) -> String {
    let lines: Vec<String> = file
        .as_array()
        .unwrap()
        .iter()
        .enumerate()
        .map(|(i, l)| render_line(l, marker, variant + i))
        .collect();
    let mut s = lines.join("\n");
    if variant % 3 != 0 && !lines.is_empty() {
        s.push('\n');
    }
    s
}

fn observe(text: &str, marker: &str) -> Value {
    match catch(|| config::parse_test_config::<config::RuntimeTestConfig>(text, marker)) {
        Err(p) => json!({"panic": p}),
        Ok(Err(_)) => json!({"ok": false, "args": [], "flags": []}),
        Ok(Ok(c)) => {
            let args: Vec<String> = c.args.into();
            let flags: Vec<String> = c.wasmtime_flags.into();
            json!({"ok": true, "args": args, "flags": flags})
        }
    }
}

pub fn replay(vecs: &str, out: &str) -> Result<()> {
    let vecs = read_ndjson(vecs)?;
    let mut w = NdjsonWriter::create(out)?;
    let mut runs = 0usize;
    for (i, v) in vecs.iter().enumerate() {
        for (mi, marker) in MARKERS.iter().enumerate() {
            for variant in 0..2 {
                let text = render(&v["file"], marker, variant + mi);
                let got = observe(&text, marker);
                runs += 1;
                if got != v["config"] {
                    w.write(&json!({"i": i, "file": v["file"], "text": text, "marker": marker,
                                    "expected": v["config"], "got": got}))?;
                }
            }
        }
    }
    w.write(&json!({"done": vecs.len(), "runs": runs}))?;
    w.finish()
}

pub fn record(seed: u64, n: usize, out: &str) -> Result<()> {
    let mut rng = Rng::new(seed);
    let mut w = NdjsonWriter::create(out)?;
    let bodies = ["argsS", "argsL", "argsS2", "flagsS", "flagsL", "bogus", "blank", "code"];
    for k in 0..n {
        let len = rng.below(9);
        let lead = rng.below(4);
        let mut file = Vec::new();
        for i in 0..len {
            let (ind, pre, body) = if i < lead && rng.chance(5, 6) {
                (0, "m", *rng.pick(&bodies[..]))
            } else {
                let pre = *rng.pick(&["m", "m", "c", "o", "n"][..]);
                (rng.below(2), pre, *rng.pick(&bodies[..]))
            };
            file.push(json!({"ind": ind, "pre": pre, "body": body}));
        }
        let file = Value::Array(file);
        let marker = MARKERS[k % 3];
        let text = render(&file, marker, rng.below(6));
        let got = observe(&text, marker);
        w.write(&json!({"file": file, "marker": marker, "text": text, "config": got}))?;
    }
    w.finish()
}
