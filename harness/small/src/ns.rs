//! C26: the real `wit_bindgen_core::ns::Ns` driven by TLC histories (replay) and by seeded
//! random histories whose observations TLC validates (record).
use anyhow::Result;
use serde_json::{json, Value};
use vcommon::*;
use wit_bindgen_core::Ns;

fn apply(ns: &mut Ns, op: &str, arg: &str) -> String {
    match op {
        "insert" => match ns.insert(arg) {
            Ok(()) => "ok".to_string(),
            Err(_) => "err".to_string(),
        },
        "tmp" => ns.tmp(arg),
        _ => panic!("unknown op {op}"),
    }
}

pub fn replay(vecs: &str, out: &str) -> Result<()> {
    let vecs = read_ndjson(vecs)?;
    let mut w = NdjsonWriter::create(out)?;
    for (i, v) in vecs.iter().enumerate() {
        let mut ns = Ns::default();
        let mut got = Vec::new();
        let mut ok = true;
        for step in v["hist"].as_array().unwrap() {
            let op = step["op"].as_str().unwrap();
            let arg = step["arg"].as_str().unwrap();
            let r = catch(std::panic::AssertUnwindSafe(|| apply(&mut ns, op, arg)))
                .unwrap_or_else(|p| format!("PANIC: {p}"));
            if r != step["res"].as_str().unwrap() {
                ok = false;
            }
            got.push(r);
        }
        // projection of the final abstract state: probe every name of the universe
        let mut proj_ok = true;
        for n in v["defined"].as_array().unwrap() {
            if ns.insert(n.as_str().unwrap()).is_ok() {
                proj_ok = false;
            }
        }
        for n in v["absent"].as_array().unwrap() {
            if ns.insert(n.as_str().unwrap()).is_err() {
                proj_ok = false;
            }
        }
        if !ok || !proj_ok {
            w.write(&json!({"i": i, "ok": false, "vec": v, "got": got, "state_ok": proj_ok}))?;
        }
    }
    w.write(&json!({"done": vecs.len()}))?;
    w.finish()
}

/// Seeded random histories over a wider alphabet, logged as a trace for Trace_Ns.tla.
pub fn record(seed: u64, n: usize, out: &str) -> Result<()> {
    let mut rng = Rng::new(seed);
    let mut w = NdjsonWriter::create(out)?;
    let bases = ["a", "b", "ptr", "a0", "a1", "a10", "ptr1", "b2", "len", "x_"];
    for _ in 0..n {
        w.write(&json!({"op": "reset"}))?;
        let mut ns = Ns::default();
        let len = 1 + rng.below(24);
        // a small per-history alphabet makes collisions likely
        let k = 1 + rng.below(4);
        let alpha: Vec<String> = (0..k)
            .map(|_| {
                let b = *rng.pick(&bases);
                if rng.chance(1, 3) { format!("{b}{}", rng.below(6)) } else { b.to_string() }
            })
            .collect();
        for _ in 0..len {
            let arg = rng.pick(&alpha).clone();
            let op = if rng.chance(1, 2) { "insert" } else { "tmp" };
            let res = apply(&mut ns, op, &arg);
            let ev: Value = json!({"op": op, "arg": arg, "res": res});
            w.write(&ev)?;
        }
    }
    w.finish()
}
