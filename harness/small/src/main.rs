//! Drivers for the small sequential pieces of wit-bindgen (DESIGN.md section 4, "small").
//! Every subcommand is either `replay` (TLC vectors -> real code, compare) or `record`
//! (seeded random inputs -> real code -> observations that TLC validates).
use anyhow::{bail, Result};

mod ns;
mod source;
mod pkgname;
mod testconfig;
mod asyncfilter;
mod witfeatures;
mod typeeq;
mod runmatrix;

fn main() -> Result<()> {
    let args: Vec<String> = std::env::args().collect();
    if args.len() < 3 {
        bail!("usage: small <piece> <replay|record> ...");
    }
    let rest = &args[3..];
    match (args[1].as_str(), args[2].as_str()) {
        ("runmatrix", _) => runmatrix::run(&args[2], &args[3], args.get(4).map(|s| s.parse().unwrap()).unwrap_or(14)),
        ("witfeatures", _) => witfeatures::run(&args[2..]),
        ("typeeq", _) => typeeq::run(&args[2], &args[3]),
        ("ns", "replay") => ns::replay(&rest[0], &rest[1]),
        ("ns", "record") => ns::record(rest[0].parse()?, rest[1].parse()?, &rest[2]),
        ("source", "replay") => source::replay(&rest[0], &rest[1]),
        ("source", "record") => source::record(rest[0].parse()?, rest[1].parse()?, &rest[2]),
        ("pkgname", "replay") => pkgname::replay(&rest[0], &rest[1]),
        ("pkgname", "record") => pkgname::record(rest[0].parse()?, rest[1].parse()?, &rest[2]),
        ("testconfig", "replay") => testconfig::replay(&rest[0], &rest[1]),
        ("testconfig", "record") => testconfig::record(rest[0].parse()?, rest[1].parse()?, &rest[2]),
        ("asyncfilter", "replay") => asyncfilter::replay(&rest[0], &rest[1]),
        ("asyncfilter", "record") => asyncfilter::record(rest[0].parse()?, rest[1].parse()?, &rest[2]),
        _ => bail!("unknown subcommand"),
    }
}
