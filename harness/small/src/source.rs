//! C25: the real `wit_bindgen_core::Source` driven by TLC histories (replay) and by seeded
//! random histories whose observations TLC validates against the same model (record).
//!
//! The private fields are projected through the public API only: the text with `as_str`,
//! the indentation level, the "continuing line" flag and the comment flag with probes on
//! re-executed copies of the history.
use anyhow::Result;
use serde_json::{json, Value};
use std::fmt::Write;
use vcommon::*;
use wit_bindgen_core::Source;

fn text(v: &Value) -> String {
    v.as_array().unwrap().iter().map(|c| c.as_str().unwrap()).collect()
}

fn apply(s: &mut Source, op: &str, txt: &str) {
    match op {
        "push" => s.push_str(txt),
        "write" => write!(s, "{txt}").unwrap(),
        "lit" => s.push_str_literal(txt),
        "indent" => s.indent(1),
        "deindent" => s.deindent(1),
        _ => panic!("unknown op {op}"),
    }
}

fn build(hist: &[(String, String)]) -> Source {
    let mut s = Source::default();
    for (op, txt) in hist {
        apply(&mut s, op, txt);
    }
    s
}

fn leading_spaces_of_last_line(s: &str) -> usize {
    let last = s.rsplit('\n').next().unwrap();
    last.len() - last.trim_start_matches(' ').len()
}

/// (text, indent, continuing, in_comment) of the real buffer after `hist`.
pub fn project(hist: &[(String, String)]) -> (String, usize, bool, bool) {
    let base = build(hist);
    let text = base.as_str().to_string();
    // indent: a literal "\nQ" always starts a fresh line and indents "Q" by the current level
    let mut p = build(hist);
    p.push_str_literal("\nQ");
    let indent = leading_spaces_of_last_line(p.as_str()) / 2;
    // continuing: after indent(1) a literal "Q" is indented iff a new line is being started
    let mut p = build(hist);
    p.indent(1);
    p.push_str_literal("Q");
    let grown = p.as_str().len() - text.len();
    let cont = grown == 1;
    // in_comment: "{" raises the level unless a line comment is open
    let mut p = build(hist);
    p.push_str("{");
    p.push_str_literal("\nQ");
    let after = leading_spaces_of_last_line(p.as_str()) / 2;
    let in_c = after == indent;
    (text, indent, cont, in_c)
}

fn hist_of(v: &Value) -> Vec<(String, String)> {
    v["hist"]
        .as_array()
        .unwrap()
        .iter()
        .map(|s| (s["op"].as_str().unwrap().to_string(), text(&s["txt"])))
        .collect()
}

pub fn replay(vecs: &str, out: &str) -> Result<()> {
    let vecs = read_ndjson(vecs)?;
    let mut w = NdjsonWriter::create(out)?;
    silence_panics();
    for (i, v) in vecs.iter().enumerate() {
        let hist = hist_of(v);
        let exp = (
            text(&v["s"]),
            v["indent"].as_u64().unwrap() as usize,
            v["cont"].as_bool().unwrap(),
            v["inC"].as_bool().unwrap(),
        );
        match std::panic::catch_unwind(|| project(&hist)) {
            Ok(got) => {
                if got != exp {
                    w.write(&json!({"i": i, "ok": false, "hist": hist, "expected": exp, "got": got}))?;
                }
            }
            Err(_) => {
                w.write(&json!({"i": i, "ok": false, "hist": hist, "expected": exp, "got": "PANIC"}))?;
            }
        }
    }
    w.write(&json!({"done": vecs.len()}))?;
    w.finish()
}

/// Seeded random histories (longer, both whole-line and line-splitting fragments, `write!`),
/// logged with the projected state after every call for Trace_SourceBuf.tla.
pub fn record(seed: u64, n: usize, out: &str) -> Result<()> {
    let mut rng = Rng::new(seed);
    let mut w = NdjsonWriter::create(out)?;
    let pieces = ["x", "x ", " x", "{", "}", "x {", "} ", "//", "//x {", "  ", "x  ", "} x {", "{}", "}{", "x}x", "// }", ""];
    for _ in 0..n {
        w.write(&json!({"op": "reset"}))?;
        let mut hist: Vec<(String, String)> = Vec::new();
        let len = 1 + rng.below(10);
        let mut explicit = 0usize;
        for _ in 0..len {
            let r = rng.below(10);
            let (op, txt) = if r == 0 {
                explicit += 1;
                ("indent", String::new())
            } else if r == 1 && explicit > 0 {
                explicit -= 1;
                ("deindent", String::new())
            } else {
                let nlines = 1 + rng.below(3);
                let mut t = String::new();
                for k in 0..nlines {
                    t.push_str(*rng.pick(&pieces[..]));
                    if k + 1 < nlines || rng.chance(1, 2) {
                        t.push('\n');
                    }
                }
                let op = match rng.below(5) {
                    0 | 1 => "lit",
                    2 => "write",
                    _ => "push",
                };
                (op, t)
            };
            // `deindent` below the brace level would underflow (documented misuse): skip if the
            // real level is 0
            if op == "deindent" {
                let (_, ind, _, _) = project(&hist);
                if ind == 0 {
                    continue;
                }
            }
            hist.push((op.to_string(), txt.clone()));
            let (s, ind, cont, in_c) = project(&hist);
            let chars: Vec<String> = txt.chars().map(|c| c.to_string()).collect();
            let schars: Vec<String> = s.chars().map(|c| c.to_string()).collect();
            w.write(&json!({"op": if op == "write" {"push"} else {op}, "txt": chars, "s": schars,
                            "indent": ind, "cont": cont, "inC": in_c}))?;
        }
    }
    w.finish()
}
