//! Runs a matrix of external commands with a worker pool (the Python driver is slow at
//! spawning tens of thousands of processes).  Input: ndjson of {id, cmd: [..], timeout_ms};
//! output: ndjson of {id, rc, signal, stderr_tail, timeout}.
use anyhow::Result;
use serde_json::{json, Value};
use std::io::Read;
use std::process::{Command, Stdio};
use std::sync::{Arc, Mutex};
use std::time::{Duration, Instant};

pub fn run(jobs_path: &str, out_path: &str, workers: usize) -> Result<()> {
    let jobs = vcommon::read_ndjson(jobs_path)?;
    let queue = Arc::new(Mutex::new(jobs.into_iter().collect::<std::collections::VecDeque<Value>>()));
    let results = Arc::new(Mutex::new(Vec::<Value>::new()));
    let mut handles = Vec::new();
    for _ in 0..workers {
        let queue = queue.clone();
        let results = results.clone();
        handles.push(std::thread::spawn(move || loop {
            let job = { queue.lock().unwrap().pop_front() };
            let Some(job) = job else { break };
            let cmd: Vec<String> = job["cmd"].as_array().unwrap().iter().map(|s| s.as_str().unwrap().to_string()).collect();
            let timeout = Duration::from_millis(job["timeout_ms"].as_u64().unwrap_or(60_000));
            let mut c = Command::new(&cmd[0]);
            c.args(&cmd[1..]).stdin(Stdio::null()).stdout(Stdio::null()).stderr(Stdio::piped());
            if let Some(cwd) = job["cwd"].as_str() {
                c.current_dir(cwd);
            }
            let start = Instant::now();
            let r = match c.spawn() {
                Err(e) => json!({"id": job["id"], "rc": -1000, "stderr": format!("spawn failed: {e}")}),
                Ok(mut child) => {
                    let mut stderr = child.stderr.take().unwrap();
                    let reader = std::thread::spawn(move || {
                        let mut s = Vec::new();
                        let _ = stderr.read_to_end(&mut s);
                        s
                    });
                    let mut timed_out = false;
                    let status = loop {
                        match child.try_wait() {
                            Ok(Some(st)) => break Some(st),
                            Ok(None) => {
                                if start.elapsed() > timeout {
                                    let _ = child.kill();
                                    timed_out = true;
                                    break child.wait().ok();
                                }
                                std::thread::sleep(Duration::from_millis(2));
                            }
                            Err(_) => break None,
                        }
                    };
                    let err = reader.join().unwrap_or_default();
                    let text = String::from_utf8_lossy(&err);
                    // default: the first 600 and the last 1500 characters; a job that needs every diagnostic asks for
                    // "stderr_chars": N and gets the last N characters in "stderr" and an empty "stderr_head"
                    let (tail, head): (String, String) = match job["stderr_chars"].as_u64() {
                        Some(n) => (text.chars().rev().take(n as usize).collect::<String>().chars().rev().collect(), String::new()),
                        None => (text.chars().rev().take(1500).collect::<String>().chars().rev().collect(), text.chars().take(600).collect()),
                    };
                    use std::os::unix::process::ExitStatusExt;
                    let (rc, sig) = match status {
                        Some(st) => (st.code().unwrap_or(-1), st.signal().unwrap_or(0)),
                        None => (-1, 0),
                    };
                    json!({"id": job["id"], "rc": rc, "signal": sig, "timeout": timed_out, "stderr": tail, "stderr_head": head,
                           "ms": start.elapsed().as_millis() as u64})
                }
            };
            results.lock().unwrap().push(r);
        }));
    }
    for h in handles {
        let _ = h.join();
    }
    let mut w = vcommon::NdjsonWriter::create(out_path)?;
    for r in results.lock().unwrap().iter() {
        w.write(r)?;
    }
    w.finish()
}
