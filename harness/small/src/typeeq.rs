//! C28: runs wit_bindgen_core::Types (analyze + collect_equal_types) on WIT files and dumps, for
//! every named type, its owner interface, name, the id of its representative and its TypeInfo.
use anyhow::Result;
use serde_json::json;
use vcommon::*;
use wit_bindgen_core::Types;
use wit_parser::*;

pub fn run(list: &str, out: &str) -> Result<()> {
    let mut w = NdjsonWriter::create(out)?;
    for path in std::fs::read_to_string(list)?.lines() {
        let r = std::panic::catch_unwind(|| -> Result<serde_json::Value> {
            let mut resolve = Resolve::default();
            resolve.all_features = true;
            let (pkg, _) = resolve.push_path(path)?;
            let world = resolve.select_world(&[pkg], None)?;
            let mut types = Types::default();
            types.analyze(&resolve);
            types.collect_equal_types(&resolve, world, &|_| true);
            let mut rows = Vec::new();
            for (id, ty) in resolve.types.iter() {
                let Some(name) = &ty.name else { continue };
                let owner = match ty.owner {
                    TypeOwner::Interface(i) => resolve.interfaces[i].name.clone().unwrap_or_default(),
                    TypeOwner::World(w) => format!("world:{}", resolve.worlds[w].name),
                    TypeOwner::None => String::new(),
                };
                let rep = types.get_representative_type(id);
                let info = types.get(id);
                rows.push(json!({"id": id.index(), "owner": owner, "name": name, "rep": rep.index(),
                    "facts": {"list": info.has_list, "tuple": info.has_tuple, "resource": info.has_resource, "own": info.has_own_handle,
                              "borrow": info.has_borrow_handle, "borrowed": info.borrowed, "owned": info.owned, "error": info.error}}));
            }
            Ok(json!({"path": path, "types": rows}))
        });
        let v = match r {
            Ok(Ok(v)) => v,
            Ok(Err(e)) => json!({"path": path, "error": format!("{e:#}")}),
            Err(_) => json!({"path": path, "panic": true}),
        };
        w.write(&v)?;
    }
    w.finish()
}
