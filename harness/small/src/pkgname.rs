//! C27: `wit_bindgen_core::name_package_module` on package sets enumerated by TLC (replay) and
//! on seeded random package sets whose observed names TLC re-derives (record).
use anyhow::Result;
use serde_json::{json, Value};
use vcommon::*;
use wit_bindgen_core::name_package_module;
use wit_parser::Resolve;

fn text(v: &Value) -> String {
    v.as_array().unwrap().iter().map(|c| c.as_str().unwrap()).collect()
}

/// Returns the module name of every package `(name, version)` or an error if wit-parser does
/// not accept the set (then the set is not a valid input and is skipped).
pub fn module_names(pkgs: &[(String, String)]) -> Result<Vec<String>> {
    let mut resolve = Resolve::default();
    let mut ids = Vec::new();
    for (i, (name, ver)) in pkgs.iter().enumerate() {
        let at = if ver.is_empty() { String::new() } else { format!("@{ver}") };
        let src = format!("package verifns:{name}{at};\ninterface i {{ f: func(); }}\n");
        let id = resolve.push_str(format!("p{i}.wit"), &src)?;
        ids.push(id);
    }
    Ok(ids.into_iter().map(|id| name_package_module(&resolve, id)).collect())
}

pub fn replay(vecs: &str, out: &str) -> Result<()> {
    let vecs = read_ndjson(vecs)?;
    let mut w = NdjsonWriter::create(out)?;
    let mut invalid = 0usize;
    for (i, v) in vecs.iter().enumerate() {
        let pk = v["pkgs"].as_array().unwrap();
        let pkgs: Vec<(String, String)> = pk.iter().map(|p| (text(&p["name"]), text(&p["ver"]))).collect();
        let want: Vec<String> = pk.iter().map(|p| text(&p["mod"])).collect();
        match module_names(&pkgs) {
            Err(e) => {
                invalid += 1;
                if invalid <= 3 {
                    w.write(&json!({"i": i, "invalid": format!("{e:#}"), "pkgs": pkgs}))?;
                }
            }
            Ok(got) => {
                let mut sorted = got.clone();
                sorted.sort();
                sorted.dedup();
                let injective = sorted.len() == got.len();
                if got != want {
                    w.write(&json!({"i": i, "mismatch": true, "pkgs": pkgs, "expected": want, "got": got}))?;
                } else if !injective {
                    w.write(&json!({"i": i, "collision": true, "pkgs": pkgs, "got": got}))?;
                }
            }
        }
    }
    w.write(&json!({"done": vecs.len(), "invalid": invalid}))?;
    w.finish()
}

pub fn record(seed: u64, n: usize, out: &str) -> Result<()> {
    let mut rng = Rng::new(seed);
    let mut w = NdjsonWriter::create(out)?;
    let names = ["foo", "foo-bar", "foo1", "a", "bar-c"];
    let ids = ["rc", "1", "a", "0", "rc1", "R", "C", "b", "10", "ab", "aB"];
    let mut made = 0;
    while made < n {
        let k = 2 + rng.below(3);
        let mut pkgs: Vec<(String, String)> = Vec::new();
        let same_name = *rng.pick(&names);
        for _ in 0..k {
            let name = if rng.chance(3, 4) { same_name } else { *rng.pick(&names) };
            let ver = if rng.chance(1, 8) {
                String::new()
            } else {
                let mut v = format!("{}.{}.{}", rng.below(3), rng.below(11), rng.below(2));
                if rng.chance(1, 2) {
                    v.push('-');
                    let m = 1 + rng.below(3);
                    for j in 0..m {
                        if j > 0 {
                            v.push(if rng.chance(1, 2) { '.' } else { '-' });
                        }
                        v.push_str(*rng.pick(&ids[..]));
                    }
                }
                if rng.chance(1, 3) {
                    v.push('+');
                    v.push_str(*rng.pick(&ids[..]));
                    if rng.chance(1, 2) {
                        v.push(if rng.chance(1, 2) { '.' } else { '-' });
                        v.push_str(*rng.pick(&ids[..]));
                    }
                }
                v
            };
            if !pkgs.iter().any(|p| p.0 == name && p.1 == ver) {
                pkgs.push((name.to_string(), ver));
            }
        }
        let Ok(got) = module_names(&pkgs) else { continue };
        made += 1;
        let chars = |s: &str| s.chars().map(|c| c.to_string()).collect::<Vec<_>>();
        let rows: Vec<Value> = pkgs
            .iter()
            .zip(&got)
            .map(|(p, m)| json!({"name": chars(&p.0), "ver": chars(&p.1), "mod": chars(m)}))
            .collect();
        w.write(&json!({"pkgs": rows}))?;
    }
    w.finish()
}
