//! Feature extraction for the exclusion rule of C16/C13/C31 (DESIGN.md, C16): for a WIT
//! file/directory, the set of (type constructor x position x role), function kinds, directions
//! and coarse flags that occur in the selected world.  The same extractor is applied to the
//! repository's tests/codegen corpus (to learn which features each backend declares failing)
//! and to generated worlds (to decide whether a backend is expected to support them).
use anyhow::Result;
use serde_json::json;
use std::collections::BTreeSet;
use wit_parser::*;

#[allow(dead_code)]
#[path = "/repo/crates/test/src/config.rs"]
mod config;

struct Ex<'a> {
    r: &'a Resolve,
    tags: BTreeSet<String>,
}

fn prim(t: &Type) -> Option<&'static str> {
    Some(match t {
        Type::Bool => "bool",
        Type::U8 => "u8",
        Type::S8 => "s8",
        Type::U16 => "u16",
        Type::S16 => "s16",
        Type::U32 => "u32",
        Type::S32 => "s32",
        Type::U64 => "u64",
        Type::S64 => "s64",
        Type::F32 => "f32",
        Type::F64 => "f64",
        Type::Char => "char",
        Type::String => "string",
        Type::ErrorContext => "errctx",
        Type::Id(_) => return None,
    })
}

impl<'a> Ex<'a> {
    fn tag(&mut self, s: String) {
        self.tags.insert(s);
    }

    fn peel(&self, t: &Type) -> Type {
        let mut t = *t;
        while let Type::Id(id) = t {
            match &self.r.types[id].kind {
                TypeDefKind::Type(inner) => t = *inner,
                _ => break,
            }
        }
        t
    }

    fn ctor(&self, t: &Type) -> String {
        let t = self.peel(t);
        if let Some(p) = prim(&t) {
            return p.to_string();
        }
        let Type::Id(id) = t else { unreachable!() };
        match &self.r.types[id].kind {
            TypeDefKind::List(e) => match self.peel(e) {
                Type::String => "list-string".into(),
                Type::Id(i) if matches!(self.r.types[i].kind, TypeDefKind::List(_)) => "nested-list".into(),
                _ => "list".into(),
            },
            TypeDefKind::FixedLengthList(..) => "flist".into(),
            TypeDefKind::Map(..) => "map".into(),
            TypeDefKind::Record(_) => "record".into(),
            TypeDefKind::Tuple(_) => "tuple".into(),
            TypeDefKind::Variant(_) => "variant".into(),
            TypeDefKind::Enum(_) => "enum".into(),
            TypeDefKind::Option(e) => match self.peel(e) {
                Type::Id(i) if matches!(self.r.types[i].kind, TypeDefKind::Option(_)) => "option-option".into(),
                _ => "option".into(),
            },
            TypeDefKind::Result(r) => if r.ok.is_none() && r.err.is_none() { "result-empty".into() } else { "result".into() },
            TypeDefKind::Flags(f) => if f.flags.len() > 32 { "flags33".into() } else { "flags".into() },
            TypeDefKind::Handle(Handle::Own(_)) => "own".into(),
            TypeDefKind::Handle(Handle::Borrow(_)) => "borrow".into(),
            TypeDefKind::Resource => "own".into(),
            TypeDefKind::Future(p) => if p.is_none() { "future-unit".into() } else { "future".into() },
            TypeDefKind::Stream(p) => if p.is_none() { "stream-unit".into() } else { "stream".into() },
            TypeDefKind::Type(_) | TypeDefKind::Unknown => unreachable!(),
        }
    }

    fn walk(&mut self, t: &Type, wrap: &str, role: &str, fkind: &str, depth: usize) {
        if depth > 12 {
            return;
        }
        // a named alias counts as the "typedef" position
        let mut wrap = wrap.to_string();
        if let Type::Id(id) = t {
            let def = &self.r.types[*id];
            if def.name.is_some() && matches!(def.kind, TypeDefKind::Type(_)) && wrap == "bare" {
                wrap = "typedef".into();
            }
            if let TypeOwner::World(_) = def.owner {
                if def.name.is_some() {
                    self.tag("wrap:world-type".into());
                }
            }
            if def.name.is_some() && matches!(self.peel_named(t), Some(TypeDefKind::FixedLengthList(..))) {
                self.tag("named-fixed-length-list".into());
            }
        }
        let c = self.ctor(t);
        self.tag(format!("ctor:{c}"));
        self.tag(format!("wrap:{wrap}"));
        self.tag(format!("ctor:{c}|wrap:{wrap}"));
        self.tag(format!("ctor:{c}|role:{role}"));
        self.tag(format!("ctor:{c}|fkind:{fkind}"));
        match c.as_str() {
            "errctx" => self.tag("error-context".into()),
            "flist" => self.tag("fixed-length-list".into()),
            "map" => self.tag("map".into()),
            "own" | "borrow" => self.tag("resource".into()),
            "future" | "future-unit" | "stream" | "stream-unit" => {
                self.tag("async".into());
                self.tag("future-or-stream".into());
            }
            _ => {}
        }
        let t = self.peel(t);
        let Type::Id(id) = t else { return };
        let kind = self.r.types[id].kind.clone();
        match kind {
            TypeDefKind::List(e) => self.walk(&e, "in-list", role, fkind, depth + 1),
            TypeDefKind::FixedLengthList(e, _) => self.walk(&e, "in-flist", role, fkind, depth + 1),
            TypeDefKind::Map(k, v) => {
                self.walk(&k, "in-map-key", role, fkind, depth + 1);
                self.walk(&v, "in-map-value", role, fkind, depth + 1);
            }
            TypeDefKind::Record(r) => {
                for f in r.fields.iter() {
                    self.walk(&f.ty, "in-record", role, fkind, depth + 1);
                }
            }
            TypeDefKind::Tuple(t) => {
                for f in t.types.iter() {
                    self.walk(f, "in-tuple", role, fkind, depth + 1);
                }
            }
            TypeDefKind::Variant(v) => {
                for c in v.cases.iter() {
                    if let Some(t) = &c.ty {
                        self.walk(t, "in-variant", role, fkind, depth + 1);
                    }
                }
            }
            TypeDefKind::Option(e) => self.walk(&e, "in-option", role, fkind, depth + 1),
            TypeDefKind::Result(r) => {
                if let Some(t) = &r.ok {
                    self.walk(t, "in-result-ok", role, fkind, depth + 1);
                }
                if let Some(t) = &r.err {
                    self.walk(t, "in-result-err", role, fkind, depth + 1);
                }
            }
            TypeDefKind::Future(Some(p)) => self.walk(&p, "in-future", role, fkind, depth + 1),
            TypeDefKind::Stream(Some(p)) => self.walk(&p, "in-stream", role, fkind, depth + 1),
            _ => {}
        }
    }

    fn peel_named(&self, t: &Type) -> Option<TypeDefKind> {
        match t {
            Type::Id(id) => Some(self.r.types[*id].kind.clone()),
            _ => None,
        }
    }

    fn func(&mut self, f: &Function, dir: &str) {
        let fkind = match f.kind {
            FunctionKind::Freestanding => "free",
            FunctionKind::AsyncFreestanding => "async-free",
            FunctionKind::Method(_) => "method",
            FunctionKind::AsyncMethod(_) => "async-method",
            FunctionKind::Static(_) => "static",
            FunctionKind::AsyncStatic(_) => "async-static",
            FunctionKind::Constructor(_) => "ctor",
        };
        self.tag(format!("fkind:{fkind}"));
        self.tag(format!("dir:{dir}"));
        self.tag(format!("fkind:{fkind}|dir:{dir}"));
        if fkind.starts_with("async") {
            self.tag("async".into());
        }
        if fkind != "free" && fkind != "async-free" {
            self.tag("resource".into());
        }
        let skip_self = matches!(f.kind, FunctionKind::Method(_) | FunctionKind::AsyncMethod(_));
        for (i, p) in f.params.iter().enumerate() {
            if i == 0 && skip_self {
                continue;
            }
            self.walk(&p.ty, "bare", "param", fkind, 0);
        }
        if let Some(r) = &f.result {
            if !matches!(f.kind, FunctionKind::Constructor(_)) {
                self.walk(r, "bare", "result", fkind, 0);
            } else {
                // fallible constructors return result<own<R>, E>
                let rr = self.peel(r);
                if let Type::Id(id) = rr {
                    if matches!(self.r.types[id].kind, TypeDefKind::Result(_)) {
                        self.tag("fallible-constructor".into());
                        self.walk(r, "bare", "result", fkind, 0);
                    }
                }
            }
        }
    }
}

pub fn features(path: &str, world: Option<&str>) -> Result<serde_json::Value> {
    let mut resolve = Resolve::default();
    resolve.all_features = true;
    let (pkg, _) = resolve.push_path(path)?;
    let wid = resolve.select_world(&[pkg], world)?;
    let mut ex = Ex { r: &resolve, tags: BTreeSet::new() };
    let w = &resolve.worlds[wid];
    for (imp, items) in [("import", &w.imports), ("export", &w.exports)] {
        for (_, item) in items.iter() {
            match item {
                WorldItem::Function(f) => {
                    ex.func(f, "world-func");
                    ex.tag(format!("dir:{imp}"));
                }
                WorldItem::Interface { id, .. } => {
                    let fs: Vec<Function> = resolve.interfaces[*id].functions.values().cloned().collect();
                    for f in fs {
                        ex.func(&f, imp);
                    }
                    if !resolve.interfaces[*id].types.is_empty() {
                        ex.tag(format!("types:{imp}"));
                    }
                }
                WorldItem::Type { id, .. } => {
                    let t = Type::Id(*id);
                    ex.walk(&t, "world-type", "typedef", "none", 0);
                }
            }
        }
    }
    if resolve.packages.len() > 1 {
        ex.tag("multi-package".into());
    }
    // header flags of the repository's codegen tests
    let mut flags = json!({"async": false, "error_context": false});
    let p = std::path::Path::new(path);
    if p.is_file() {
        let text = std::fs::read_to_string(p)?;
        if let Ok(c) = config::parse_test_config::<config::WitConfig>(&text, "//@") {
            flags = json!({"async": c.async_, "error_context": c.error_context});
        }
    }
    Ok(json!({"path": path, "features": ex.tags.into_iter().collect::<Vec<_>>(), "config": flags}))
}

pub fn run(paths: &[String]) -> Result<()> {
    for p in paths {
        match features(p, None) {
            Ok(v) => println!("{v}"),
            Err(e) => println!("{}", json!({"path": p, "error": format!("{e:#}")})),
        }
    }
    Ok(())
}
