//! A `Bindgen` that *records* the instruction stream produced by `wit_bindgen_core::abi` as a
//! small structured program (owned copies of the instructions, SSA variables, nested blocks),
//! to be executed on concrete values by `exec.rs`.
use wit_bindgen_core::abi::{Bindgen, Bitcast, Instruction, WasmSignature, WasmType};
use wit_parser::{Alignment, ArchitectureSize, Function, Resolve, SizeAlign, Type, TypeDefKind};

pub type Var = usize;

#[derive(Debug, Clone)]
pub enum Op {
    GetArg(usize),
    I32Const(i32),
    Bitcasts(Vec<Bc>),
    ConstZero(Vec<WasmType>),
    Load { kind: MemKind, offset: ArchitectureSize },
    Store { kind: MemKind, offset: ArchitectureSize },
    /// scalar conversions, named after the instruction
    Conv(&'static str),
    ListCanonLower { element: Type, realloc: bool },
    StringLower { realloc: bool },
    ListLower { element: Type, realloc: bool },
    ListCanonLift { element: Type },
    StringLift,
    ListLift { element: Type },
    MapLower { key: Type, value: Type, realloc: bool },
    MapLift { key: Type, value: Type },
    FListLift { size: u32 },
    FListLower { size: u32 },
    FListLowerToMemory { element: Type, size: u32 },
    FListLiftFromMemory { element: Type, size: u32 },
    IterElem,
    IterMapKey,
    IterMapValue,
    IterBasePointer,
    RecordLower(usize),
    RecordLift(usize),
    /// own/borrow/future/stream/error-context <-> i32
    HandleLower,
    HandleLift,
    FlagsLower { n: usize, words: usize },
    FlagsLift { n: usize, words: usize },
    VariantPayloadName,
    /// all variant-like lowers: `ncases` blocks, `nresults` values; kind tells how the value is shaped
    VariantLower { kind: VKind, ncases: usize, nresults: usize },
    VariantLift { kind: VKind, ncases: usize, has_payload: Vec<bool> },
    EnumLower,
    EnumLift,
    CallWasm { name: String, sig: WasmSignature },
    CallInterface { nparams: usize, has_result: bool, async_: bool },
    Return { amt: usize },
    Malloc { size: ArchitectureSize, align: Alignment },
    RetArea { size: ArchitectureSize, align: Alignment },
    GuestDeallocate { size: ArchitectureSize, align: Alignment },
    GuestDeallocateString,
    GuestDeallocateList { element: Type },
    GuestDeallocateMap { key: Type, value: Type },
    GuestDeallocateVariant { blocks: usize },
    DropHandle,
    AsyncTaskReturn { name: String, params: Vec<WasmType> },
    Flush,
}

#[derive(Debug, Clone, Copy, PartialEq)]
pub enum VKind {
    Variant,
    Option,
    Result,
}

#[derive(Debug, Clone, Copy, PartialEq)]
pub enum MemKind {
    I32,
    I8U,
    I8S,
    I16U,
    I16S,
    I64,
    F32,
    F64,
    Pointer,
    Length,
    I8,
    I16,
}

/// Owned mirror of `Bitcast` (which is not `Clone`).
#[derive(Debug, Clone, PartialEq)]
pub enum Bc {
    F32ToI32,
    F64ToI64,
    I32ToI64,
    F32ToI64,
    I32ToF32,
    I64ToF64,
    I64ToI32,
    I64ToF32,
    P64ToI64,
    I64ToP64,
    P64ToP,
    PToP64,
    I32ToP,
    PToI32,
    PToL,
    LToP,
    I32ToL,
    LToI32,
    I64ToL,
    LToI64,
    Sequence(Box<Bc>, Box<Bc>),
    None,
}

pub fn bc(b: &Bitcast) -> Bc {
    match b {
        Bitcast::F32ToI32 => Bc::F32ToI32,
        Bitcast::F64ToI64 => Bc::F64ToI64,
        Bitcast::I32ToI64 => Bc::I32ToI64,
        Bitcast::F32ToI64 => Bc::F32ToI64,
        Bitcast::I32ToF32 => Bc::I32ToF32,
        Bitcast::I64ToF64 => Bc::I64ToF64,
        Bitcast::I64ToI32 => Bc::I64ToI32,
        Bitcast::I64ToF32 => Bc::I64ToF32,
        Bitcast::P64ToI64 => Bc::P64ToI64,
        Bitcast::I64ToP64 => Bc::I64ToP64,
        Bitcast::P64ToP => Bc::P64ToP,
        Bitcast::PToP64 => Bc::PToP64,
        Bitcast::I32ToP => Bc::I32ToP,
        Bitcast::PToI32 => Bc::PToI32,
        Bitcast::PToL => Bc::PToL,
        Bitcast::LToP => Bc::LToP,
        Bitcast::I32ToL => Bc::I32ToL,
        Bitcast::LToI32 => Bc::LToI32,
        Bitcast::I64ToL => Bc::I64ToL,
        Bitcast::LToI64 => Bc::LToI64,
        Bitcast::Sequence(s) => Bc::Sequence(Box::new(bc(&s[0])), Box::new(bc(&s[1]))),
        Bitcast::None => Bc::None,
    }
}

#[derive(Debug, Clone)]
pub struct Inst {
    pub op: Op,
    pub args: Vec<Var>,
    pub outs: Vec<Var>,
    pub blocks: Vec<Block>,
}

#[derive(Debug, Clone, Default)]
pub struct Block {
    pub insts: Vec<Inst>,
    pub results: Vec<Var>,
}

pub struct Recorder {
    pub sizes: SizeAlign,
    /// which list element types are "canonical" (copied without a per-element block)
    pub canon_lists: bool,
    open: Vec<Vec<Inst>>,
    finished: Vec<Block>,
    pub next_var: usize,
}

impl Recorder {
    pub fn new(resolve: &Resolve, canon_lists: bool) -> Recorder {
        let mut sizes = SizeAlign::default();
        sizes.fill(resolve);
        Recorder { sizes, canon_lists, open: vec![Vec::new()], finished: Vec::new(), next_var: 0 }
    }

    pub fn fresh(&mut self) -> Var {
        self.next_var += 1;
        self.next_var - 1
    }

    /// The top-level program recorded so far.
    pub fn finish(mut self) -> Block {
        assert_eq!(self.open.len(), 1, "unbalanced push_block/finish_block");
        assert!(self.finished.is_empty(), "{} finished blocks were never consumed", self.finished.len());
        Block { insts: self.open.pop().unwrap(), results: Vec::new() }
    }

    fn take_blocks(&mut self, n: usize) -> Vec<Block> {
        assert!(self.finished.len() >= n, "instruction wants {n} blocks, only {} finished", self.finished.len());
        let at = self.finished.len() - n;
        self.finished.split_off(at)
    }
}

fn offs(o: &ArchitectureSize) -> ArchitectureSize {
    *o
}

impl Bindgen for Recorder {
    type Operand = Var;

    fn emit(&mut self, resolve: &Resolve, inst: &Instruction<'_>, operands: &mut Vec<Var>, results: &mut Vec<Var>) {
        use Instruction as I;
        let mut nblocks = 0usize;
        let op = match inst {
            I::GetArg { nth } => Op::GetArg(*nth),
            I::I32Const { val } => Op::I32Const(*val),
            I::Bitcasts { casts } => Op::Bitcasts(casts.iter().map(bc).collect()),
            I::ConstZero { tys } => Op::ConstZero(tys.to_vec()),
            I::I32Load { offset } => Op::Load { kind: MemKind::I32, offset: offs(offset) },
            I::I32Load8U { offset } => Op::Load { kind: MemKind::I8U, offset: offs(offset) },
            I::I32Load8S { offset } => Op::Load { kind: MemKind::I8S, offset: offs(offset) },
            I::I32Load16U { offset } => Op::Load { kind: MemKind::I16U, offset: offs(offset) },
            I::I32Load16S { offset } => Op::Load { kind: MemKind::I16S, offset: offs(offset) },
            I::I64Load { offset } => Op::Load { kind: MemKind::I64, offset: offs(offset) },
            I::F32Load { offset } => Op::Load { kind: MemKind::F32, offset: offs(offset) },
            I::F64Load { offset } => Op::Load { kind: MemKind::F64, offset: offs(offset) },
            I::PointerLoad { offset } => Op::Load { kind: MemKind::Pointer, offset: offs(offset) },
            I::LengthLoad { offset } => Op::Load { kind: MemKind::Length, offset: offs(offset) },
            I::I32Store { offset } => Op::Store { kind: MemKind::I32, offset: offs(offset) },
            I::I32Store8 { offset } => Op::Store { kind: MemKind::I8, offset: offs(offset) },
            I::I32Store16 { offset } => Op::Store { kind: MemKind::I16, offset: offs(offset) },
            I::I64Store { offset } => Op::Store { kind: MemKind::I64, offset: offs(offset) },
            I::F32Store { offset } => Op::Store { kind: MemKind::F32, offset: offs(offset) },
            I::F64Store { offset } => Op::Store { kind: MemKind::F64, offset: offs(offset) },
            I::PointerStore { offset } => Op::Store { kind: MemKind::Pointer, offset: offs(offset) },
            I::LengthStore { offset } => Op::Store { kind: MemKind::Length, offset: offs(offset) },
            I::I32FromChar => Op::Conv("I32FromChar"),
            I::I64FromU64 => Op::Conv("I64FromU64"),
            I::I64FromS64 => Op::Conv("I64FromS64"),
            I::I32FromU32 => Op::Conv("I32FromU32"),
            I::I32FromS32 => Op::Conv("I32FromS32"),
            I::I32FromU16 => Op::Conv("I32FromU16"),
            I::I32FromS16 => Op::Conv("I32FromS16"),
            I::I32FromU8 => Op::Conv("I32FromU8"),
            I::I32FromS8 => Op::Conv("I32FromS8"),
            I::CoreF32FromF32 => Op::Conv("CoreF32FromF32"),
            I::CoreF64FromF64 => Op::Conv("CoreF64FromF64"),
            I::S8FromI32 => Op::Conv("S8FromI32"),
            I::U8FromI32 => Op::Conv("U8FromI32"),
            I::S16FromI32 => Op::Conv("S16FromI32"),
            I::U16FromI32 => Op::Conv("U16FromI32"),
            I::S32FromI32 => Op::Conv("S32FromI32"),
            I::U32FromI32 => Op::Conv("U32FromI32"),
            I::S64FromI64 => Op::Conv("S64FromI64"),
            I::U64FromI64 => Op::Conv("U64FromI64"),
            I::CharFromI32 => Op::Conv("CharFromI32"),
            I::F32FromCoreF32 => Op::Conv("F32FromCoreF32"),
            I::F64FromCoreF64 => Op::Conv("F64FromCoreF64"),
            I::BoolFromI32 => Op::Conv("BoolFromI32"),
            I::I32FromBool => Op::Conv("I32FromBool"),
            I::ListCanonLower { element, realloc } => Op::ListCanonLower { element: **element, realloc: realloc.is_some() },
            I::StringLower { realloc } => Op::StringLower { realloc: realloc.is_some() },
            I::ListLower { element, realloc } => {
                nblocks = 1;
                Op::ListLower { element: **element, realloc: realloc.is_some() }
            }
            I::ListCanonLift { element, .. } => Op::ListCanonLift { element: **element },
            I::StringLift => Op::StringLift,
            I::ListLift { element, .. } => {
                nblocks = 1;
                Op::ListLift { element: **element }
            }
            I::MapLower { key, value, realloc } => {
                nblocks = 1;
                Op::MapLower { key: **key, value: **value, realloc: realloc.is_some() }
            }
            I::MapLift { key, value, .. } => {
                nblocks = 1;
                Op::MapLift { key: **key, value: **value }
            }
            I::FixedLengthListLift { size, .. } => Op::FListLift { size: *size },
            I::FixedLengthListLower { size, .. } => Op::FListLower { size: *size },
            I::FixedLengthListLowerToMemory { element, size, .. } => {
                nblocks = 1;
                Op::FListLowerToMemory { element: **element, size: *size }
            }
            I::FixedLengthListLiftFromMemory { element, size, .. } => {
                nblocks = 1;
                Op::FListLiftFromMemory { element: **element, size: *size }
            }
            I::IterElem { .. } => Op::IterElem,
            I::IterMapKey { .. } => Op::IterMapKey,
            I::IterMapValue { .. } => Op::IterMapValue,
            I::IterBasePointer => Op::IterBasePointer,
            I::RecordLower { record, .. } => Op::RecordLower(record.fields.len()),
            I::RecordLift { record, .. } => Op::RecordLift(record.fields.len()),
            I::TupleLower { tuple, .. } => Op::RecordLower(tuple.types.len()),
            I::TupleLift { tuple, .. } => Op::RecordLift(tuple.types.len()),
            I::HandleLower { .. } | I::FutureLower { .. } | I::StreamLower { .. } | I::ErrorContextLower => Op::HandleLower,
            I::HandleLift { .. } | I::FutureLift { .. } | I::StreamLift { .. } | I::ErrorContextLift => Op::HandleLift,
            I::FlagsLower { flags, .. } => Op::FlagsLower { n: flags.flags.len(), words: flags.repr().count() },
            I::FlagsLift { flags, .. } => Op::FlagsLift { n: flags.flags.len(), words: flags.repr().count() },
            I::VariantPayloadName => Op::VariantPayloadName,
            I::VariantLower { variant, results: r, .. } => {
                nblocks = variant.cases.len();
                Op::VariantLower { kind: VKind::Variant, ncases: nblocks, nresults: r.len() }
            }
            I::OptionLower { results: r, .. } => {
                nblocks = 2;
                Op::VariantLower { kind: VKind::Option, ncases: 2, nresults: r.len() }
            }
            I::ResultLower { results: r, .. } => {
                nblocks = 2;
                Op::VariantLower { kind: VKind::Result, ncases: 2, nresults: r.len() }
            }
            I::VariantLift { variant, .. } => {
                nblocks = variant.cases.len();
                Op::VariantLift { kind: VKind::Variant, ncases: nblocks, has_payload: variant.cases.iter().map(|c| c.ty.is_some()).collect() }
            }
            I::OptionLift { .. } => {
                nblocks = 2;
                Op::VariantLift { kind: VKind::Option, ncases: 2, has_payload: vec![false, true] }
            }
            I::ResultLift { result, .. } => {
                nblocks = 2;
                Op::VariantLift { kind: VKind::Result, ncases: 2, has_payload: vec![result.ok.is_some(), result.err.is_some()] }
            }
            I::EnumLower { .. } => Op::EnumLower,
            I::EnumLift { .. } => Op::EnumLift,
            I::CallWasm { name, sig } => Op::CallWasm { name: name.to_string(), sig: (*sig).clone() },
            I::CallInterface { func, async_ } => Op::CallInterface { nparams: func.params.len(), has_result: func.result.is_some(), async_: *async_ },
            I::Return { amt, .. } => Op::Return { amt: *amt },
            I::Malloc { size, align, .. } => Op::Malloc { size: *size, align: *align },
            I::GuestDeallocate { size, align } => Op::GuestDeallocate { size: *size, align: *align },
            I::GuestDeallocateString => Op::GuestDeallocateString,
            I::GuestDeallocateList { element } => {
                nblocks = 1;
                Op::GuestDeallocateList { element: **element }
            }
            I::GuestDeallocateMap { key, value } => {
                nblocks = 1;
                Op::GuestDeallocateMap { key: **key, value: **value }
            }
            I::GuestDeallocateVariant { blocks } => {
                nblocks = *blocks;
                Op::GuestDeallocateVariant { blocks: *blocks }
            }
            I::DropHandle { .. } => Op::DropHandle,
            I::AsyncTaskReturn { name, params } => Op::AsyncTaskReturn { name: name.to_string(), params: params.to_vec() },
            I::Flush { .. } => Op::Flush,
        };
        let _ = resolve;
        let blocks = self.take_blocks(nblocks);
        let outs: Vec<Var> = (0..inst.results_len()).map(|_| self.fresh()).collect();
        results.extend(outs.iter().copied());
        let args = std::mem::take(operands);
        self.open.last_mut().unwrap().push(Inst { op, args, outs, blocks });
    }

    fn return_pointer(&mut self, size: ArchitectureSize, align: Alignment) -> Var {
        let v = self.fresh();
        self.open.last_mut().unwrap().push(Inst { op: Op::RetArea { size, align }, args: vec![], outs: vec![v], blocks: vec![] });
        v
    }

    fn push_block(&mut self) {
        self.open.push(Vec::new());
    }

    fn finish_block(&mut self, operand: &mut Vec<Var>) {
        let insts = self.open.pop().expect("finish_block without push_block");
        self.finished.push(Block { insts, results: std::mem::take(operand) });
    }

    fn sizes(&self) -> &SizeAlign {
        &self.sizes
    }

    fn is_list_canonical(&self, resolve: &Resolve, element: &Type) -> bool {
        if !self.canon_lists {
            return false;
        }
        let mut t = *element;
        loop {
            match t {
                Type::U8 | Type::S8 | Type::U16 | Type::S16 | Type::U32 | Type::S32 | Type::U64 | Type::S64 | Type::F32 | Type::F64 => return true,
                Type::Id(id) => match &resolve.types[id].kind {
                    TypeDefKind::Type(inner) => t = *inner,
                    _ => return false,
                },
                _ => return false,
            }
        }
    }
}

/// Helper: a `Function` clone whose lifetime is independent from the resolve borrow.
pub fn func_clone(f: &Function) -> Function {
    f.clone()
}
