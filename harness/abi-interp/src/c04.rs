use anyhow::{bail, Result};
pub fn table(_out: &str) -> Result<()> { bail!("todo") }
