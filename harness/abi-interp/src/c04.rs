//! C04: observations of the real slot-joining code for specs/abi/SlotJoin.tla:
//!  * the Bitcast tree `abi::cast(from, to)` returns for all 49 ordered pairs (or that it panics);
//!  * for a family of variant types, the flat classes of every case payload and of the variant.
use crate::*;
use serde_json::{json, Value};
use vcommon::model::Ty;
use wit_bindgen_core::abi::{self, Bitcast, WasmType};

fn name(t: WasmType) -> &'static str {
    match t {
        WasmType::I32 => "I32",
        WasmType::I64 => "I64",
        WasmType::F32 => "F32",
        WasmType::F64 => "F64",
        WasmType::Pointer => "Pointer",
        WasmType::Length => "Length",
        WasmType::PointerOrI64 => "PointerOrI64",
    }
}

fn tree(b: &Bitcast) -> Value {
    match b {
        Bitcast::Sequence(s) => json!({"op": "Sequence", "a": tree(&s[0]), "b": tree(&s[1])}),
        Bitcast::None => json!({"op": "None"}),
        other => json!({"op": format!("{other:?}")}),
    }
}

pub fn table(out: &str) -> anyhow::Result<()> {
    let mut w = NdjsonWriter::create(out)?;
    silence_panics();
    let all = [WasmType::I32, WasmType::I64, WasmType::F32, WasmType::F64, WasmType::Pointer, WasmType::Length, WasmType::PointerOrI64];
    for from in all {
        for to in all {
            let t = match catch(move || abi::cast(from, to)) {
                Ok(b) => tree(&b),
                Err(_) => json!({"panic": true}),
            };
            w.write(&json!({"kind": "cast", "from": name(from), "to": name(to), "tree": t}))?;
        }
    }
    // payload alphabet: one and two slot payloads covering every base class in slots 1 and 2
    let p = |s: &str| Ty::Prim(s.to_string());
    let mut pay: Vec<Ty> = vec![p("u32"), p("u64"), p("f32"), p("f64"), p("string")];
    for a in ["u32", "u64", "f32", "f64"] {
        for b in ["u32", "u64", "f32", "f64"] {
            pay.push(Ty::Tuple(vec![p(a), p(b)]));
        }
    }
    pay.push(Ty::Tuple(vec![p("u8"), p("string")]));
    pay.push(Ty::List(Box::new(p("u8"))));
    let mut shapes: Vec<Ty> = Vec::new();
    for i in 0..pay.len() {
        for j in i..pay.len() {
            shapes.push(Ty::Variant(vec![Some(pay[i].clone()), Some(pay[j].clone())]));
        }
    }
    // three-case shapes (PointerOrI64 absorbing further joins) on a smaller alphabet
    let small = [p("u32"), p("u64"), p("f32"), p("f64"), p("string"), Ty::Tuple(vec![p("f32"), p("u64")]), Ty::Tuple(vec![p("u64"), p("f32")]),
        Ty::Tuple(vec![p("u8"), p("string")]), Ty::Tuple(vec![p("u32"), p("u64")]), Ty::Tuple(vec![p("f32"), p("f64")])];
    for a in &small {
        for b in &small {
            for c in &small {
                shapes.push(Ty::Variant(vec![Some(a.clone()), Some(b.clone()), Some(c.clone())]));
            }
        }
    }
    // option / result wrappers of a few payloads (same joining code path, different constructors)
    for a in &small {
        shapes.push(Ty::Option(Box::new(a.clone())));
        for b in &small {
            shapes.push(Ty::Result(Some(Box::new(a.clone())), Some(Box::new(b.clone()))));
        }
    }
    for s in shapes {
        let cases: Vec<Option<Ty>> = match &s {
            Ty::Variant(cs) => cs.clone(),
            Ty::Option(t) => vec![None, Some((**t).clone())],
            Ty::Result(a, b) => vec![a.as_deref().cloned(), b.as_deref().cloned()],
            _ => unreachable!(),
        };
        let mut types = vec![s.clone()];
        let present: Vec<Ty> = cases.iter().flatten().cloned().collect();
        types.extend(present.iter().cloned());
        let world = build_world(&types, &[], false)?;
        let flat = |k: usize| -> Vec<&'static str> { abi::flat_types(&world.resolve, &world.top(k), None).unwrap().into_iter().map(name).collect() };
        let joined = flat(0);
        let mut case_flats: Vec<Vec<&'static str>> = Vec::new();
        let mut k = 1;
        for c in &cases {
            if c.is_some() {
                case_flats.push(flat(k));
                k += 1;
            } else {
                case_flats.push(vec![]);
            }
        }
        w.write(&json!({"kind": "shape", "ty": s.to_json(), "cases": case_flats, "joined": &joined[1..]}))?;
    }
    w.finish()
}
