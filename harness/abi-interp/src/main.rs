//! abi-interp: drives the real `wit_bindgen_core::abi` generator with an interpreting `Bindgen`
//! and compares what the generated instruction streams *do* with the expectations computed by
//! the TLA+ canonical-ABI spec (specs/abi/CanonABI.tla).  Properties C01-C04.
use anyhow::{bail, Result};
use serde_json::{json, Value};
use vcommon::model::{Ty, Val, WitBuilder};
use vcommon::*;
use wit_bindgen_core::abi;
use wit_parser::{Resolve, Type, TypeId};

mod exec;
mod ir;
mod c02;
mod c03;
mod c04;

use exec::*;
use ir::*;

pub struct World {
    pub resolve: Resolve,
    pub wit: String,
}

/// One interface `i` with the named definitions the types need, `type top<k> = ...` for each
/// requested type and the functions given as `(name, params, result)` over those tops.
pub fn build_world(types: &[Ty], funcs: &[(String, Vec<usize>, Option<usize>)], async_funcs: bool) -> Result<World> {
    let mut b = WitBuilder::default();
    let mut tops = Vec::new();
    for (k, t) in types.iter().enumerate() {
        let e = b.ty(t);
        tops.push(format!("  type top{k} = {e};\n"));
    }
    let mut wit = String::from("package v:t;\ninterface i {\n");
    for d in &b.defs {
        wit.push_str("  ");
        wit.push_str(d);
        if !d.ends_with(';') {
            wit.push('\n');
        } else {
            wit.push('\n');
        }
    }
    for t in &tops {
        wit.push_str(t);
    }
    for (name, params, result) in funcs {
        let ps: Vec<String> = params.iter().enumerate().map(|(i, p)| format!("p{i}: top{p}")).collect();
        let r = result.map(|r| format!(" -> top{r}")).unwrap_or_default();
        let a = if async_funcs { "async " } else { "" };
        wit.push_str(&format!("  {name}: {a}func({}){r};\n", ps.join(", ")));
    }
    wit.push_str("}\nworld w {\n  import i;\n  export i;\n}\n");
    let mut resolve = Resolve::default();
    resolve.all_features = true;
    resolve.push_str("v.wit", &wit).map_err(|e| anyhow::anyhow!("{e:#}\n{wit}"))?;
    Ok(World { resolve, wit })
}

impl World {
    pub fn iface(&self) -> wit_parser::InterfaceId {
        self.resolve.interfaces.iter().find(|(_, i)| i.name.as_deref() == Some("i")).unwrap().0
    }
    pub fn top(&self, k: usize) -> Type {
        let id: TypeId = self.resolve.interfaces[self.iface()].types[&format!("top{k}")];
        Type::Id(id)
    }
    pub fn func(&self, name: &str) -> wit_parser::Function {
        self.resolve.interfaces[self.iface()].functions[name].clone()
    }
}

// ------------------------------------------------------------------------------------------
// comparing what the machine did with the spec's expectation

pub const PAD: i64 = -1;
pub const PCONT: i64 = -2;
pub const PANY: i64 = -3;

pub struct Expect<'v> {
    pub w: u64,
    pub blocks: &'v [Value],
}

pub fn cells(v: &Value) -> Vec<i64> {
    v.as_array().unwrap().iter().map(|c| c.as_i64().unwrap()).collect()
}

impl<'v> Expect<'v> {
    /// Compares memory at `addr` with expected `cells`; follows pointers into `blocks`.
    /// `owned`: heap blocks must be allocations made through realloc with the exact size/align.
    pub fn check_cells(&self, m: &Mem, addr: u64, cs: &[i64], owned: bool, seen: &mut Vec<(usize, u64)>) -> Result<(), String> {
        let mut i = 0usize;
        while i < cs.len() {
            let c = cs[i];
            let at = addr + i as u64;
            if c >= 1000 || c == PANY {
                let raw = m.read(at, self.w)?;
                let mut p = 0u64;
                for (k, b) in raw.iter().enumerate() {
                    p |= (*b as u64) << (8 * k);
                }
                if c >= 1000 {
                    self.check_block(m, p, (c - 1000) as usize, owned, seen)?;
                }
                i += self.w as usize;
                continue;
            }
            if c == PAD || c == PCONT {
                i += 1;
                continue;
            }
            let got = m.read(at, 1)?[0];
            if got as i64 != c {
                return Err(format!("byte at +{i} (addr {at:#x}) is {got:#04x}, spec says {c:#04x}"));
            }
            i += 1;
        }
        Ok(())
    }

    pub fn check_block(&self, m: &Mem, p: u64, idx: usize, owned: bool, seen: &mut Vec<(usize, u64)>) -> Result<(), String> {
        let b = &self.blocks[idx - 1];
        let size = b["size"].as_u64().unwrap();
        let align = b["align"].as_u64().unwrap();
        if p % align != 0 {
            return Err(format!("pointer {p:#x} to a {} block is not {align}-aligned", b["kind"]));
        }
        if owned {
            match m.find(p) {
                Some(a) if a.size == size && a.align == align && a.kind != "borrowed" => {}
                Some(a) => {
                    return Err(format!(
                        "block at {p:#x} was allocated as (size {}, align {}, {}), spec says (size {size}, align {align}, owned {})",
                        a.size, a.align, a.kind, b["kind"]
                    ))
                }
                None => return Err(format!("pointer {p:#x} is not the start of an allocation")),
            }
        }
        if seen.iter().any(|(i, q)| *i != idx && *q == p) {
            return Err(format!("two different heap blocks share address {p:#x}"));
        }
        seen.push((idx, p));
        self.check_cells(m, p, &cells(&b["cells"]), owned, seen)
    }

    /// One flat value against the expectation `{ty, cells, care}`.
    pub fn check_flat(&self, m: &Mem, got: &Rv, exp: &Value, owned: bool, seen: &mut Vec<(usize, u64)>) -> Result<(), String> {
        let (ty, bits) = core_of(got, self.w)?;
        let ety = exp["ty"].as_str().unwrap();
        if ty != ety {
            return Err(format!("flat value has core type {ty}, spec says {ety}"));
        }
        let cs = cells(&exp["cells"]);
        let nbytes = cs.len();
        if cs[0] >= 1000 {
            return self.check_block(m, bits, (cs[0] - 1000) as usize, owned, seen);
        }
        if cs[0] == PANY {
            return Ok(());
        }
        for k in 0..nbytes {
            let gb = (bits >> (8 * k)) as u8;
            if gb as i64 != cs[k] {
                return Err(format!("flat {ty} value is {bits:#x}, spec says bytes {cs:?}"));
            }
        }
        Ok(())
    }
}

pub fn core_of(v: &Rv, w: u64) -> Result<(&'static str, u64), String> {
    let p = if w == 4 { "i32" } else { "i64" };
    Ok(match v {
        Rv::I32(x) => ("i32", *x as u64),
        Rv::I64(x) => ("i64", *x),
        Rv::F32(x) => ("f32", *x as u64),
        Rv::F64(x) => ("f64", *x),
        Rv::Ptr(x) | Rv::Len(x) => (p, *x),
        Rv::P64(x) => ("i64", *x),
        Rv::W(v) => return Err(format!("WIT value {v:?} where a core value was expected")),
    })
}

/// Allocates and fills the spec's heap blocks (kind `kind`); returns their addresses
/// (index 0 unused).  Padding and unspecified pointers get `garbage`.
pub fn build_blocks(m: &mut Mem, w: u64, blocks: &[Value], garbage: u8, kind: &'static str) -> Result<Vec<u64>, String> {
    let mut addrs = vec![0u64; blocks.len() + 1];
    for (i, b) in blocks.iter().enumerate() {
        let k: &'static str = if kind == "as-spec" {
            match b["kind"].as_str().unwrap() {
                "string" => "string",
                "list" => "list",
                _ => "map",
            }
        } else {
            kind
        };
        addrs[i + 1] = m.alloc(b["size"].as_u64().unwrap(), b["align"].as_u64().unwrap(), k);
    }
    for (i, b) in blocks.iter().enumerate() {
        fill_cells(m, w, addrs[i + 1], &cells(&b["cells"]), &addrs, garbage)?;
    }
    Ok(addrs)
}

pub fn fill_cells(m: &mut Mem, w: u64, at: u64, cs: &[i64], addrs: &[u64], garbage: u8) -> Result<(), String> {
    let mut i = 0;
    while i < cs.len() {
        let c = cs[i];
        if c >= 1000 || c == PANY {
            let p: u64 = if c >= 1000 { addrs[(c - 1000) as usize] } else { 0x7 + garbage as u64 };
            m.write(at + i as u64, &p.to_le_bytes()[..w as usize])?;
            i += w as usize;
            continue;
        }
        let b = if c == PAD { garbage } else { c as u8 };
        m.write(at + i as u64, &[b])?;
        i += 1;
    }
    Ok(())
}

/// Materialises the spec's memory image (blocks then root cells) in `m`.  Returns the root address.
pub fn build_image(m: &mut Mem, w: u64, root: &[i64], root_align: u64, blocks: &[Value], garbage: u8) -> Result<u64, String> {
    let addrs = build_blocks(m, w, blocks, garbage, "host")?;
    let root_addr = m.alloc_min_aligned((root.len() as u64).max(1), root_align, "host-root");
    fill_cells(m, w, root_addr, root, &addrs, garbage)?;
    Ok(root_addr)
}

pub fn flat_to_rv(exp: &Value, w: u64, addrs: &dyn Fn(usize) -> u64, garbage: u8, slot: Option<wit_bindgen_core::abi::WasmType>) -> Rv {
    use wit_bindgen_core::abi::WasmType as T;
    let cs = cells(&exp["cells"]);
    let care = exp["care"].as_u64().unwrap() as usize;
    let mut bits = 0u64;
    if cs[0] >= 1000 {
        bits = addrs((cs[0] - 1000) as usize);
    } else if cs[0] == PANY {
        bits = 0x3 + garbage as u64;
    } else {
        for (k, c) in cs.iter().enumerate() {
            let b = if k < care { *c as u8 } else { garbage };
            bits |= (b as u64) << (8 * k);
        }
    }
    let _ = w;
    match slot {
        Some(T::I32) => Rv::I32(bits as u32),
        Some(T::I64) => Rv::I64(bits),
        Some(T::F32) => Rv::F32(bits as u32),
        Some(T::F64) => Rv::F64(bits),
        Some(T::Pointer) => Rv::Ptr(bits),
        Some(T::Length) => Rv::Len(bits),
        Some(T::PointerOrI64) => Rv::P64(bits),
        None => match exp["ty"].as_str().unwrap() {
            "i32" => Rv::I32(bits as u32),
            "i64" => Rv::I64(bits),
            "f32" => Rv::F32(bits as u32),
            _ => Rv::F64(bits),
        },
    }
}

// ------------------------------------------------------------------------------------------
// C01 scenarios

pub struct Case<'a> {
    pub world: &'a World,
    pub ty: Type,
    pub w: u64,
    pub canon: bool,
}

/// lower_flat on `val`; returns the machine and the produced flat values.
fn run_lower_flat(c: &Case<'_>, val: &Val) -> Result<(Machine, Vec<Rv>), String> {
    let mut rec = Recorder::new(&c.world.resolve, c.canon);
    let v = rec.fresh();
    let outs = abi::lower_flat(&c.world.resolve, &mut rec, v, &c.ty);
    let nvars = rec.next_var;
    let sizes = std::rc::Rc::new(std::mem::take(&mut rec.sizes));
    let prog = rec.finish();
    let mut m = Machine::new(sizes, c.w, nvars);
    m.set(v, Rv::W(val.clone()));
    m.run(&prog, &mut NoCallee)?;
    let r = outs.iter().map(|o| m.get(*o)).collect::<Result<Vec<_>, _>>()?;
    Ok((m, r))
}

fn owned_heap_allocs(m: &Mem) -> usize {
    m.allocs.iter().filter(|a| matches!(a.kind, "string" | "list" | "map")).count()
}

fn c01_one(world: &World, vec: &Value, canon: bool) -> Vec<Value> {
    let mut problems = Vec::new();
    let t = Ty::from_json(&vec["t"]);
    let val = Val::from_json(&t, &vec["v"]);
    let w = vec["W"].as_u64().unwrap();
    let c = Case { world, ty: world.top(0), w, canon };
    let blocks = vec["blocks"].as_array().unwrap();
    let exp = Expect { w, blocks };
    let flat = vec["flat"].as_array().unwrap();

    // A. lower_flat
    match catch(std::panic::AssertUnwindSafe(|| run_lower_flat(&c, &val))) {
        Err(p) => problems.push(json!({"scenario": "lower_flat", "panic": p})),
        Ok(Err(e)) => problems.push(json!({"scenario": "lower_flat", "error": e})),
        Ok(Ok((m, got))) => {
            if got.len() != flat.len() {
                problems.push(json!({"scenario": "lower_flat", "error": format!("{} flat values, spec says {}", got.len(), flat.len())}));
            } else {
                let mut seen = Vec::new();
                for (i, (g, e)) in got.iter().zip(flat).enumerate() {
                    if let Err(msg) = exp.check_flat(&m.mem, g, e, true, &mut seen) {
                        problems.push(json!({"scenario": "lower_flat", "slot": i, "error": msg}));
                        break;
                    }
                }
                if problems.is_empty() && owned_heap_allocs(&m.mem) != blocks.len() {
                    problems.push(json!({"scenario": "lower_flat", "error": format!("{} heap allocations, spec says {}", owned_heap_allocs(&m.mem), blocks.len())}));
                }
            }
        }
    }

    // B. lower_to_memory, then C. lift_from_memory of (i) what B wrote, (ii) the spec's image
    let size = vec["size"].as_u64().unwrap();
    let align = vec["align"].as_u64().unwrap();
    let root_cells = cells(&vec["mem"]);
    let r = catch(std::panic::AssertUnwindSafe(|| -> Result<(), String> {
        let mut rec = Recorder::new(&world.resolve, canon);
        let a = rec.fresh();
        let v = rec.fresh();
        abi::lower_to_memory(&world.resolve, &mut rec, a, v, &c.ty);
        let nvars = rec.next_var;
        let sizes = std::rc::Rc::new(std::mem::take(&mut rec.sizes));
        let prog = rec.finish();
        let mut m = Machine::new(sizes.clone(), w, nvars);
        // the generator's own idea of the layout
        if m.size_of(&c.ty) != size || m.align_of(&c.ty) != align {
            return Err(format!("size/align ({}, {}), spec says ({size}, {align})", m.size_of(&c.ty), m.align_of(&c.ty)));
        }
        let root = m.mem.alloc_min_aligned(size.max(1), align, "root");
        m.set(a, Rv::Ptr(root));
        m.set(v, Rv::W(val.clone()));
        m.run(&prog, &mut NoCallee)?;
        let mut seen = Vec::new();
        exp.check_cells(&m.mem, root, &root_cells, true, &mut seen)?;
        if owned_heap_allocs(&m.mem) != blocks.len() {
            return Err(format!("{} heap allocations, spec says {}", owned_heap_allocs(&m.mem), blocks.len()));
        }
        // nothing outside the value's own bytes may be written: the root block is exactly `size`
        // C(i): lift back what was lowered
        let mut rec = Recorder::new(&world.resolve, canon);
        let a2 = rec.fresh();
        let out = abi::lift_from_memory(&world.resolve, &mut rec, a2, &c.ty);
        let nv2 = rec.next_var;
        let prog2 = rec.finish();
        let mut m2 = Machine::new(sizes.clone(), w, nv2);
        m2.mem = std::mem::replace(&mut m.mem, Mem::new());
        m2.set(a2, Rv::Ptr(root));
        m2.run(&prog2, &mut NoCallee)?;
        let back = m2.wit(&m2.get(out)?)?;
        if back != val {
            return Err(format!("lift(lower(v)) = {back:?}"));
        }
        Ok(())
    }));
    match r {
        Err(p) => problems.push(json!({"scenario": "lower_to_memory", "panic": p})),
        Ok(Err(e)) => problems.push(json!({"scenario": "lower_to_memory", "error": e})),
        Ok(Ok(())) => {}
    }

    // C(ii): lift the spec's own encoding, padding and unspecified pointers filled with garbage
    for garbage in [0x00u8, 0xA5] {
        let r = catch(std::panic::AssertUnwindSafe(|| -> Result<(), String> {
            let mut rec = Recorder::new(&world.resolve, canon);
            let a = rec.fresh();
            let out = abi::lift_from_memory(&world.resolve, &mut rec, a, &c.ty);
            let nvars = rec.next_var;
            let sizes = std::rc::Rc::new(std::mem::take(&mut rec.sizes));
            let prog = rec.finish();
            let mut m = Machine::new(sizes, w, nvars);
            let root = build_image(&mut m.mem, w, &root_cells, align, blocks, garbage)?;
            m.set(a, Rv::Ptr(root));
            m.run(&prog, &mut NoCallee)?;
            let got = m.wit(&m.get(out)?)?;
            if got != val {
                return Err(format!("lifted {got:?}"));
            }
            Ok(())
        }));
        match r {
            Err(p) => problems.push(json!({"scenario": format!("lift_from_memory/g{garbage:#x}"), "panic": p})),
            Ok(Err(e)) => problems.push(json!({"scenario": format!("lift_from_memory/g{garbage:#x}"), "error": e})),
            Ok(Ok(())) => {}
        }
    }
    problems
}

fn c01_replay(vecs: &str, out: &str) -> Result<()> {
    let vecs = read_ndjson(vecs)?;
    let mut w = NdjsonWriter::create(out)?;
    silence_panics();
    let mut worlds: std::collections::HashMap<String, Result<World, String>> = Default::default();
    let mut runs = 0usize;
    let mut skipped = 0usize;
    for v in &vecs {
        let key = v["t"].to_string();
        let world = worlds.entry(key).or_insert_with(|| build_world(&[Ty::from_json(&v["t"])], &[], false).map_err(|e| format!("{e:#}")));
        let world = match world {
            Ok(w) => w,
            Err(e) => {
                skipped += 1;
                if skipped <= 5 {
                    w.write(&json!({"skipped": e, "t": v["t"]}))?;
                }
                continue;
            }
        };
        for canon in [true, false] {
            runs += 1;
            let problems = c01_one(world, v, canon);
            if !problems.is_empty() {
                w.write(&json!({"ti": v["ti"], "vi": v["vi"], "W": v["W"], "t": v["t"], "v": v["v"], "canon": canon, "problems": problems}))?;
            }
        }
    }
    w.write(&json!({"done": vecs.len(), "runs": runs, "skipped": skipped}))?;
    w.finish()
}

fn main() -> Result<()> {
    let a: Vec<String> = std::env::args().collect();
    if a.len() < 3 {
        bail!("usage: abi-interp <c01|c02|c03|c04> <replay|record> ...");
    }
    match (a[1].as_str(), a[2].as_str()) {
        ("c01", "replay") => c01_replay(&a[3], &a[4]),
        ("c02", "replay") => c02::replay(&a[3], &a[4]),
        ("c03", "replay") => c03::replay(&a[3], &a[4]),
        ("c04", "table") => c04::table(&a[3]),
        _ => bail!("unknown subcommand"),
    }
}
