//! C02: `abi::call` for every signature of MC_CallConv.tla in the five (variant, direction,
//! async) combinations in-tree generators use.  The harness plays the other side of the call
//! (caller or callee) with the spec's encodings and checks the glue obligations.
use crate::exec::*;
use crate::ir::*;
use crate::*;
use serde_json::{json, Value};
use vcommon::model::{Ty, Val};
use wit_bindgen_core::abi::{self, AbiVariant, LiftLower, WasmSignature, WasmType};

fn erase(t: &WasmType, w: u64) -> &'static str {
    let p = if w == 4 { "i32" } else { "i64" };
    match t {
        WasmType::I32 => "i32",
        WasmType::I64 | WasmType::PointerOrI64 => "i64",
        WasmType::F32 => "f32",
        WasmType::F64 => "f64",
        WasmType::Pointer | WasmType::Length => p,
    }
}

fn sig_matches(sig_params: &[WasmType], sig_results: &[WasmType], exp: &Value, w: u64) -> Result<(), String> {
    let ep: Vec<&str> = exp["params"].as_array().unwrap().iter().map(|x| x.as_str().unwrap()).collect();
    let er: Vec<&str> = exp["results"].as_array().unwrap().iter().map(|x| x.as_str().unwrap()).collect();
    let gp: Vec<&str> = sig_params.iter().map(|t| erase(t, w)).collect();
    let gr: Vec<&str> = sig_results.iter().map(|t| erase(t, w)).collect();
    if gp != ep || gr != er {
        return Err(format!("core signature {gp:?} -> {gr:?}, the calling convention says {ep:?} -> {er:?}"));
    }
    Ok(())
}

struct Ctx<'v> {
    v: &'v Value,
    w: u64,
    args: Vec<Val>,
    res: Option<Val>,
}

impl<'v> Ctx<'v> {
    fn arr(&self, k: &str) -> &'v [Value] {
        self.v[k].as_array().unwrap()
    }
    fn b(&self, k: &str) -> bool {
        self.v[k].as_bool().unwrap()
    }
    fn n(&self, k: &str) -> u64 {
        self.v[k].as_u64().unwrap()
    }
}

/// The callee of a lowered call (the harness acts as the core function being called).
struct WasmCallee<'c, 'v> {
    cx: &'c Ctx<'v>,
    exp_sig: &'v Value,
    owned: bool,
    /// where indirect parameters must live: "retarea" (import) or "params" (export, malloc'd)
    record_kind: &'static str,
    /// retptr passed as last parameter (import) or returned (export)
    retptr_is_param: bool,
    calls: usize,
    garbage: u8,
}

impl<'c, 'v> Callee for WasmCallee<'c, 'v> {
    fn call_wasm(&mut self, mem: &mut Mem, _name: &str, sig: &WasmSignature, args: &[Rv]) -> Result<Vec<Rv>, String> {
        self.calls += 1;
        let cx = self.cx;
        let w = cx.w;
        sig_matches(&sig.params, &sig.results, self.exp_sig, w)?;
        let indirect = cx.b("indirect");
        let retptr = cx.b("retptr");
        let mut seen = Vec::new();
        let nparams = if indirect { 1 } else { cx.arr("paramsFlat").len() };
        if indirect {
            let exp = Expect { w, blocks: cx.arr("paramsMemBlocks") };
            let p = match &args[0] {
                Rv::Ptr(p) => *p,
                o => return Err(format!("parameter record pointer is {o:?}")),
            };
            let (size, align) = (cx.n("paramsSize"), cx.n("paramsAlign"));
            if p % align != 0 {
                return Err(format!("parameter record at {p:#x} is not {align}-aligned"));
            }
            match mem.find(p) {
                Some(a) if a.kind == self.record_kind && a.size >= size && a.align >= align && (self.record_kind != "params" || (a.size == size && a.align == align)) => {}
                Some(a) => return Err(format!("parameter record lives in a {} block (size {}, align {}), expected {} (size {size}, align {align})", a.kind, a.size, a.align, self.record_kind)),
                None => return Err("parameter record pointer is not an allocation".into()),
            }
            exp.check_cells(mem, p, &cells(&cx.v["paramsMem"]), self.owned, &mut seen)?;
        } else {
            let exp = Expect { w, blocks: cx.arr("paramsFlatBlocks") };
            for (i, e) in cx.arr("paramsFlat").iter().enumerate() {
                exp.check_flat(mem, &args[i], e, self.owned, &mut seen).map_err(|e| format!("argument slot {i}: {e}"))?;
            }
        }
        // the result
        if retptr {
            let blocks = cx.arr("resMemBlocks");
            let addrs = build_blocks(mem, w, blocks, self.garbage, "as-spec")?;
            let root = cells(&cx.v["resMem"]);
            if self.retptr_is_param {
                if args.len() != nparams + 1 {
                    return Err(format!("{} core arguments, expected parameters + return pointer", args.len()));
                }
                let p = match &args[nparams] {
                    Rv::Ptr(p) => *p,
                    o => return Err(format!("return pointer is {o:?}")),
                };
                let (size, align) = (cx.n("resSize"), cx.n("resAlign"));
                match mem.find(p) {
                    Some(a) if a.size >= size && p % align == 0 => {}
                    _ => return Err(format!("return area at {p:#x} is not a block of >= {size} bytes aligned to {align}")),
                }
                fill_cells(mem, w, p, &root, &addrs, self.garbage)?;
                Ok(vec![])
            } else {
                let p = mem.alloc_min_aligned(cx.n("resSize").max(1), cx.n("resAlign"), "callee-retarea");
                fill_cells(mem, w, p, &root, &addrs, self.garbage)?;
                Ok(vec![Rv::Ptr(p)])
            }
        } else {
            if args.len() != nparams {
                return Err(format!("{} core arguments, expected {nparams}", args.len()));
            }
            let blocks = cx.arr("resFlatBlocks");
            let addrs = build_blocks(mem, w, blocks, self.garbage, "as-spec")?;
            let a = |i: usize| addrs[i];
            Ok(cx.arr("resFlat").iter().zip(&sig.results).map(|(e, t)| flat_to_rv(e, w, &a, self.garbage, Some(*t))).collect())
        }
    }
    fn call_interface(&mut self, _: &[Val]) -> Result<Option<Val>, String> {
        Err("CallInterface in a lowering glue".into())
    }
}

/// The callee of a lifted call (the harness acts as the user's implementation).
struct IfaceCallee<'c, 'v> {
    cx: &'c Ctx<'v>,
    calls: usize,
}
impl<'c, 'v> Callee for IfaceCallee<'c, 'v> {
    fn call_wasm(&mut self, _: &mut Mem, _: &str, _: &WasmSignature, _: &[Rv]) -> Result<Vec<Rv>, String> {
        Err("CallWasm in a lifting glue".into())
    }
    fn call_interface(&mut self, args: &[Val]) -> Result<Option<Val>, String> {
        self.calls += 1;
        if args != &self.cx.args[..] {
            return Err(format!("implementation received {:?}", args));
        }
        Ok(self.cx.res.clone())
    }
}

fn record(world: &World, func: &wit_parser::Function, variant: AbiVariant, ll: LiftLower, async_: bool) -> (Block, std::rc::Rc<wit_parser::SizeAlign>, usize) {
    let mut rec = Recorder::new(&world.resolve, true);
    abi::call(&world.resolve, variant, ll, func, &mut rec, async_);
    let n = rec.next_var;
    let sizes = std::rc::Rc::new(std::mem::take(&mut rec.sizes));
    (rec.finish(), sizes, n)
}

/// glue that lowers arguments and lifts results (the guest calls an import / a host calls an export)
fn lowering_combo(world: &World, func: &wit_parser::Function, cx: &Ctx, variant: AbiVariant, garbage: u8) -> Result<(), String> {
    let (prog, sizes, n) = record(world, func, variant, LiftLower::LowerArgsLiftResults, false);
    let mut m = Machine::new(sizes, cx.w, n);
    m.args = cx.args.iter().cloned().map(Rv::W).collect();
    let import = variant == AbiVariant::GuestImport;
    let mut callee = WasmCallee {
        cx,
        exp_sig: if import { &cx.v["lowerSig"] } else { &cx.v["liftSig"] },
        owned: !import,
        record_kind: if import { "retarea" } else { "params" },
        retptr_is_param: import,
        calls: 0,
        garbage,
    };
    m.run(&prog, &mut callee)?;
    if callee.calls != 1 {
        return Err(format!("{} core calls", callee.calls));
    }
    let ret = m.returned.clone().ok_or("glue did not return")?;
    match (&cx.res, ret.as_slice()) {
        (None, []) => {}
        (Some(want), [Rv::W(got)]) if got == want => {}
        (want, got) => return Err(format!("glue returned {got:?}, expected {want:?}")),
    }
    if import && m.events.iter().any(|e| matches!(e, Event::Malloc { .. } | Event::Dealloc { .. })) {
        return Err("an import call allocated or freed guest memory through realloc".into());
    }
    Ok(())
}

/// glue that lifts arguments and lowers results (guest export wrapper / host import implementation)
fn lifting_combo(world: &World, func: &wit_parser::Function, cx: &Ctx, variant: AbiVariant, async_: bool, garbage: u8) -> Result<Vec<String>, String> {
    let mut notes = Vec::new();
    let (prog, sizes, n) = record(world, func, variant, LiftLower::LiftArgsLowerResults, async_);
    let w = cx.w;
    let mut m = Machine::new(sizes, w, n);
    let export = variant != AbiVariant::GuestImport;
    let real_sig = world.resolve.wasm_signature(variant, func);
    let exp_sig = if async_ { &cx.v["asyncLiftSig"] } else if export { &cx.v["liftSig"] } else { &cx.v["lowerSig"] };
    if let Err(e) = sig_matches(&real_sig.params, &real_sig.results, exp_sig, w) {
        return Err(format!("SPEC-OR-WIT-PARSER: {e}"));
    }
    let indirect = cx.b("indirect");
    let retptr = cx.b("retptr") && !async_;
    // the caller's side: arguments
    let mut record_addr = None;
    if indirect {
        let addrs = build_blocks(&mut m.mem, w, cx.arr("paramsMemBlocks"), garbage, "as-spec")?;
        let p = m.mem.alloc(cx.n("paramsSize"), cx.n("paramsAlign"), "params");
        fill_cells(&mut m.mem, w, p, &cells(&cx.v["paramsMem"]), &addrs, garbage)?;
        m.args.push(Rv::Ptr(p));
        record_addr = Some(p);
    } else {
        let addrs = build_blocks(&mut m.mem, w, cx.arr("paramsFlatBlocks"), garbage, "as-spec")?;
        let a = |i: usize| addrs[i];
        for (e, t) in cx.arr("paramsFlat").iter().zip(&real_sig.params) {
            m.args.push(flat_to_rv(e, w, &a, garbage, Some(*t)));
        }
    }
    let mut res_area = None;
    if retptr && !export {
        let p = m.mem.alloc_min_aligned(cx.n("resSize").max(1), cx.n("resAlign"), "host-retarea");
        m.args.push(Rv::Ptr(p));
        res_area = Some(p);
    }
    let heap_before = m.mem.allocs.len();
    let mut callee = IfaceCallee { cx, calls: 0 };
    m.run(&prog, &mut callee)?;
    if callee.calls != 1 {
        return Err(format!("{} calls of the implementation", callee.calls));
    }
    // the parameter record: freed exactly once by an export wrapper, never by an import implementation
    let frees: Vec<&Event> = m.events.iter().filter(|e| matches!(e, Event::Dealloc { what: "record", .. })).collect();
    if export && indirect {
        let (size, align) = (cx.n("paramsSize"), cx.n("paramsAlign"));
        match frees.as_slice() {
            [Event::Dealloc { addr, size: s, align: a, .. }] if Some(*addr) == record_addr && *s == size && *a == align => {}
            [] => notes.push("PARAM-RECORD-NOT-FREED".to_string()),
            other => return Err(format!("parameter record (size {size}, align {align}) freed as {other:?}")),
        }
    } else if !frees.is_empty() {
        return Err(format!("unexpected deallocation {frees:?}"));
    }
    // results
    let owned = !async_;
    let mut seen = Vec::new();
    if async_ {
        let tr: Vec<&Event> = m.events.iter().filter(|e| matches!(e, Event::TaskReturn { .. })).collect();
        let [Event::TaskReturn { name, params, args }] = tr.as_slice() else {
            return Err(format!("{} task.return calls", tr.len()));
        };
        if name != &format!("[task-return]{}", func.name) {
            return Err(format!("task.return import named {name}"));
        }
        let want: Vec<&str> = cx.arr("taskReturn").iter().map(|x| x.as_str().unwrap()).collect();
        let got: Vec<&str> = params.iter().map(|t| erase(t, w)).collect();
        if want != got {
            return Err(format!("task.return core parameters {got:?}, the calling convention says {want:?}"));
        }
        if cx.n("nres") > 16 {
            let exp = Expect { w, blocks: cx.arr("resMemBlocks") };
            let p = match &args[0] {
                Rv::Ptr(p) => *p,
                o => return Err(format!("task.return pointer argument is {o:?}")),
            };
            exp.check_cells(&m.mem, p, &cells(&cx.v["resMem"]), false, &mut seen)?;
        } else {
            let exp = Expect { w, blocks: cx.arr("resFlatBlocks") };
            for (i, e) in cx.arr("resFlat").iter().enumerate() {
                exp.check_flat(&m.mem, &args[i], e, false, &mut seen).map_err(|e| format!("task.return slot {i}: {e}"))?;
            }
        }
        if m.returned.is_some() {
            notes.push("RETURN-AFTER-TASK-RETURN".to_string());
        }
    } else if retptr {
        let exp = Expect { w, blocks: cx.arr("resMemBlocks") };
        let p = if export {
            match m.returned.as_deref() {
                Some([Rv::Ptr(p)]) => *p,
                o => return Err(format!("export wrapper returned {o:?}, expected a pointer to the return area")),
            }
        } else {
            match m.returned.as_deref() {
                Some([]) => res_area.unwrap(),
                o => return Err(format!("import implementation returned {o:?}, expected nothing")),
            }
        };
        if p % cx.n("resAlign") != 0 {
            return Err("return area misaligned".into());
        }
        exp.check_cells(&m.mem, p, &cells(&cx.v["resMem"]), owned, &mut seen)?;
    } else {
        let exp = Expect { w, blocks: cx.arr("resFlatBlocks") };
        let ret = m.returned.clone().ok_or("glue did not return")?;
        let flat = cx.arr("resFlat");
        if ret.len() != flat.len() {
            return Err(format!("{} values returned, expected {}", ret.len(), flat.len()));
        }
        for (i, e) in flat.iter().enumerate() {
            exp.check_flat(&m.mem, &ret[i], e, owned, &mut seen).map_err(|e| format!("result slot {i}: {e}"))?;
        }
    }
    let _ = heap_before;
    Ok(notes)
}

pub fn replay(vecs: &str, out: &str) -> anyhow::Result<()> {
    let vecs = read_ndjson(vecs)?;
    let mut w = NdjsonWriter::create(out)?;
    silence_panics();
    let mut runs = 0usize;
    for v in &vecs {
        let ps: Vec<Ty> = v["ps"].as_array().unwrap().iter().map(Ty::from_json).collect();
        let r: Option<Ty> = if v["r"]["k"] == "none" { None } else { Some(Ty::from_json(&v["r"])) };
        let mut types = ps.clone();
        if let Some(r) = &r {
            types.push(r.clone());
        }
        let params: Vec<usize> = (0..ps.len()).collect();
        let result = r.as_ref().map(|_| ps.len());
        let world = match build_world(&types, &[("f".to_string(), params, result)], false) {
            Ok(w) => w,
            Err(e) => {
                w.write(&json!({"skipped": format!("{e:#}"), "fi": v["fi"]}))?;
                continue;
            }
        };
        let func = world.func("f");
        let cx = Ctx {
            v,
            w: v["W"].as_u64().unwrap(),
            args: ps.iter().zip(v["args"].as_array().unwrap()).map(|(t, x)| Val::from_json(t, x)).collect(),
            res: r.as_ref().map(|t| Val::from_json(t, &v["res"])),
        };
        let has_borrow_result = false;
        let _ = has_borrow_result;
        let combos: [(&str, AbiVariant, bool, bool); 5] = [
            ("import-lower", AbiVariant::GuestImport, true, false),
            ("export-lift", AbiVariant::GuestExport, false, false),
            ("async-export-lift", AbiVariant::GuestExportAsync, false, true),
            ("export-lower", AbiVariant::GuestExport, true, false),
            ("import-lift", AbiVariant::GuestImport, false, false),
        ];
        for (name, variant, lowering, async_) in combos {
            for garbage in [0u8, 0xA5] {
                runs += 1;
                let r = catch(std::panic::AssertUnwindSafe(|| {
                    if lowering {
                        lowering_combo(&world, &func, &cx, variant, garbage).map(|_| Vec::new())
                    } else {
                        lifting_combo(&world, &func, &cx, variant, async_, garbage)
                    }
                }));
                let problem = match r {
                    Err(p) => Some(json!({"panic": p})),
                    Ok(Err(e)) => Some(json!({"error": e})),
                    Ok(Ok(notes)) if !notes.is_empty() => Some(json!({"notes": notes})),
                    Ok(Ok(_)) => None,
                };
                if let Some(p) = problem {
                    w.write(&json!({"fi": v["fi"], "W": v["W"], "sh": v["sh"], "combo": name, "garbage": garbage,
                                    "nflat": v["nflat"], "nres": v["nres"], "ps": v["ps"], "r": v["r"], "problem": p}))?;
                }
            }
        }
    }
    w.write(&json!({"done": vecs.len(), "runs": runs}))?;
    w.finish()
}
