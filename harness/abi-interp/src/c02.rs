use anyhow::{bail, Result};
pub fn replay(_vecs: &str, _out: &str) -> Result<()> { bail!("todo") }
