//! Executes a recorded instruction program (`ir.rs`) on concrete values, a byte-addressed
//! memory with a recording allocator, and a given pointer width.  The meaning given to each
//! instruction is the one documented on `wit_bindgen_core::abi::Instruction`.
use crate::ir::*;
use vcommon::model::Val;
use wit_bindgen_core::abi::{WasmSignature, WasmType};
use wit_parser::{Alignment, ArchitectureSize, SizeAlign, Type};

#[derive(Clone, Debug, PartialEq)]
pub enum Rv {
    W(Val),
    I32(u32),
    I64(u64),
    F32(u32),
    F64(u64),
    Ptr(u64),
    Len(u64),
    P64(u64),
}

#[derive(Clone, Debug)]
pub struct Alloc {
    pub addr: u64,
    pub size: u64,
    pub align: u64,
    pub kind: &'static str,
    pub freed: u32,
}

pub struct Mem {
    pub base: u64,
    pub data: Vec<u8>,
    pub allocs: Vec<Alloc>,
}

pub const POISON: u8 = 0xCD;

impl Mem {
    pub fn new() -> Mem {
        Mem { base: 0x1000, data: Vec::new(), allocs: Vec::new() }
    }
    pub fn alloc(&mut self, size: u64, align: u64, kind: &'static str) -> u64 {
        let align = align.max(1);
        let mut off = self.data.len() as u64 + 8; // gap between blocks
        off = (self.base + off + align - 1) / align * align - self.base;
        self.data.resize((off + size) as usize, POISON);
        let addr = self.base + off;
        self.allocs.push(Alloc { addr, size, align, kind, freed: 0 });
        addr
    }
    /// like `alloc` but the block starts at an address that is `align`-aligned and *not*
    /// aligned to 2*align (so that over-alignment cannot hide a missing align_to)
    pub fn alloc_min_aligned(&mut self, size: u64, align: u64, kind: &'static str) -> u64 {
        let align = align.max(1);
        let start = self.base + self.data.len() as u64 + 8;
        let addr = (start + 2 * align - 1) / (2 * align) * (2 * align) + align;
        let off = addr - self.base;
        self.data.resize((off + size) as usize, POISON);
        self.allocs.push(Alloc { addr, size, align, kind, freed: 0 });
        addr
    }
    pub fn read(&self, addr: u64, n: u64) -> Result<&[u8], String> {
        if addr < self.base || addr + n > self.base + self.data.len() as u64 {
            return Err(format!("out-of-bounds read of {n} bytes at {addr:#x}"));
        }
        let o = (addr - self.base) as usize;
        Ok(&self.data[o..o + n as usize])
    }
    pub fn write(&mut self, addr: u64, bytes: &[u8]) -> Result<(), String> {
        let n = bytes.len() as u64;
        if addr < self.base || addr + n > self.base + self.data.len() as u64 {
            return Err(format!("out-of-bounds write of {n} bytes at {addr:#x}"));
        }
        // writes must stay inside one live allocation
        if n > 0 && !self.allocs.iter().any(|a| a.freed == 0 && addr >= a.addr && addr + n <= a.addr + a.size) {
            return Err(format!("write of {n} bytes at {addr:#x} is not inside a live allocation"));
        }
        let o = (addr - self.base) as usize;
        self.data[o..o + bytes.len()].copy_from_slice(bytes);
        Ok(())
    }
    pub fn find(&self, addr: u64) -> Option<&Alloc> {
        self.allocs.iter().rev().find(|a| a.addr == addr)
    }
}

#[derive(Clone, Debug, PartialEq)]
pub enum Event {
    Malloc { addr: u64, size: u64, align: u64 },
    Dealloc { addr: u64, size: u64, align: u64, what: &'static str },
    DropHandle(Val),
    CallWasm { name: String, params: Vec<WasmType>, results: Vec<WasmType>, args: Vec<Rv> },
    CallInterface { args: Vec<Val>, async_: bool },
    TaskReturn { name: String, params: Vec<WasmType>, args: Vec<Rv> },
    Return(Vec<Rv>),
}

/// The other side of the call performed by a glue function.
pub trait Callee {
    fn call_wasm(&mut self, mem: &mut Mem, name: &str, sig: &WasmSignature, args: &[Rv]) -> Result<Vec<Rv>, String>;
    fn call_interface(&mut self, args: &[Val]) -> Result<Option<Val>, String>;
}

pub struct NoCallee;
impl Callee for NoCallee {
    fn call_wasm(&mut self, _: &mut Mem, name: &str, _: &WasmSignature, _: &[Rv]) -> Result<Vec<Rv>, String> {
        Err(format!("unexpected CallWasm {name}"))
    }
    fn call_interface(&mut self, _: &[Val]) -> Result<Option<Val>, String> {
        Err("unexpected CallInterface".into())
    }
}

#[derive(Default, Clone)]
struct Frame {
    payload: Option<Rv>,
    elem: Option<Rv>,
    key: Option<Rv>,
    value: Option<Rv>,
    base: Option<u64>,
}

pub struct Machine {
    pub sizes: std::rc::Rc<SizeAlign>,
    pub w: u64,
    pub mem: Mem,
    pub args: Vec<Rv>,
    pub events: Vec<Event>,
    pub returned: Option<Vec<Rv>>,
    env: Vec<Option<Rv>>,
}

type R<T> = Result<T, String>;

fn bytes_of(v: &Rv) -> R<Vec<u8>> {
    match v {
        Rv::W(Val::Bytes(b)) => Ok(b.clone()),
        other => Err(format!("expected a scalar WIT value, got {other:?}")),
    }
}

fn le(b: &[u8]) -> u64 {
    let mut x = 0u64;
    for (i, v) in b.iter().enumerate() {
        x |= (*v as u64) << (8 * i);
    }
    x
}

impl Machine {
    pub fn new(sizes: std::rc::Rc<SizeAlign>, w: u64, nvars: usize) -> Machine {
        Machine { sizes, w, mem: Mem::new(), args: Vec::new(), events: Vec::new(), returned: None, env: vec![None; nvars] }
    }

    pub fn sz(&self, a: ArchitectureSize) -> u64 {
        a.bytes as u64 + a.pointers as u64 * self.w
    }
    pub fn al(&self, a: Alignment) -> u64 {
        match a {
            Alignment::Bytes(n) => n.get() as u64,
            Alignment::Pointer => self.w,
        }
    }
    pub fn size_of(&self, t: &Type) -> u64 {
        self.sz(self.sizes.size(t))
    }
    pub fn align_of(&self, t: &Type) -> u64 {
        self.al(self.sizes.align(t))
    }
    fn entry_layout(&self, k: &Type, v: &Type) -> (u64, u64) {
        let info = self.sizes.record([k, v]);
        (self.sz(info.size), self.al(info.align))
    }

    pub fn set(&mut self, v: Var, x: Rv) {
        if v >= self.env.len() {
            self.env.resize(v + 1, None);
        }
        self.env[v] = Some(x);
    }
    pub fn get(&self, v: Var) -> R<Rv> {
        self.env.get(v).cloned().flatten().ok_or_else(|| format!("variable {v} used before definition"))
    }

    fn addr(&self, v: &Rv) -> R<u64> {
        match v {
            Rv::Ptr(a) => Ok(*a),
            // languages hand addresses around as integers too
            Rv::I32(a) if self.w == 4 => Ok(*a as u64),
            Rv::I64(a) | Rv::P64(a) if self.w == 8 => Ok(*a),
            other => Err(format!("expected a pointer, got {other:?}")),
        }
    }
    fn len(&self, v: &Rv) -> R<u64> {
        match v {
            Rv::Len(a) => Ok(*a),
            Rv::I32(a) if self.w == 4 => Ok(*a as u64),
            Rv::I64(a) if self.w == 8 => Ok(*a),
            other => Err(format!("expected a length, got {other:?}")),
        }
    }
    fn i32(&self, v: &Rv) -> R<u32> {
        match v {
            Rv::I32(a) => Ok(*a),
            other => Err(format!("expected an i32, got {other:?}")),
        }
    }

    pub fn run(&mut self, prog: &Block, callee: &mut dyn Callee) -> R<()> {
        self.exec_block(prog, &Frame::default(), callee).map(|_| ())
    }

    fn exec_block(&mut self, b: &Block, f: &Frame, callee: &mut dyn Callee) -> R<Vec<Rv>> {
        for inst in &b.insts {
            self.exec(inst, f, callee)?;
        }
        b.results.iter().map(|v| self.get(*v)).collect()
    }

    fn scalar_mem_bytes(&self, t: &Type) -> Option<u64> {
        Some(match t {
            Type::U8 | Type::S8 => 1,
            Type::U16 | Type::S16 => 2,
            Type::U32 | Type::S32 | Type::F32 => 4,
            Type::U64 | Type::S64 | Type::F64 => 8,
            _ => return None,
        })
    }

    fn cast(&self, c: &Bc, v: Rv) -> R<Rv> {
        let w = self.w;
        Ok(match (c, v) {
            (Bc::None, v) => v,
            (Bc::F32ToI32, Rv::F32(x)) => Rv::I32(x),
            (Bc::F64ToI64, Rv::F64(x)) => Rv::I64(x),
            (Bc::I32ToI64, Rv::I32(x)) => Rv::I64(x as u64),
            (Bc::F32ToI64, Rv::F32(x)) => Rv::I64(x as u64),
            (Bc::I32ToF32, Rv::I32(x)) => Rv::F32(x),
            (Bc::I64ToF64, Rv::I64(x)) => Rv::F64(x),
            (Bc::I64ToI32, Rv::I64(x)) => Rv::I32(x as u32),
            (Bc::I64ToF32, Rv::I64(x)) => Rv::F32(x as u32),
            (Bc::P64ToI64, Rv::P64(x)) => Rv::I64(x),
            (Bc::I64ToP64, Rv::I64(x)) => Rv::P64(x),
            (Bc::P64ToP, Rv::P64(x)) => Rv::Ptr(if w == 4 { x as u32 as u64 } else { x }),
            (Bc::PToP64, Rv::Ptr(x)) => Rv::P64(x),
            (Bc::I32ToP, Rv::I32(x)) => Rv::Ptr(x as u64),
            (Bc::PToI32, Rv::Ptr(x)) => Rv::I32(x as u32),
            (Bc::PToL, Rv::Ptr(x)) => Rv::Len(x),
            (Bc::LToP, Rv::Len(x)) => Rv::Ptr(x),
            (Bc::I32ToL, Rv::I32(x)) => Rv::Len(x as u64),
            (Bc::LToI32, Rv::Len(x)) => Rv::I32(x as u32),
            (Bc::I64ToL, Rv::I64(x)) => Rv::Len(if w == 4 { x as u32 as u64 } else { x }),
            (Bc::LToI64, Rv::Len(x)) => Rv::I64(x),
            (Bc::Sequence(a, b), v) => {
                let m = self.cast(a, v)?;
                self.cast(b, m)?
            }
            (c, v) => return Err(format!("bitcast {c:?} applied to {v:?}")),
        })
    }

    fn zero(&self, t: &WasmType) -> Rv {
        match t {
            WasmType::I32 => Rv::I32(0),
            WasmType::I64 => Rv::I64(0),
            WasmType::F32 => Rv::F32(0),
            WasmType::F64 => Rv::F64(0),
            WasmType::Pointer => Rv::Ptr(0),
            WasmType::Length => Rv::Len(0),
            WasmType::PointerOrI64 => Rv::P64(0),
        }
    }

    fn conv(&self, name: &str, v: Rv) -> R<Rv> {
        let ext = |b: Vec<u8>, signed: bool, n: usize| -> Vec<u8> {
            let fill = if signed && b.last().map(|x| *x >= 128).unwrap_or(false) { 0xff } else { 0 };
            let mut b = b;
            b.resize(n, fill);
            b
        };
        Ok(match name {
            "I32FromU8" | "I32FromU16" | "I32FromU32" | "I32FromChar" => Rv::I32(le(&ext(bytes_of(&v)?, false, 4)) as u32),
            "I32FromS8" | "I32FromS16" | "I32FromS32" => Rv::I32(le(&ext(bytes_of(&v)?, true, 4)) as u32),
            "I64FromU64" | "I64FromS64" => Rv::I64(le(&bytes_of(&v)?)),
            "CoreF32FromF32" => Rv::F32(le(&bytes_of(&v)?) as u32),
            "CoreF64FromF64" => Rv::F64(le(&bytes_of(&v)?)),
            "I32FromBool" => match v {
                Rv::W(Val::Bool(b)) => Rv::I32(b as u32),
                o => return Err(format!("I32FromBool on {o:?}")),
            },
            "U8FromI32" | "S8FromI32" => Rv::W(Val::Bytes(self.i32(&v)?.to_le_bytes()[..1].to_vec())),
            "U16FromI32" | "S16FromI32" => Rv::W(Val::Bytes(self.i32(&v)?.to_le_bytes()[..2].to_vec())),
            "U32FromI32" | "S32FromI32" | "CharFromI32" => Rv::W(Val::Bytes(self.i32(&v)?.to_le_bytes().to_vec())),
            "U64FromI64" | "S64FromI64" => match v {
                Rv::I64(x) => Rv::W(Val::Bytes(x.to_le_bytes().to_vec())),
                o => return Err(format!("{name} on {o:?}")),
            },
            "F32FromCoreF32" => match v {
                Rv::F32(x) => Rv::W(Val::Bytes(x.to_le_bytes().to_vec())),
                o => return Err(format!("{name} on {o:?}")),
            },
            "F64FromCoreF64" => match v {
                Rv::F64(x) => Rv::W(Val::Bytes(x.to_le_bytes().to_vec())),
                o => return Err(format!("{name} on {o:?}")),
            },
            "BoolFromI32" => Rv::W(Val::Bool(self.i32(&v)? != 0)),
            _ => return Err(format!("unknown conversion {name}")),
        })
    }

    fn list_of(&self, v: &Rv) -> R<Vec<Val>> {
        match v {
            Rv::W(Val::List(xs)) => Ok(xs.clone()),
            o => Err(format!("expected a list, got {o:?}")),
        }
    }

    fn lower_alloc(&mut self, size: u64, align: u64, realloc: bool, kind: &'static str) -> u64 {
        if size == 0 {
            // like Rust's dangling pointer for empty vectors: no allocation
            return align;
        }
        let k: &'static str = if realloc { kind } else { "borrowed" };
        let a = self.mem.alloc(size, align, k);
        if realloc {
            self.events.push(Event::Malloc { addr: a, size, align });
        }
        a
    }

    fn exec(&mut self, inst: &Inst, f: &Frame, callee: &mut dyn Callee) -> R<()> {
        let a: Vec<Rv> = inst.args.iter().map(|v| self.get(*v)).collect::<R<_>>()?;
        let mut out: Vec<Rv> = Vec::new();
        match &inst.op {
            Op::GetArg(n) => out.push(self.args.get(*n).cloned().ok_or_else(|| format!("GetArg {n}: only {} arguments", self.args.len()))?),
            Op::I32Const(v) => out.push(Rv::I32(*v as u32)),
            Op::Bitcasts(cs) => {
                for (c, v) in cs.iter().zip(a.into_iter()) {
                    out.push(self.cast(c, v)?);
                }
            }
            Op::ConstZero(tys) => out.extend(tys.iter().map(|t| self.zero(t))),
            Op::Load { kind, offset } => {
                let at = self.addr(&a[0])? + self.sz(*offset);
                let w = self.w;
                let rd = |m: &Mem, n: u64| -> R<u64> { Ok(le(m.read(at, n)?)) };
                out.push(match kind {
                    MemKind::I32 => Rv::I32(rd(&self.mem, 4)? as u32),
                    MemKind::I8U => Rv::I32(rd(&self.mem, 1)? as u32),
                    MemKind::I8S => Rv::I32(rd(&self.mem, 1)? as u8 as i8 as i32 as u32),
                    MemKind::I16U => Rv::I32(rd(&self.mem, 2)? as u32),
                    MemKind::I16S => Rv::I32(rd(&self.mem, 2)? as u16 as i16 as i32 as u32),
                    MemKind::I64 => Rv::I64(rd(&self.mem, 8)?),
                    MemKind::F32 => Rv::F32(rd(&self.mem, 4)? as u32),
                    MemKind::F64 => Rv::F64(rd(&self.mem, 8)?),
                    MemKind::Pointer => Rv::Ptr(rd(&self.mem, w)?),
                    MemKind::Length => Rv::Len(rd(&self.mem, w)?),
                    MemKind::I8 | MemKind::I16 => return Err("store kind used for a load".into()),
                });
            }
            Op::Store { kind, offset } => {
                let at = self.addr(&a[1])? + self.sz(*offset);
                let w = self.w as usize;
                let bytes: Vec<u8> = match (kind, &a[0]) {
                    (MemKind::I32, Rv::I32(x)) => x.to_le_bytes().to_vec(),
                    (MemKind::I8, Rv::I32(x)) => x.to_le_bytes()[..1].to_vec(),
                    (MemKind::I16, Rv::I32(x)) => x.to_le_bytes()[..2].to_vec(),
                    (MemKind::I64, Rv::I64(x)) => x.to_le_bytes().to_vec(),
                    (MemKind::F32, Rv::F32(x)) => x.to_le_bytes().to_vec(),
                    (MemKind::F64, Rv::F64(x)) => x.to_le_bytes().to_vec(),
                    (MemKind::Pointer, Rv::Ptr(x)) => x.to_le_bytes()[..w].to_vec(),
                    (MemKind::Length, Rv::Len(x)) => x.to_le_bytes()[..w].to_vec(),
                    (k, v) => return Err(format!("store {k:?} of {v:?}")),
                };
                self.mem.write(at, &bytes)?;
            }
            Op::Conv(name) => out.push(self.conv(name, a[0].clone())?),
            Op::StringLower { realloc } => {
                let s = match &a[0] {
                    Rv::W(Val::Str(s)) => s.clone(),
                    o => return Err(format!("StringLower on {o:?}")),
                };
                let p = self.lower_alloc(s.len() as u64, 1, *realloc, "string");
                if !s.is_empty() {
                    self.mem.write(p, &s)?;
                }
                out.push(Rv::Ptr(p));
                out.push(Rv::Len(s.len() as u64));
            }
            Op::StringLift => {
                let p = self.addr(&a[0])?;
                let n = self.len(&a[1])?;
                let b = if n == 0 { Vec::new() } else { self.mem.read(p, n)?.to_vec() };
                out.push(Rv::W(Val::Str(b)));
            }
            Op::ListCanonLower { element, realloc } => {
                let xs = self.list_of(&a[0])?;
                let es = self.scalar_mem_bytes(element).ok_or("ListCanonLower on a non-scalar element")?;
                let p = self.lower_alloc(es * xs.len() as u64, es, *realloc, "list");
                for (i, x) in xs.iter().enumerate() {
                    match x {
                        Val::Bytes(b) if b.len() as u64 == es => self.mem.write(p + i as u64 * es, b)?,
                        o => return Err(format!("canonical list element {o:?}")),
                    }
                }
                out.push(Rv::Ptr(p));
                out.push(Rv::Len(xs.len() as u64));
            }
            Op::ListCanonLift { element } => {
                let p = self.addr(&a[0])?;
                let n = self.len(&a[1])?;
                let es = self.scalar_mem_bytes(element).ok_or("ListCanonLift on a non-scalar element")?;
                let mut xs = Vec::new();
                for i in 0..n {
                    xs.push(Val::Bytes(self.mem.read(p + i * es, es)?.to_vec()));
                }
                out.push(Rv::W(Val::List(xs)));
            }
            Op::ListLower { element, realloc } => {
                let xs = self.list_of(&a[0])?;
                let es = self.size_of(element);
                let p = self.lower_alloc(es * xs.len() as u64, self.align_of(element), *realloc, "list");
                for (i, x) in xs.into_iter().enumerate() {
                    let fr = Frame { elem: Some(Rv::W(x)), base: Some(p + i as u64 * es), ..f.clone() };
                    self.exec_block(&inst.blocks[0], &fr, callee)?;
                }
                out.push(Rv::Ptr(p));
                out.push(Rv::Len(self.list_len(&a[0])));
            }
            Op::ListLift { element } => {
                let p = self.addr(&a[0])?;
                let n = self.len(&a[1])?;
                let es = self.size_of(element);
                let mut xs = Vec::new();
                for i in 0..n {
                    let fr = Frame { base: Some(p + i * es), ..f.clone() };
                    let r = self.exec_block(&inst.blocks[0], &fr, callee)?;
                    xs.push(self.wit(&r[0])?);
                }
                out.push(Rv::W(Val::List(xs)));
            }
            Op::MapLower { key, value, realloc } => {
                let kv = match &a[0] {
                    Rv::W(Val::Map(kv)) => kv.clone(),
                    o => return Err(format!("MapLower on {o:?}")),
                };
                let (es, ea) = self.entry_layout(key, value);
                let p = self.lower_alloc(es * kv.len() as u64, ea, *realloc, "map");
                let n = kv.len();
                for (i, (k, v)) in kv.into_iter().enumerate() {
                    let fr = Frame { key: Some(Rv::W(k)), value: Some(Rv::W(v)), base: Some(p + i as u64 * es), ..f.clone() };
                    self.exec_block(&inst.blocks[0], &fr, callee)?;
                }
                out.push(Rv::Ptr(p));
                out.push(Rv::Len(n as u64));
            }
            Op::MapLift { key, value } => {
                let p = self.addr(&a[0])?;
                let n = self.len(&a[1])?;
                let (es, _) = self.entry_layout(key, value);
                let mut kv = Vec::new();
                for i in 0..n {
                    let fr = Frame { base: Some(p + i * es), ..f.clone() };
                    let r = self.exec_block(&inst.blocks[0], &fr, callee)?;
                    kv.push((self.wit(&r[0])?, self.wit(&r[1])?));
                }
                out.push(Rv::W(Val::Map(kv)));
            }
            Op::FListLift { size } => {
                let xs: Vec<Val> = a.iter().map(|v| self.wit(v)).collect::<R<_>>()?;
                assert_eq!(xs.len(), *size as usize);
                out.push(Rv::W(Val::List(xs)));
            }
            Op::FListLower { size } => {
                let xs = self.list_of(&a[0])?;
                if xs.len() != *size as usize {
                    return Err("fixed-length list value of the wrong length".into());
                }
                out.extend(xs.into_iter().map(Rv::W));
            }
            Op::FListLowerToMemory { element, size } => {
                let xs = self.list_of(&a[0])?;
                let base = self.addr(&a[1])?;
                let es = self.size_of(element);
                if xs.len() != *size as usize {
                    return Err("fixed-length list value of the wrong length".into());
                }
                for (i, x) in xs.into_iter().enumerate() {
                    let fr = Frame { elem: Some(Rv::W(x)), base: Some(base + i as u64 * es), ..f.clone() };
                    self.exec_block(&inst.blocks[0], &fr, callee)?;
                }
            }
            Op::FListLiftFromMemory { element, size } => {
                let base = self.addr(&a[0])?;
                let es = self.size_of(element);
                let mut xs = Vec::new();
                for i in 0..*size as u64 {
                    let fr = Frame { base: Some(base + i * es), ..f.clone() };
                    let r = self.exec_block(&inst.blocks[0], &fr, callee)?;
                    xs.push(self.wit(&r[0])?);
                }
                out.push(Rv::W(Val::List(xs)));
            }
            Op::IterElem => out.push(f.elem.clone().ok_or("IterElem outside a list loop")?),
            Op::IterMapKey => out.push(f.key.clone().ok_or("IterMapKey outside a map loop")?),
            Op::IterMapValue => out.push(f.value.clone().ok_or("IterMapValue outside a map loop")?),
            Op::IterBasePointer => out.push(Rv::Ptr(f.base.ok_or("IterBasePointer outside a loop")?)),
            Op::RecordLower(n) => match &a[0] {
                Rv::W(Val::Record(fs)) if fs.len() == *n => out.extend(fs.iter().cloned().map(Rv::W)),
                o => return Err(format!("RecordLower({n}) on {o:?}")),
            },
            Op::RecordLift(n) => {
                assert_eq!(a.len(), *n);
                out.push(Rv::W(Val::Record(a.iter().map(|v| self.wit(v)).collect::<R<_>>()?)));
            }
            Op::HandleLower => out.push(Rv::I32(le(&bytes_of(&a[0])?) as u32)),
            Op::HandleLift => out.push(Rv::W(Val::Bytes(self.i32(&a[0])?.to_le_bytes().to_vec()))),
            Op::FlagsLower { n, words } => match &a[0] {
                Rv::W(Val::Flags(bits)) if bits.len() == *n => {
                    for w in 0..*words {
                        let mut x = 0u32;
                        for b in 0..32 {
                            if bits.get(w * 32 + b).copied().unwrap_or(false) {
                                x |= 1 << b;
                            }
                        }
                        out.push(Rv::I32(x));
                    }
                }
                o => return Err(format!("FlagsLower on {o:?}")),
            },
            Op::FlagsLift { n, words } => {
                assert_eq!(a.len(), *words);
                let mut bits = Vec::new();
                for i in 0..*n {
                    let w = self.i32(&a[i / 32])?;
                    bits.push(w >> (i % 32) & 1 == 1);
                }
                out.push(Rv::W(Val::Flags(bits)));
            }
            Op::VariantPayloadName => out.push(f.payload.clone().unwrap_or(Rv::W(Val::Record(vec![])))),
            Op::VariantLower { kind, ncases, nresults } => {
                let (case, payload): (usize, Option<Val>) = match (kind, &a[0]) {
                    (VKind::Variant, Rv::W(Val::Variant(c, p))) => (*c as usize, p.as_deref().cloned()),
                    (VKind::Option, Rv::W(Val::Opt(p))) => (p.is_some() as usize, p.as_deref().cloned()),
                    (VKind::Result, Rv::W(Val::Res(ok, p))) => (!*ok as usize, p.as_deref().cloned()),
                    (k, o) => return Err(format!("{k:?} lower on {o:?}")),
                };
                if case >= *ncases {
                    return Err("case index out of range".into());
                }
                let fr = Frame { payload: payload.map(Rv::W), ..f.clone() };
                let r = self.exec_block(&inst.blocks[case], &fr, callee)?;
                if r.len() != *nresults {
                    return Err(format!("variant arm produced {} values, expected {nresults}", r.len()));
                }
                out.extend(r);
            }
            Op::VariantLift { kind, ncases, has_payload } => {
                let d = self.i32(&a[0])? as usize;
                if d >= *ncases {
                    return Err(format!("discriminant {d} out of range"));
                }
                let r = self.exec_block(&inst.blocks[d], &Frame { payload: None, ..f.clone() }, callee)?;
                let p = if has_payload[d] { Some(Box::new(self.wit(&r[0])?)) } else { None };
                out.push(Rv::W(match kind {
                    VKind::Variant => Val::Variant(d as u32, p),
                    VKind::Option => Val::Opt(p),
                    VKind::Result => Val::Res(d == 0, p),
                }));
            }
            Op::EnumLower => match &a[0] {
                Rv::W(Val::Enum(c)) => out.push(Rv::I32(*c)),
                o => return Err(format!("EnumLower on {o:?}")),
            },
            Op::EnumLift => out.push(Rv::W(Val::Enum(self.i32(&a[0])?))),
            Op::CallWasm { name, sig } => {
                self.events.push(Event::CallWasm { name: name.clone(), params: sig.params.clone(), results: sig.results.clone(), args: a.clone() });
                let r = callee.call_wasm(&mut self.mem, name, sig, &a)?;
                if r.len() != sig.results.len() {
                    return Err("callee returned the wrong number of core values".into());
                }
                out.extend(r);
            }
            Op::CallInterface { nparams, has_result, async_ } => {
                assert_eq!(a.len(), *nparams);
                let args: Vec<Val> = a.iter().map(|v| self.wit(v)).collect::<R<_>>()?;
                self.events.push(Event::CallInterface { args: args.clone(), async_: *async_ });
                let r = callee.call_interface(&args)?;
                match (r, has_result) {
                    (Some(v), true) => out.push(Rv::W(v)),
                    (None, false) => {}
                    _ => return Err("callee result arity mismatch".into()),
                }
            }
            Op::Return { amt } => {
                assert_eq!(a.len(), *amt);
                self.events.push(Event::Return(a.clone()));
                self.returned = Some(a.clone());
            }
            Op::Malloc { size, align } => {
                let (s, al) = (self.sz(*size), self.al(*align));
                let p = self.mem.alloc(s, al, "params");
                self.events.push(Event::Malloc { addr: p, size: s, align: al });
                out.push(Rv::Ptr(p));
            }
            Op::RetArea { size, align } => {
                let (s, al) = (self.sz(*size), self.al(*align));
                let p = self.mem.alloc_min_aligned(s.max(1), al, "retarea");
                out.push(Rv::Ptr(p));
            }
            Op::GuestDeallocate { size, align } => {
                let p = self.addr(&a[0])?;
                let (s, al) = (self.sz(*size), self.al(*align));
                self.dealloc(p, s, al, "record");
            }
            Op::GuestDeallocateString => {
                let p = self.addr(&a[0])?;
                let n = self.len(&a[1])?;
                self.dealloc(p, n, 1, "string");
            }
            Op::GuestDeallocateList { element } => {
                let p = self.addr(&a[0])?;
                let n = self.len(&a[1])?;
                let es = self.size_of(element);
                for i in 0..n {
                    let fr = Frame { base: Some(p + i * es), ..f.clone() };
                    self.exec_block(&inst.blocks[0], &fr, callee)?;
                }
                self.dealloc(p, n * es, self.align_of(element), "list");
            }
            Op::GuestDeallocateMap { key, value } => {
                let p = self.addr(&a[0])?;
                let n = self.len(&a[1])?;
                let (es, ea) = self.entry_layout(key, value);
                for i in 0..n {
                    let fr = Frame { base: Some(p + i * es), ..f.clone() };
                    self.exec_block(&inst.blocks[0], &fr, callee)?;
                }
                self.dealloc(p, n * es, ea, "map");
            }
            Op::GuestDeallocateVariant { blocks } => {
                let d = self.i32(&a[0])? as usize;
                if d >= *blocks {
                    return Err(format!("deallocation discriminant {d} out of range"));
                }
                self.exec_block(&inst.blocks[d], f, callee)?;
            }
            Op::DropHandle => {
                let v = self.wit(&a[0])?;
                self.events.push(Event::DropHandle(v));
            }
            Op::AsyncTaskReturn { name, params } => {
                self.events.push(Event::TaskReturn { name: name.clone(), params: params.clone(), args: a.clone() });
            }
            Op::Flush => out.extend(a),
        }
        if out.len() != inst.outs.len() {
            return Err(format!("{:?} produced {} values for {} results", inst.op, out.len(), inst.outs.len()));
        }
        for (v, x) in inst.outs.iter().zip(out) {
            self.set(*v, x);
        }
        Ok(())
    }

    fn list_len(&self, v: &Rv) -> u64 {
        match v {
            Rv::W(Val::List(xs)) => xs.len() as u64,
            _ => 0,
        }
    }

    pub fn wit(&self, v: &Rv) -> R<Val> {
        match v {
            Rv::W(v) => Ok(v.clone()),
            o => Err(format!("expected a WIT value, got core value {o:?}")),
        }
    }

    fn dealloc(&mut self, addr: u64, size: u64, align: u64, what: &'static str) {
        self.events.push(Event::Dealloc { addr, size, align, what });
        if size == 0 {
            return;
        }
        if let Some(a) = self.mem.allocs.iter_mut().rev().find(|a| a.addr == addr) {
            a.freed += 1;
        }
    }
}
