//! The guest side of a scenario: a hand-written `Future` (`ScriptFuture`) that performs the
//! scenario's user actions on the *real* `StreamWriter/Reader`, `FutureWriter/Reader` and
//! `Subtask` machinery of `wit_bindgen::rt::async_support`, one "round" per poll.
//!
//! Payload types: `u8` (canonical representation, no lift/lower) and `Tracked` (needs
//! lift/lower and owns a "list" in its lowered form; every lower / dealloc / lift / drop is
//! logged so that the ledger invariants of C19-C21 can be checked by the spec).
use crate::host::{ev, with};
use crate::intrinsics::*;
use serde_json::{json, Value};
use std::alloc::Layout;
use std::collections::HashMap;
use std::future::{Future, IntoFuture};
use std::pin::Pin;
use std::task::{Context, Poll};
use wit_bindgen::rt::async_support::{
    self as rt, FutureReader, FutureVtable, FutureWriter, StreamReader, StreamResult, StreamVtable, StreamWriter, Subtask,
};

// ---------------------------------------------------------------------------------------------
// payloads

pub struct Tracked {
    pub id: u32,
}
impl Drop for Tracked {
    fn drop(&mut self) {
        ev(json!({"ev": "user.dropval", "id": self.id}));
    }
}

pub fn host_list(id: u64) -> u64 {
    // called from inside the host (already borrowed): the host logs `led.hostlist` itself
    Box::into_raw(Box::new([id as u8; 8])) as u64
}

unsafe fn tracked_lower(v: Tracked, dst: *mut u8) {
    let id = v.id;
    std::mem::forget(v);
    *(dst as *mut u32) = id;
    *(dst.add(8) as *mut u64) = Box::into_raw(Box::new([id as u8; 8])) as u64;
    ev(json!({"ev": "led.lower", "id": id}));
}
unsafe fn tracked_dealloc(dst: *mut u8) {
    let id = *(dst as *const u32);
    let list = *(dst.add(8) as *const u64);
    if list == 0 {
        ev(json!({"ev": "led.dealloc-null", "id": id}));
        return;
    }
    drop(Box::from_raw(list as *mut [u8; 8]));
    *(dst.add(8) as *mut u64) = 0;
    ev(json!({"ev": "led.dealloc", "id": id}));
}
unsafe fn tracked_lift(dst: *mut u8) -> Tracked {
    let id = *(dst as *const u32);
    let list = *(dst.add(8) as *const u64);
    if list == 0 {
        ev(json!({"ev": "led.lift-null", "id": id}));
    } else {
        drop(Box::from_raw(list as *mut [u8; 8]));
        *(dst.add(8) as *mut u64) = 0;
        ev(json!({"ev": "led.lift", "id": id}));
    }
    Tracked { id }
}
unsafe fn u8_lower(v: u8, dst: *mut u8) {
    *dst = v;
}
unsafe fn u8_dealloc(_: *mut u8) {}
unsafe fn u8_lift(dst: *mut u8) -> u8 {
    *dst
}

pub static STREAM_U8: StreamVtable<u8> = StreamVtable {
    layout: unsafe { Layout::from_size_align_unchecked(1, 1) },
    lower: None,
    dealloc_lists: None,
    lift: None,
    start_write: stream_u8::swrite,
    start_read: stream_u8::sread,
    cancel_write: stream_u8::cancel_write,
    cancel_read: stream_u8::cancel_read,
    drop_writable: stream_u8::drop_writable,
    drop_readable: stream_u8::drop_readable,
    new: stream_u8::new,
};
pub static STREAM_TRACKED: StreamVtable<Tracked> = StreamVtable {
    layout: unsafe { Layout::from_size_align_unchecked(16, 8) },
    lower: Some(tracked_lower),
    dealloc_lists: Some(tracked_dealloc),
    lift: Some(tracked_lift),
    start_write: stream_tracked::swrite,
    start_read: stream_tracked::sread,
    cancel_write: stream_tracked::cancel_write,
    cancel_read: stream_tracked::cancel_read,
    drop_writable: stream_tracked::drop_writable,
    drop_readable: stream_tracked::drop_readable,
    new: stream_tracked::new,
};
pub static FUTURE_U8: FutureVtable<u8> = FutureVtable {
    layout: unsafe { Layout::from_size_align_unchecked(1, 1) },
    lower: u8_lower,
    dealloc_lists: u8_dealloc,
    lift: u8_lift,
    start_write: future_u8::fwrite,
    start_read: future_u8::fread,
    cancel_write: future_u8::cancel_write,
    cancel_read: future_u8::cancel_read,
    drop_writable: future_u8::drop_writable,
    drop_readable: future_u8::drop_readable,
    new: future_u8::new,
};
pub static FUTURE_TRACKED: FutureVtable<Tracked> = FutureVtable {
    layout: unsafe { Layout::from_size_align_unchecked(16, 8) },
    lower: tracked_lower,
    dealloc_lists: tracked_dealloc,
    lift: tracked_lift,
    start_write: future_tracked::fwrite,
    start_read: future_tracked::fread,
    cancel_write: future_tracked::cancel_write,
    cancel_read: future_tracked::cancel_read,
    drop_writable: future_tracked::drop_writable,
    drop_readable: future_tracked::drop_readable,
    new: future_tracked::new,
};

pub trait Payload: Sized + 'static {
    const NAME: &'static str;
    fn make(id: u64) -> Self;
    fn id(&self) -> u64;
    fn svt() -> &'static StreamVtable<Self>;
    fn fvt() -> &'static FutureVtable<Self>;
    fn default_value() -> Self;
}
impl Payload for u8 {
    const NAME: &'static str = "u8";
    fn make(id: u64) -> u8 {
        id as u8
    }
    fn id(&self) -> u64 {
        *self as u64
    }
    fn svt() -> &'static StreamVtable<u8> {
        &STREAM_U8
    }
    fn fvt() -> &'static FutureVtable<u8> {
        &FUTURE_U8
    }
    fn default_value() -> u8 {
        255
    }
}
impl Payload for Tracked {
    const NAME: &'static str = "tracked";
    fn make(id: u64) -> Tracked {
        Tracked { id: id as u32 }
    }
    fn id(&self) -> u64 {
        self.id as u64
    }
    fn svt() -> &'static StreamVtable<Tracked> {
        &STREAM_TRACKED
    }
    fn fvt() -> &'static FutureVtable<Tracked> {
        &FUTURE_TRACKED
    }
    fn default_value() -> Tracked {
        ev(json!({"ev": "user.default", "id": 255}));
        Tracked { id: 255 }
    }
}

fn ids<T: Payload>(v: &[T]) -> Vec<u64> {
    v.iter().map(|x| x.id()).collect()
}

fn sres(r: StreamResult) -> Value {
    match r {
        StreamResult::Complete(n) => json!({"res": "complete", "n": n}),
        StreamResult::Dropped => json!({"res": "dropped"}),
        StreamResult::Cancelled => json!({"res": "cancelled"}),
    }
}

// ---------------------------------------------------------------------------------------------
// operations kept in the slab

trait DynOp {
    /// `Some(result)` when the operation completed.
    fn poll(&mut self, cx: &mut Context<'_>) -> Option<Value>;
    /// `None` if this kind of operation has no cancel API (only drop).
    fn cancel(&mut self) -> Option<Value>;
}

struct SWriteOp<T: Payload> {
    fut: Pin<Box<rt::StreamWrite<'static, T>>>,
}
impl<T: Payload> DynOp for SWriteOp<T> {
    fn poll(&mut self, cx: &mut Context<'_>) -> Option<Value> {
        match self.fut.as_mut().poll(cx) {
            Poll::Ready((r, buf)) => {
                let mut v = sres(r);
                v["remaining"] = json!(buf.remaining());
                let back = buf.into_vec();
                v["back"] = json!(ids(&back));
                Some(v)
            }
            Poll::Pending => None,
        }
    }
    fn cancel(&mut self) -> Option<Value> {
        let (r, buf) = self.fut.as_mut().cancel();
        let mut v = sres(r);
        v["remaining"] = json!(buf.remaining());
        let back = buf.into_vec();
        v["back"] = json!(ids(&back));
        Some(v)
    }
}

struct SReadOp<T: Payload> {
    fut: Pin<Box<rt::StreamRead<'static, T>>>,
}
impl<T: Payload> DynOp for SReadOp<T> {
    fn poll(&mut self, cx: &mut Context<'_>) -> Option<Value> {
        match self.fut.as_mut().poll(cx) {
            Poll::Ready((r, buf)) => {
                let mut v = sres(r);
                v["items"] = json!(ids(&buf));
                Some(v)
            }
            Poll::Pending => None,
        }
    }
    fn cancel(&mut self) -> Option<Value> {
        let (r, buf) = self.fut.as_mut().cancel();
        let mut v = sres(r);
        v["items"] = json!(ids(&buf));
        Some(v)
    }
}

struct FWriteOp<T: Payload> {
    fut: Pin<Box<rt::FutureWrite<T>>>,
    back: *mut Option<FutureWriter<T>>,
}
impl<T: Payload> DynOp for FWriteOp<T> {
    fn poll(&mut self, cx: &mut Context<'_>) -> Option<Value> {
        match self.fut.as_mut().poll(cx) {
            Poll::Ready(Ok(())) => Some(json!({"res": "written"})),
            Poll::Ready(Err(e)) => Some(json!({"res": "reader-dropped", "value": e.value.id()})),
            Poll::Pending => None,
        }
    }
    fn cancel(&mut self) -> Option<Value> {
        Some(match self.fut.as_mut().cancel() {
            rt::FutureWriteCancel::AlreadySent => json!({"res": "already-sent"}),
            rt::FutureWriteCancel::Dropped(v) => json!({"res": "reader-dropped", "value": v.id()}),
            rt::FutureWriteCancel::Cancelled(v, w) => {
                unsafe { *self.back = Some(w) };
                json!({"res": "cancelled", "value": v.id()})
            }
        })
    }
}

struct FReadOp<T: Payload> {
    fut: Pin<Box<rt::FutureRead<T>>>,
    back: *mut Option<FutureReader<T>>,
}
impl<T: Payload> DynOp for FReadOp<T> {
    fn poll(&mut self, cx: &mut Context<'_>) -> Option<Value> {
        match self.fut.as_mut().poll(cx) {
            Poll::Ready(v) => Some(json!({"res": "value", "value": v.id()})),
            Poll::Pending => None,
        }
    }
    fn cancel(&mut self) -> Option<Value> {
        Some(match self.fut.as_mut().cancel() {
            Ok(v) => json!({"res": "value", "value": v.id()}),
            Err(r) => {
                unsafe { *self.back = Some(r) };
                json!({"res": "cancelled"})
            }
        })
    }
}

/// Any `async` helper of the runtime (write_all, next, collect, Subtask::call ...).
struct AsyncOp {
    fut: Pin<Box<dyn Future<Output = Value>>>,
}
impl DynOp for AsyncOp {
    fn poll(&mut self, cx: &mut Context<'_>) -> Option<Value> {
        match self.fut.as_mut().poll(cx) {
            Poll::Ready(v) => Some(v),
            Poll::Pending => None,
        }
    }
    fn cancel(&mut self) -> Option<Value> {
        None
    }
}

// ---------------------------------------------------------------------------------------------
// an instrumented async import

pub struct MySubtask {
    pub op: u64,
    pub flat: bool,
    pub heap: bool,
    pub result_val: u32,
}
unsafe impl Subtask for MySubtask {
    type Params = u32;
    type ParamsLower = usize;
    type Results = u32;
    fn abi_layout(&mut self) -> Layout {
        if self.flat { Layout::from_size_align(4, 4).unwrap() } else { Layout::from_size_align(16, 8).unwrap() }
    }
    fn results_offset(&mut self) -> usize {
        if self.flat { 0 } else { 8 }
    }
    unsafe fn call_import(&mut self, params: usize, results: *mut u8) -> u32 {
        ev(json!({"ev": "sub.call_import", "op": self.op, "flat": self.flat}));
        with(|h| h.async_call(results as usize, self.result_val))
    }
    unsafe fn params_lower(&mut self, params: u32, dst: *mut u8) -> usize {
        ev(json!({"ev": "sub.params_lower", "op": self.op, "p": params}));
        if self.flat {
            params as usize | 0x1_0000
        } else {
            *(dst as *mut u32) = params;
            dst as usize
        }
    }
    unsafe fn params_dealloc_lists(&mut self, lower: usize) {
        let _ = lower;
        ev(json!({"ev": "sub.params_dealloc_lists", "op": self.op}));
    }
    unsafe fn params_dealloc_lists_and_own(&mut self, lower: usize) {
        let _ = lower;
        ev(json!({"ev": "sub.params_dealloc_lists_and_own", "op": self.op}));
    }
    unsafe fn results_lift(&mut self, src: *mut u8) -> u32 {
        let v = *(src as *const u32);
        ev(json!({"ev": "sub.results_lift", "op": self.op, "v": v}));
        v
    }
}

// ---------------------------------------------------------------------------------------------
// the environment of one script

#[derive(Default)]
struct Typed<T: Payload> {
    sw: HashMap<u64, *mut StreamWriter<T>>,
    sr: HashMap<u64, *mut StreamReader<T>>,
    fw: HashMap<u64, *mut Option<FutureWriter<T>>>,
    fr: HashMap<u64, *mut Option<FutureReader<T>>>,
}

/// an operation on its way from one task to another
struct Handoff {
    op: Box<dyn DynOp>,
    bkey: Option<u64>,
    kind: &'static str,
    told_dropped: bool,
    /// the end the operation borrows (stream writer, stream reader, future writer slot, future reader slot), as addresses
    slots: [usize; 4],
    subtasks: Vec<*mut MySubtask>,
}
thread_local! { static HANDOFF: std::cell::RefCell<HashMap<u64, Handoff>> = std::cell::RefCell::new(HashMap::new()); }

/// forget operations nobody took (end of a run)
pub fn clear_handoff() {
    HANDOFF.with(|m| {
        for (_, h) in m.borrow_mut().drain() {
            std::mem::forget(h);
        }
    });
}

pub struct Env {
    pub task: usize,
    p8: Typed<u8>,
    pt: Typed<Tracked>,
    ops: HashMap<u64, Box<dyn DynOp>>,
    subtasks: Vec<*mut MySubtask>,
    kinds: HashMap<u64, &'static str>,
    /// something in the current round stayed pending / woke / parked: the poll returns Pending
    pub blocked: bool,
    /// op -> (stream/future key) it borrows: an end is never dropped under an operation
    borrows: HashMap<u64, u64>,
    /// ends for which the user program was told `Dropped`: it does not use them again
    told_dropped: std::collections::HashSet<u64>,
    /// operations that returned Pending in the current round and still exist
    pending_now: std::collections::HashSet<u64>,
}

fn uev(task: usize, mut v: Value) {
    v["task"] = json!(task);
    ev(v);
}

impl Env {
    pub fn new(task: usize) -> Env {
        Env { task, p8: Typed { sw: HashMap::new(), sr: HashMap::new(), fw: HashMap::new(), fr: HashMap::new() },
              pt: Typed { sw: HashMap::new(), sr: HashMap::new(), fw: HashMap::new(), fr: HashMap::new() },
              ops: HashMap::new(), subtasks: Vec::new(), kinds: HashMap::new(), blocked: false, borrows: HashMap::new(), told_dropped: Default::default(), pending_now: Default::default() }
    }

    fn do_typed<T: Payload>(task: usize, t: &mut Typed<T>, ops: &mut HashMap<u64, Box<dyn DynOp>>, a: &Value) {
        let act = a["a"].as_str().unwrap();
        let s = a["s"].as_u64().unwrap_or(0);
        match act {
            "snew" => {
                let (w, r) = unsafe { rt::stream_new::<T>(T::svt()) };
                let (wh, rh) = (w.handle(), r.handle());
                uev(task, json!({"ev": "user.snew", "s": s, "payload": T::NAME, "w": wh, "r": rh, "host": a["host"]}));
                match a["host"].as_str().unwrap_or("none") {
                    "reader" => {
                        let h = r.take_handle();
                        with(|hh| hh.give_to_host(h));
                        drop(r);
                        t.sw.insert(s, Box::into_raw(Box::new(w)));
                    }
                    "writer" => {
                        // the writer has no take_handle: the host adopts the handle and the Rust
                        // value is forgotten (as generated lowering code does with `into_handle`)
                        let h = w.handle();
                        with(|hh| hh.give_to_host(h));
                        std::mem::forget(w);
                        t.sr.insert(s, Box::into_raw(Box::new(r)));
                    }
                    _ => {
                        t.sw.insert(s, Box::into_raw(Box::new(w)));
                        t.sr.insert(s, Box::into_raw(Box::new(r)));
                    }
                }
            }
            "swrite" => {
                let w: &'static mut StreamWriter<T> = unsafe { &mut **t.sw.get(&s).expect("no such writer") };
                let items: Vec<T> = a["items"].as_array().unwrap().iter().map(|x| T::make(x.as_u64().unwrap())).collect();
                uev(task, json!({"ev": "user.swrite", "op": a["op"], "s": s, "items": a["items"]}));
                ops.insert(a["op"].as_u64().unwrap(), Box::new(SWriteOp { fut: Box::pin(w.write(items)) }));
            }
            "sread" => {
                let r: &'static mut StreamReader<T> = unsafe { &mut **t.sr.get(&s).expect("no such reader") };
                let cap = a["cap"].as_u64().unwrap() as usize;
                uev(task, json!({"ev": "user.sread", "op": a["op"], "s": s, "cap": cap}));
                ops.insert(a["op"].as_u64().unwrap(), Box::new(SReadOp { fut: Box::pin(r.read(Vec::with_capacity(cap))) }));
            }
            "swrite_all" => {
                let w: &'static mut StreamWriter<T> = unsafe { &mut **t.sw.get(&s).expect("no such writer") };
                let items: Vec<T> = a["items"].as_array().unwrap().iter().map(|x| T::make(x.as_u64().unwrap())).collect();
                uev(task, json!({"ev": "user.swrite_all", "op": a["op"], "s": s, "items": a["items"]}));
                ops.insert(a["op"].as_u64().unwrap(), Box::new(AsyncOp { fut: Box::pin(async move {
                    let back = w.write_all(items).await;
                    json!({"res": "write_all", "back": ids(&back)})
                }) }));
            }
            "swrite_one" => {
                let w: &'static mut StreamWriter<T> = unsafe { &mut **t.sw.get(&s).expect("no such writer") };
                let item = T::make(a["item"].as_u64().unwrap());
                uev(task, json!({"ev": "user.swrite_all", "op": a["op"], "s": s, "items": [a["item"]]}));
                ops.insert(a["op"].as_u64().unwrap(), Box::new(AsyncOp { fut: Box::pin(async move {
                    let back = w.write_one(item).await;
                    json!({"res": "write_all", "back": back.iter().map(|x| x.id()).collect::<Vec<_>>()})
                }) }));
            }
            "snext" => {
                let r: &'static mut StreamReader<T> = unsafe { &mut **t.sr.get(&s).expect("no such reader") };
                uev(task, json!({"ev": "user.snext", "op": a["op"], "s": s}));
                ops.insert(a["op"].as_u64().unwrap(), Box::new(AsyncOp { fut: Box::pin(async move {
                    let v = r.next().await;
                    json!({"res": "next", "items": v.iter().map(|x| x.id()).collect::<Vec<_>>()})
                }) }));
            }
            "scollect" => {
                let r: StreamReader<T> = unsafe { *Box::from_raw(t.sr.remove(&s).expect("no such reader")) };
                uev(task, json!({"ev": "user.scollect", "op": a["op"], "s": s}));
                ops.insert(a["op"].as_u64().unwrap(), Box::new(AsyncOp { fut: Box::pin(async move {
                    let v = r.collect().await;
                    json!({"res": "collect", "items": ids(&v)})
                }) }));
            }
            "dropw" => {
                uev(task, json!({"ev": "user.dropw", "s": s}));
                let w = t.sw.remove(&s).expect("no such writer");
                unsafe { drop(Box::from_raw(w)) };
            }
            "dropr" => {
                uev(task, json!({"ev": "user.dropr", "s": s}));
                let r = t.sr.remove(&s).expect("no such reader");
                unsafe { drop(Box::from_raw(r)) };
            }
            "fnew" => {
                let (w, r) = unsafe { rt::future_new::<T>(T::default_value, T::fvt()) };
                uev(task, json!({"ev": "user.fnew", "f": s, "payload": T::NAME, "host": a["host"]}));
                match a["host"].as_str().unwrap_or("none") {
                    "reader" => {
                        let h = r.take_handle();
                        with(|hh| hh.give_to_host(h));
                        drop(r);
                        t.fw.insert(s, Box::into_raw(Box::new(Some(w))));
                    }
                    _ => {
                        t.fw.insert(s, Box::into_raw(Box::new(Some(w))));
                        t.fr.insert(s, Box::into_raw(Box::new(Some(r))));
                    }
                }
            }
            "fwrite" => {
                let slot = *t.fw.get(&s).expect("no such future writer");
                let Some(w) = (unsafe { (*slot).take() }) else {
                    uev(task, json!({"ev": "user.noop", "what": "future writer gone", "op": a["op"]}));
                    return;
                };
                let v = T::make(a["v"].as_u64().unwrap());
                uev(task, json!({"ev": "user.fwrite", "op": a["op"], "f": s, "v": a["v"]}));
                ops.insert(a["op"].as_u64().unwrap(), Box::new(FWriteOp { fut: Box::pin(w.write(v)), back: slot }));
            }
            "fread" => {
                let slot = *t.fr.get(&s).expect("no such future reader");
                let Some(r) = (unsafe { (*slot).take() }) else {
                    uev(task, json!({"ev": "user.noop", "what": "future reader gone", "op": a["op"]}));
                    return;
                };
                uev(task, json!({"ev": "user.fread", "op": a["op"], "f": s}));
                ops.insert(a["op"].as_u64().unwrap(), Box::new(FReadOp { fut: Box::pin(r.into_future()), back: slot }));
            }
            "fdropw" => {
                uev(task, json!({"ev": "user.fdropw", "f": s}));
                let slot = *t.fw.get(&s).expect("no such future writer");
                unsafe { drop((*slot).take()) };
            }
            "fdropr" => {
                uev(task, json!({"ev": "user.fdropr", "f": s}));
                let slot = *t.fr.get(&s).expect("no such future reader");
                unsafe { drop((*slot).take()) };
            }
            other => panic!("unknown typed action {other}"),
        }
    }

    /// Executes one micro action.  Returns true when the script says the task body is done.
    pub fn act(&mut self, a: &Value, cx: &mut Context<'_>) -> bool {
        let act = a["a"].as_str().unwrap();
        match act {
            "snew" | "fnew" => {
                let kind = if a["payload"] == "tracked" { "tracked" } else { "u8" };
                let key = a["s"].as_u64().unwrap_or(0) + if act == "fnew" { 1000 } else { 0 };
                self.kinds.insert(key, kind);
                if kind == "tracked" {
                    Self::do_typed(self.task, &mut self.pt, &mut self.ops, a)
                } else {
                    Self::do_typed(self.task, &mut self.p8, &mut self.ops, a)
                }
            }
            "swrite" | "sread" | "swrite_all" | "swrite_one" | "snext" | "scollect" | "dropw" | "dropr" | "fwrite" | "fread" | "fdropw" | "fdropr" => {
                let key = a["s"].as_u64().unwrap_or(0) + if act.starts_with('f') { 1000 } else { 0 };
                // writer and reader are distinct borrows
                let bkey = key * 2 + if act.contains("write") || act.ends_with('w') { 1 } else { 0 };
                if act.starts_with("drop") || act.starts_with("fdrop") {
                    // Rust's borrow rules: operations on this end are gone before the end is dropped
                    let mut inflight: Vec<u64> = self.borrows.iter().filter(|(o, b)| **b == bkey && self.ops.contains_key(o)).map(|(o, _)| *o).collect();
                    inflight.sort();
                    for k in inflight {
                        uev(self.task, json!({"ev": "user.dropop", "op": k}));
                        self.ops.remove(&k);
                        uev(self.task, json!({"ev": "user.dropop.done", "op": k}));
                    }
                } else if let Some(op) = a["op"].as_u64() {
                    if self.told_dropped.contains(&bkey) {
                        uev(self.task, json!({"ev": "user.noop", "what": "end reported dropped", "op": op}));
                        return false;
                    }
                    // one operation at a time per end (it holds `&mut`)
                    if self.borrows.iter().any(|(o, b)| *b == bkey && self.ops.contains_key(o)) {
                        uev(self.task, json!({"ev": "user.noop", "what": "end busy", "op": op}));
                        return false;
                    }
                    self.borrows.insert(op, bkey);
                }
                if self.kinds.get(&key).copied().unwrap_or("u8") == "tracked" {
                    Self::do_typed(self.task, &mut self.pt, &mut self.ops, a)
                } else {
                    Self::do_typed(self.task, &mut self.p8, &mut self.ops, a)
                }
            }
            "call" => {
                let st: &'static mut MySubtask = Box::leak(Box::new(MySubtask {
                    op: a["op"].as_u64().unwrap(),
                    flat: a["flat"].as_bool().unwrap_or(true),
                    heap: a["heap"].as_bool().unwrap_or(false),
                    result_val: a["result"].as_u64().unwrap_or(77) as u32,
                }));
                self.subtasks.push(st as *mut MySubtask);
                let p = a["p"].as_u64().unwrap_or(5) as u32;
                uev(self.task, json!({"ev": "user.call", "op": a["op"], "flat": st.flat}));
                let fut = st.call(p);
                self.ops.insert(a["op"].as_u64().unwrap(), Box::new(AsyncOp { fut: Box::pin(async move {
                    let r = fut.await;
                    json!({"res": "returned", "v": r})
                }) }));
            }
            "poll" => {
                let k = a["op"].as_u64().unwrap();
                let Some(op) = self.ops.get_mut(&k) else {
                    uev(self.task, json!({"ev": "user.noop", "what": "poll", "op": k}));
                    return false;
                };
                let r = op.poll(cx);
                match r {
                    Some(v) => {
                        if v["res"] == "dropped" || (v["res"] == "next" && v["items"].as_array().map(|a| a.is_empty()).unwrap_or(false)) {
                            if let Some(b) = self.borrows.get(&k) {
                                self.told_dropped.insert(*b);
                            }
                        }
                        uev(self.task, json!({"ev": "user.result", "op": k, "r": v}));
                        self.ops.remove(&k);
                    }
                    None => {
                        self.pending_now.insert(k);
                        uev(self.task, json!({"ev": "user.pending", "op": k}))
                    }
                }
            }
            "cancel" => {
                let k = a["op"].as_u64().unwrap();
                let Some(op) = self.ops.get_mut(&k) else {
                    uev(self.task, json!({"ev": "user.noop", "what": "cancel", "op": k}));
                    return false;
                };
                match op.cancel() {
                    Some(r) => {
                        if r["res"] == "dropped" {
                            if let Some(b) = self.borrows.get(&k) {
                                self.told_dropped.insert(*b);
                            }
                        }
                        uev(self.task, json!({"ev": "user.cancelled", "op": k, "r": r}));
                        self.ops.remove(&k);
                    }
                    None => {
                        // no cancel API for this operation: dropping it is the only way
                        uev(self.task, json!({"ev": "user.dropop", "op": k}));
                        self.ops.remove(&k);
                        uev(self.task, json!({"ev": "user.dropop.done", "op": k}));
                    }
                }
            }
            "dropop" => {
                let k = a["op"].as_u64().unwrap();
                if !self.ops.contains_key(&k) {
                    uev(self.task, json!({"ev": "user.noop", "what": "dropop", "op": k}));
                    return false;
                }
                uev(self.task, json!({"ev": "user.dropop", "op": k}));
                self.ops.remove(&k);
                uev(self.task, json!({"ev": "user.dropop.done", "op": k}));
            }
            // an in-flight operation is handed to another task of the same component (together with the end it borrows):
            // the next poll happens there, so the operation has to move its registration (C18: "including when an
            // operation moves between tasks")
            "give" => {
                let k = a["op"].as_u64().unwrap();
                let Some(op) = self.ops.remove(&k) else {
                    uev(self.task, json!({"ev": "user.noop", "what": "give", "op": k}));
                    return false;
                };
                self.pending_now.remove(&k);
                let bkey = self.borrows.remove(&k);
                let mut h = Handoff { op, bkey, kind: "u8", told_dropped: false, slots: [0; 4], subtasks: std::mem::take(&mut self.subtasks) };
                if let Some(b) = bkey {
                    let key = b / 2;
                    let s = key % 1000;
                    h.kind = self.kinds.get(&key).copied().unwrap_or("u8");
                    h.told_dropped = self.told_dropped.remove(&b);
                    fn grab<T: Payload>(t: &mut Typed<T>, s: u64, fut: bool) -> [usize; 4] {
                        if fut {
                            [0, 0, t.fw.remove(&s).map(|p| p as usize).unwrap_or(0), t.fr.remove(&s).map(|p| p as usize).unwrap_or(0)]
                        } else {
                            [t.sw.remove(&s).map(|p| p as usize).unwrap_or(0), t.sr.remove(&s).map(|p| p as usize).unwrap_or(0), 0, 0]
                        }
                    }
                    h.slots = if h.kind == "tracked" { grab(&mut self.pt, s, key >= 1000) } else { grab(&mut self.p8, s, key >= 1000) };
                }
                uev(self.task, json!({"ev": "user.give", "op": k}));
                HANDOFF.with(|m| m.borrow_mut().insert(k, h));
            }
            "take" => {
                let k = a["op"].as_u64().unwrap();
                let Some(h) = HANDOFF.with(|m| m.borrow_mut().remove(&k)) else {
                    uev(self.task, json!({"ev": "user.noop", "what": "take", "op": k}));
                    return false;
                };
                if let Some(b) = h.bkey {
                    let key = b / 2;
                    let s = key % 1000;
                    self.kinds.insert(key, h.kind);
                    self.borrows.insert(k, b);
                    if h.told_dropped {
                        self.told_dropped.insert(b);
                    }
                    fn put<T: Payload>(t: &mut Typed<T>, s: u64, x: [usize; 4]) {
                        if x[0] != 0 { t.sw.insert(s, x[0] as *mut StreamWriter<T>); }
                        if x[1] != 0 { t.sr.insert(s, x[1] as *mut StreamReader<T>); }
                        if x[2] != 0 { t.fw.insert(s, x[2] as *mut Option<FutureWriter<T>>); }
                        if x[3] != 0 { t.fr.insert(s, x[3] as *mut Option<FutureReader<T>>); }
                    }
                    if h.kind == "tracked" { put(&mut self.pt, s, h.slots) } else { put(&mut self.p8, s, h.slots) }
                }
                self.subtasks.extend(h.subtasks);
                self.ops.insert(k, h.op);
                uev(self.task, json!({"ev": "user.take", "op": k}));
            }
            "wake" => {
                uev(self.task, json!({"ev": "user.wake"}));
                self.blocked = true;
                cx.waker().wake_by_ref();
            }
            "save_waker" => {
                crate::WAKERS.with(|w| w.borrow_mut().insert(self.task, cx.waker().clone()));
                uev(self.task, json!({"ev": "user.save_waker"}));
            }
            "wake_task" => {
                let t = a["t"].as_u64().unwrap() as usize;
                uev(self.task, json!({"ev": "user.wake_task", "t": t}));
                let w = crate::WAKERS.with(|w| w.borrow().get(&t).cloned());
                if let Some(w) = w {
                    w.wake();
                }
            }
            "park" => {
                uev(self.task, json!({"ev": "user.park"}));
                self.blocked = true;
            }
            "task_return" => crate::intrinsics::task_return(),
            "finish" => return true,
            other => panic!("unknown action {other}"),
        }
        false
    }
}

impl Drop for Env {
    fn drop(&mut self) {
        uev(self.task, json!({"ev": "user.envdrop"}));
        // in-flight operations first (they borrow the ends), then the ends
        let mut keys: Vec<u64> = self.ops.keys().copied().collect();
        keys.sort();
        for k in keys {
            uev(self.task, json!({"ev": "user.dropop", "op": k}));
            self.ops.remove(&k);
            uev(self.task, json!({"ev": "user.dropop.done", "op": k}));
        }
        fn drop_typed<T: Payload>(task: usize, t: &mut Typed<T>) {
            let mut k: Vec<u64> = t.sw.keys().copied().collect();
            k.sort();
            for s in k {
                uev(task, json!({"ev": "user.dropw", "s": s}));
                unsafe { drop(Box::from_raw(t.sw.remove(&s).unwrap())) };
            }
            let mut k: Vec<u64> = t.sr.keys().copied().collect();
            k.sort();
            for s in k {
                uev(task, json!({"ev": "user.dropr", "s": s}));
                unsafe { drop(Box::from_raw(t.sr.remove(&s).unwrap())) };
            }
            let mut k: Vec<u64> = t.fw.keys().copied().collect();
            k.sort();
            for s in k {
                let slot = t.fw.remove(&s).unwrap();
                unsafe {
                    if (*slot).is_some() {
                        uev(task, json!({"ev": "user.fdropw", "f": s}));
                    }
                    drop(Box::from_raw(slot));
                }
            }
            let mut k: Vec<u64> = t.fr.keys().copied().collect();
            k.sort();
            for s in k {
                let slot = t.fr.remove(&s).unwrap();
                unsafe {
                    if (*slot).is_some() {
                        uev(task, json!({"ev": "user.fdropr", "f": s}));
                    }
                    drop(Box::from_raw(slot));
                }
            }
        }
        drop_typed(self.task, &mut self.p8);
        drop_typed(self.task, &mut self.pt);
        for s in self.subtasks.drain(..) {
            unsafe { drop(Box::from_raw(s)) };
        }
        uev(self.task, json!({"ev": "user.envdrop.done"}));
    }
}

/// The task body: round `i` of the script is executed by the `i`-th poll.
pub struct ScriptFuture {
    pub env: Env,
    pub rounds: Vec<Vec<Value>>,
    pub next: usize,
    pub cancel_guard: Option<rt::TaskCancelOnDrop>,
}

impl Future for ScriptFuture {
    type Output = ();
    fn poll(self: Pin<&mut Self>, cx: &mut Context<'_>) -> Poll<()> {
        let me = unsafe { self.get_unchecked_mut() };
        let task = me.env.task;
        uev(task, json!({"ev": "user.poll", "round": me.next}));
        loop {
            if me.next >= me.rounds.len() {
                // script exhausted without `finish`: stay pending (the task only ends by cancellation)
                return Poll::Pending;
            }
            let round = me.rounds[me.next].clone();
            me.next += 1;
            me.env.blocked = false;
            me.env.pending_now.clear();
            for a in &round {
                if me.env.act(a, cx) {
                    uev(task, json!({"ev": "user.finish"}));
                    if let Some(g) = me.cancel_guard.take() {
                        g.forget();
                    }
                    return Poll::Ready(());
                }
            }
            // a round in which nothing stayed pending (and that did not wake or park) runs on
            // into the next round, like straight-line async code does
            let still_pending = me.env.pending_now.iter().any(|k| me.env.ops.contains_key(k));
            if me.env.blocked || still_pending {
                break;
            }
            uev(task, json!({"ev": "user.poll", "round": me.next}));
        }
        Poll::Pending
    }
}
