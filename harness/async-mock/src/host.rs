//! A mock Component Model host for the async built-ins the Rust guest runtime imports.
//!
//! It is a transliteration of specs/rt/CMHost.tla: handle table, waitable sets, stream and
//! future ends with copy states, subtasks, per-task context slot, trap rules.  It never decides
//! anything by itself: wherever the Component Model leaves a choice to the host (does a copy
//! complete immediately, how many items does the peer take, does a cancel race with a
//! completion, how far does a subtask get) the next *decision* is taken from a `Decider`
//! (a recorded schedule in replay mode, a seeded PRNG or a DFS cursor in record mode).
//! Every built-in call, host action and decision is logged as one trace event.
use serde_json::{json, Value};
use std::cell::RefCell;
use std::collections::BTreeMap;

pub const EVENT_NONE: u32 = 0;
pub const EVENT_SUBTASK: u32 = 1;
pub const EVENT_STREAM_READ: u32 = 2;
pub const EVENT_STREAM_WRITE: u32 = 3;
pub const EVENT_FUTURE_READ: u32 = 4;
pub const EVENT_FUTURE_WRITE: u32 = 5;
pub const EVENT_CANCEL: u32 = 6;

pub const BLOCKED: u32 = 0xffff_ffff;
pub const COMPLETED: u32 = 0;
pub const DROPPED: u32 = 1;
pub const CANCELLED: u32 = 2;

pub const ST_STARTING: u32 = 0;
pub const ST_STARTED: u32 = 1;
pub const ST_RETURNED: u32 = 2;
pub const ST_STARTED_CANCELLED: u32 = 3;
pub const ST_RETURNED_CANCELLED: u32 = 4;

#[derive(Clone, Copy, Debug, PartialEq)]
pub enum Copy_ {
    Idle,
    Copying,
    Done,
}

#[derive(Clone, Debug)]
pub struct End {
    pub chan: usize,
    pub write: bool,
    pub future: bool,
    pub state: Copy_,
    /// buffer of the in-progress copy
    pub ptr: usize,
    pub n: usize,
}

#[derive(Clone, Debug)]
pub struct Subtask {
    pub st: u32,
    pub resolve_delivered: bool,
    pub cancel_requested: bool,
    pub results: usize,
    /// what the callee will write to the results area when it returns
    pub result_val: u32,
}

#[derive(Clone, Debug)]
pub enum Entry {
    Free,
    Set,
    End(End),
    Subtask(Subtask),
}

#[derive(Clone, Debug, Default)]
pub struct Chan {
    pub future: bool,
    /// element size in bytes in the canonical ABI (1 for u8, 16 for tracked, 0 for unit)
    pub elem: usize,
    /// who holds each end: Some(handle) = the guest, None = the host peer
    pub r: Option<u32>,
    pub w: Option<u32>,
    pub r_dropped: bool,
    pub w_dropped: bool,
    /// items the host peer has taken out of guest writes, in order
    pub peer_got: Vec<u64>,
    /// next item the host peer will write into a guest read
    pub peer_next: u64,
    /// a future's value has been transferred
    pub resolved: bool,
}

#[derive(Clone, Debug, Default)]
pub struct Task {
    pub ctx: usize,
    pub returned: bool,
    pub cancelled: bool,
    pub cancel_delivered: bool,
    pub exited: bool,
}

pub trait Decider {
    /// `kind` names the decision point, `options` the legal alternatives (never empty).
    fn choose(&mut self, kind: &str, options: &[Value]) -> usize;
}

pub struct Host {
    pub table: Vec<Entry>,
    pub member_of: BTreeMap<u32, u32>,
    pub pending: BTreeMap<u32, (u32, u32)>, // waitable -> (event code, payload)
    pub chans: Vec<Chan>,
    pub tasks: Vec<Task>,
    pub cur: usize,
    pub wasip3_task: usize,
    pub trap: Option<String>,
    pub trace: Vec<Value>,
    pub decider: Box<dyn Decider>,
    pub ptr_ids: BTreeMap<u64, u64>,
    pub backpressure: i64,
}

thread_local! {
    pub static HOST: RefCell<Option<Host>> = RefCell::new(None);
}

pub fn with<R>(f: impl FnOnce(&mut Host) -> R) -> R {
    HOST.with(|h| {
        let mut b = h.borrow_mut();
        let host = b.as_mut().expect("host not installed");
        if host.trace.len() > MAX_EVENTS {
            // cannot unwind through the guest's extern "C" frames: dump what we have and stop
            host.trace.truncate(MAX_EVENTS);
            host.trace.push(json!({"ev": "LIVELOCK"}));
            crate::dump_and_exit(&host.trace);
        }
        f(host)
    })
}

pub fn ev(v: Value) {
    with(|h| h.trace.push(v));
}

/// Livelock guard: a run that logs this many events does not terminate.
pub const MAX_EVENTS: usize = 6000;

impl Host {
    pub fn new(decider: Box<dyn Decider>) -> Host {
        Host {
            table: vec![Entry::Free],
            member_of: BTreeMap::new(),
            pending: BTreeMap::new(),
            chans: Vec::new(),
            tasks: Vec::new(),
            cur: 0,
            wasip3_task: 0,
            trap: None,
            trace: Vec::new(),
            decider,
            ptr_ids: BTreeMap::new(),
            backpressure: 0,
        }
    }

    pub fn ptr_id(&mut self, p: u64) -> u64 {
        if p == 0 {
            return 0;
        }
        let n = self.ptr_ids.len() as u64 + 1;
        *self.ptr_ids.entry(p).or_insert(n)
    }

    pub fn trap(&mut self, msg: impl Into<String>) {
        let msg = msg.into();
        self.trace.push(json!({"ev": "TRAP", "msg": msg}));
        if self.trap.is_none() {
            self.trap = Some(msg);
        }
    }

    fn alloc(&mut self, e: Entry) -> u32 {
        // lowest free index first (index reuse is what makes stale registrations dangerous)
        for i in 1..self.table.len() {
            if matches!(self.table[i], Entry::Free) {
                self.table[i] = e;
                return i as u32;
            }
        }
        self.table.push(e);
        (self.table.len() - 1) as u32
    }

    fn decide(&mut self, kind: &str, options: Vec<Value>) -> Value {
        let i = if options.len() == 1 { 0 } else { self.decider.choose(kind, &options) };
        let d = options[i].clone();
        self.trace.push(json!({"ev": "decide", "at": kind, "d": d, "of": options.len()}));
        d
    }

    pub fn end(&self, h: u32) -> Option<&End> {
        match self.table.get(h as usize) {
            Some(Entry::End(e)) => Some(e),
            _ => None,
        }
    }
    fn end_mut(&mut self, h: u32) -> Option<&mut End> {
        match self.table.get_mut(h as usize) {
            Some(Entry::End(e)) => Some(e),
            _ => None,
        }
    }

    // ---------------------------------------------------------------- waitable sets
    pub fn set_new(&mut self) -> u32 {
        let s = self.alloc(Entry::Set);
        self.trace.push(json!({"ev": "set.new", "ret": s}));
        s
    }
    pub fn set_drop(&mut self, s: u32) {
        self.trace.push(json!({"ev": "set.drop", "s": s}));
        if !matches!(self.table.get(s as usize), Some(Entry::Set)) {
            return self.trap(format!("waitable-set.drop({s}): not a waitable set"));
        }
        if self.member_of.values().any(|m| *m == s) {
            return self.trap(format!("waitable-set.drop({s}): set still has members"));
        }
        self.table[s as usize] = Entry::Free;
    }
    pub fn join(&mut self, w: u32, s: u32) {
        self.trace.push(json!({"ev": "join", "w": w, "s": s}));
        if !matches!(self.table.get(w as usize), Some(Entry::End(_)) | Some(Entry::Subtask(_))) {
            return self.trap(format!("waitable.join({w}, {s}): not a waitable"));
        }
        if s == 0 {
            self.member_of.remove(&w);
        } else {
            if !matches!(self.table.get(s as usize), Some(Entry::Set)) {
                return self.trap(format!("waitable.join({w}, {s}): not a waitable set"));
            }
            self.member_of.insert(w, s);
        }
    }

    fn take_event_of_set(&mut self, s: u32) -> Option<(u32, u32, u32)> {
        let ready: Vec<u32> = self.pending.keys().copied().filter(|w| self.member_of.get(w) == Some(&s)).collect();
        if ready.is_empty() {
            return None;
        }
        let opts: Vec<Value> = ready.iter().map(|w| json!({"deliver": w})).collect();
        let d = self.decide("deliver", opts);
        let w = d["deliver"].as_u64().unwrap() as u32;
        Some(self.consume_event(w))
    }

    /// The pending event of `w` is handed to the guest: this is where a copy leaves the
    /// "copying" state and a subtask's resolution counts as delivered.
    pub fn consume_event(&mut self, w: u32) -> (u32, u32, u32) {
        let (code, payload) = self.pending.remove(&w).unwrap();
        match &mut self.table[w as usize] {
            Entry::End(e) => {
                let kind = payload & 0xf;
                e.state = if e.future {
                    if kind == CANCELLED { Copy_::Idle } else { Copy_::Done }
                } else if kind == DROPPED {
                    Copy_::Done
                } else {
                    Copy_::Idle
                };
            }
            Entry::Subtask(t) => {
                if matches!(payload, ST_RETURNED | ST_STARTED_CANCELLED | ST_RETURNED_CANCELLED) {
                    t.resolve_delivered = true;
                }
            }
            _ => {}
        }
        (code, w, payload)
    }

    pub fn set_poll(&mut self, s: u32) -> (u32, u32, u32) {
        if !matches!(self.table.get(s as usize), Some(Entry::Set)) {
            self.trap(format!("waitable-set.poll({s}): not a waitable set"));
            return (EVENT_NONE, 0, 0);
        }
        let r = self.take_event_of_set(s).unwrap_or((EVENT_NONE, 0, 0));
        self.trace.push(json!({"ev": "set.poll", "s": s, "ret": [r.0, r.1, r.2]}));
        r
    }

    /// `waitable-set.wait`: the host runs (taking host actions) until the set has an event.
    pub fn set_wait(&mut self, s: u32) -> (u32, u32, u32) {
        if !matches!(self.table.get(s as usize), Some(Entry::Set)) {
            self.trap(format!("waitable-set.wait({s}): not a waitable set"));
            return (EVENT_NONE, 0, 0);
        }
        let mut fuel = 64;
        loop {
            if let Some(r) = self.take_event_of_set(s) {
                self.trace.push(json!({"ev": "set.wait", "s": s, "ret": [r.0, r.1, r.2]}));
                // the host keeps running while the guest is not: further operations may complete before the guest
                // looks at the set again, so that several events are ready at once (the decider may also idle)
                let mut extra = 2;
                while extra > 0 && self.host_step(false) {
                    extra -= 1;
                }
                return r;
            }
            fuel -= 1;
            if fuel == 0 || !self.host_step(true) {
                self.trap(format!("waitable-set.wait({s}): no event can ever arrive (lost wakeup / deadlock)"));
                self.trace.push(json!({"ev": "set.wait", "s": s, "ret": [0, 0, 0]}));
                return (EVENT_NONE, 0, 0);
            }
        }
    }

    // ---------------------------------------------------------------- streams / futures
    pub fn chan_new(&mut self, future: bool, elem: usize) -> (u32, u32) {
        let c = self.chans.len();
        // values the host peer writes are distinct across channels (and fit a u8 payload)
        self.chans.push(Chan { future, elem, peer_next: 100 + 20 * (c as u64 % 7), ..Default::default() });
        let r = self.alloc(Entry::End(End { chan: c, write: false, future, state: Copy_::Idle, ptr: 0, n: 0 }));
        let w = self.alloc(Entry::End(End { chan: c, write: true, future, state: Copy_::Idle, ptr: 0, n: 0 }));
        self.chans[c].r = Some(r);
        self.chans[c].w = Some(w);
        self.trace.push(json!({"ev": if future {"future.new"} else {"stream.new"}, "chan": c, "r": r, "w": w, "unit": elem == 0}));
        (r, w)
    }

    /// The guest passes one of its ends to the host (as it would by lowering it in a call):
    /// the handle leaves the guest's table and the host becomes that end's peer.
    pub fn give_to_host(&mut self, h: u32) {
        self.trace.push(json!({"ev": "host.take_end", "h": h}));
        let Some(e) = self.end(h).cloned() else { return self.trap("transfer of a non-end") };
        if e.state == Copy_::Copying {
            return self.trap(format!("end {h} transferred while a copy is in progress"));
        }
        if self.member_of.contains_key(&h) {
            return self.trap(format!("end {h} transferred while it is a member of a waitable set"));
        }
        if e.write {
            self.chans[e.chan].w = None;
        } else {
            self.chans[e.chan].r = None;
        }
        self.table[h as usize] = Entry::Free;
    }

    fn pack(kind: u32, k: usize, future: bool) -> u32 {
        if future { kind } else { kind | ((k as u32) << 4) }
    }

    fn event_code(e: &End) -> u32 {
        match (e.future, e.write) {
            (false, false) => EVENT_STREAM_READ,
            (false, true) => EVENT_STREAM_WRITE,
            (true, false) => EVENT_FUTURE_READ,
            (true, true) => EVENT_FUTURE_WRITE,
        }
    }

    /// Moves `k` items between a guest buffer and the host peer (values are u64 ids read
    /// from / written to the first bytes of each element).
    unsafe fn peer_transfer(&mut self, e: &End, k: usize) -> Vec<u64> {
        let c = e.chan;
        let elem = self.chans[c].elem;
        let mut moved = Vec::new();
        for i in 0..k {
            if e.write {
                let v = if elem == 0 { 0 } else { read_id((e.ptr + i * elem) as *const u8, elem) };
                self.chans[c].peer_got.push(v);
                moved.push(v);
            } else {
                let v = self.chans[c].peer_next;
                self.chans[c].peer_next += 1;
                if elem != 0 {
                    write_id((e.ptr + i * elem) as *mut u8, elem, v);
                }
                if elem == 16 {
                    self.trace.push(json!({"ev": "led.hostlist", "id": v}));
                }
                moved.push(v);
            }
        }
        moved
    }

    /// `{stream,future}.{read,write}`
    pub unsafe fn copy(&mut self, h: u32, write: bool, future: bool, ptr: usize, n: usize) -> u32 {
        let name = format!("{}.{}", if future { "future" } else { "stream" }, if write { "write" } else { "read" });
        let Some(e) = self.end(h).cloned() else {
            self.trap(format!("{name}({h}): not a stream/future end"));
            return BLOCKED;
        };
        if e.write != write || e.future != future {
            self.trap(format!("{name}({h}): wrong kind of end"));
            return BLOCKED;
        }
        if e.state != Copy_::Idle {
            self.trap(format!("{name}({h}): end is {:?}, a copy needs an idle end", e.state));
            self.trace.push(json!({"ev": name, "h": h, "n": n, "ret": -1}));
            return BLOCKED;
        }
        let c = e.chan;
        let peer_dropped = if write { self.chans[c].r_dropped } else { self.chans[c].w_dropped };
        let peer_guest = if write { self.chans[c].r } else { self.chans[c].w };
        let mut me = e.clone();
        me.ptr = ptr;
        me.n = n;
        let ret;
        if peer_dropped {
            ret = Self::pack(DROPPED, 0, future);
            self.end_mut(h).unwrap().state = Copy_::Done;
        } else if let Some(ph) = peer_guest {
            // both ends in this component: rendezvous with a pending copy of the other end
            let pe = self.end(ph).cloned().unwrap();
            if pe.state == Copy_::Copying && !self.pending.contains_key(&ph) {
                let k = if future { 1 } else { n.min(pe.n) };
                let elem = self.chans[c].elem;
                let (src, dst) = if write { (ptr, pe.ptr) } else { (pe.ptr, ptr) };
                let (wh, rh) = if write { (h, ph) } else { (ph, h) };
                let mut witems = Vec::new();
                let mut ritems = Vec::new();
                for i in 0..k {
                    if elem == 0 {
                        continue;
                    }
                    let v = read_id((src + i * elem) as *const u8, elem);
                    witems.push(v);
                    // a copy inside the component is a lift + lower: the reader gets its own
                    // heap data (and, for the ledger, its own id)
                    let rv = if elem == 16 { v + 100 } else { v };
                    write_id((dst + i * elem) as *mut u8, elem, rv);
                    if elem == 16 {
                        self.trace.push(json!({"ev": "led.hostlist", "id": rv}));
                    }
                    ritems.push(rv);
                }
                if future {
                    self.chans[c].resolved = true;
                }
                let code = Self::event_code(&pe);
                self.pending.insert(ph, (code, Self::pack(COMPLETED, k, future)));
                self.trace.push(json!({"ev": "host.rendezvous", "chan": c, "k": k, "event_for": ph, "w": wh, "r": rh, "witems": witems, "ritems": ritems}));
                ret = Self::pack(COMPLETED, k, future);
                self.end_mut(h).unwrap().state = if future { Copy_::Done } else { Copy_::Idle };
            } else {
                *self.end_mut(h).unwrap() = End { state: Copy_::Copying, ..me };
                ret = BLOCKED;
            }
        } else {
            // host peer: it may take/provide items right away, have dropped, or not be ready
            let mut opts = vec![json!({"imm": "blocked"})];
            if future {
                if write || !self.chans[c].resolved {
                    opts.push(json!({"imm": "completed", "k": 1}));
                }
            } else {
                for k in amounts(n) {
                    opts.push(json!({"imm": "completed", "k": k}));
                }
            }
            opts.push(json!({"imm": "dropped", "k": 0}));
            let d = self.decide(&name, opts);
            match d["imm"].as_str().unwrap() {
                "blocked" => {
                    *self.end_mut(h).unwrap() = End { state: Copy_::Copying, ..me };
                    ret = BLOCKED;
                }
                "completed" => {
                    let k = d["k"].as_u64().unwrap() as usize;
                    let moved = self.peer_transfer(&me, k);
                    self.trace.push(json!({"ev": "host.transfer", "h": h, "k": k, "items": moved, "during": "call"}));
                    if future {
                        self.chans[c].resolved = true;
                    }
                    ret = Self::pack(COMPLETED, k, future);
                    self.end_mut(h).unwrap().state = if future { Copy_::Done } else { Copy_::Idle };
                }
                _ => {
                    if write {
                        self.chans[c].r_dropped = true;
                    } else {
                        self.chans[c].w_dropped = true;
                    }
                    self.trace.push(json!({"ev": "host.peerdrop", "chan": c, "end": if write {"r"} else {"w"}}));
                    ret = Self::pack(DROPPED, 0, future);
                    self.end_mut(h).unwrap().state = Copy_::Done;
                }
            }
        }
        self.trace.push(json!({"ev": name, "h": h, "n": n, "ret": if ret == BLOCKED { -1i64 } else { ret as i64 }}));
        ret
    }

    /// `{stream,future}.cancel-{read,write}` (synchronous)
    pub unsafe fn cancel_copy(&mut self, h: u32, write: bool, future: bool) -> u32 {
        let name = format!("{}.cancel-{}", if future { "future" } else { "stream" }, if write { "write" } else { "read" });
        let Some(e) = self.end(h).cloned() else {
            self.trap(format!("{name}({h}): not a stream/future end"));
            return 0;
        };
        if e.write != write || e.future != future {
            self.trap(format!("{name}({h}): wrong kind of end"));
            return 0;
        }
        if e.state != Copy_::Copying {
            self.trap(format!("{name}({h}): no copy in progress (end is {:?})", e.state));
            self.trace.push(json!({"ev": name, "h": h, "ret": 0}));
            return 0;
        }
        if self.member_of.contains_key(&h) {
            self.trap(format!("{name}({h}): synchronous cancel while the end is still a member of waitable set {}", self.member_of[&h]));
        }
        let ret = if self.pending.contains_key(&h) {
            // a completion is already queued: the cancel loses the race
            let (_, _, payload) = self.consume_event(h);
            payload
        } else {
            let c = e.chan;
            let host_peer = if write { self.chans[c].r.is_none() } else { self.chans[c].w.is_none() };
            // the peer may have made partial progress that the cancel now reports
            let mut opts = vec![json!({"cancel": "cancelled", "k": 0})];
            if host_peer && !future {
                for k in amounts(e.n) {
                    if k > 0 && k < e.n.max(2) {
                        opts.push(json!({"cancel": "cancelled", "k": k}));
                    }
                }
            }
            let d = self.decide(&name, opts);
            let k = d["k"].as_u64().unwrap() as usize;
            if k > 0 {
                let moved = self.peer_transfer(&e, k);
                self.trace.push(json!({"ev": "host.transfer", "h": h, "k": k, "items": moved, "during": "cancel"}));
            }
            self.end_mut(h).unwrap().state = Copy_::Idle;
            Self::pack(CANCELLED, k, future)
        };
        self.trace.push(json!({"ev": name, "h": h, "ret": ret}));
        ret
    }

    pub fn drop_end(&mut self, h: u32, write: bool, future: bool) {
        let name = format!("{}.drop-{}", if future { "future" } else { "stream" }, if write { "writable" } else { "readable" });
        self.trace.push(json!({"ev": name, "h": h}));
        let Some(e) = self.end(h).cloned() else {
            return self.trap(format!("{name}({h}): not a stream/future end"));
        };
        if e.write != write || e.future != future {
            return self.trap(format!("{name}({h}): wrong kind of end"));
        }
        if e.state == Copy_::Copying {
            return self.trap(format!("{name}({h}): a copy is still in progress"));
        }
        if future && write && e.state != Copy_::Done {
            return self.trap(format!("{name}({h}): writable future end dropped before a value was written or the reader was seen dropped"));
        }
        if self.member_of.contains_key(&h) {
            // the host would leave the set itself; the property forbids relying on that
            self.trace.push(json!({"ev": "NOTE", "msg": "dropped while joined", "h": h, "s": self.member_of[&h]}));
            self.member_of.remove(&h);
        }
        self.pending.remove(&h);
        let c = e.chan;
        if write {
            self.chans[c].w_dropped = true;
            self.chans[c].w = None;
        } else {
            self.chans[c].r_dropped = true;
            self.chans[c].r = None;
        }
        // a guest peer with a pending copy learns about the drop
        let peer = if write { self.chans[c].r } else { self.chans[c].w };
        if let Some(ph) = peer {
            let pe = self.end(ph).cloned().unwrap();
            if pe.state == Copy_::Copying && !self.pending.contains_key(&ph) {
                self.pending.insert(ph, (Self::event_code(&pe), Self::pack(DROPPED, 0, pe.future)));
            }
        }
        self.table[h as usize] = Entry::Free;
    }

    // ---------------------------------------------------------------- subtasks
    /// An `[async-lower]` import call.  Returns the packed status/handle.
    pub unsafe fn async_call(&mut self, results: usize, result_val: u32) -> u32 {
        let d = self.decide("call", vec![json!({"status": "starting"}), json!({"status": "started"}), json!({"status": "returned"})]);
        let st = match d["status"].as_str().unwrap() {
            "starting" => ST_STARTING,
            "started" => ST_STARTED,
            _ => ST_RETURNED,
        };
        let ret = if st == ST_RETURNED {
            if results != 0 {
                *(results as *mut u32) = result_val;
            }
            ST_RETURNED
        } else {
            let h = self.alloc(Entry::Subtask(Subtask { st, resolve_delivered: false, cancel_requested: false, results, result_val }));
            st | (h << 4)
        };
        self.trace.push(json!({"ev": "call", "ret_status": ret & 0xf, "h": ret >> 4}));
        ret
    }

    pub unsafe fn subtask_cancel(&mut self, h: u32) -> u32 {
        let Some(Entry::Subtask(t)) = self.table.get(h as usize).cloned() else {
            self.trap(format!("subtask.cancel({h}): not a subtask"));
            return 0;
        };
        if t.resolve_delivered {
            self.trap(format!("subtask.cancel({h}): the subtask's resolution was already delivered"));
        }
        if t.cancel_requested {
            self.trap(format!("subtask.cancel({h}): cancelled twice"));
        }
        if self.member_of.contains_key(&h) {
            self.trap(format!("subtask.cancel({h}): synchronous cancel while the subtask is a member of waitable set {}", self.member_of[&h]));
        }
        let ret = if let Some((_, payload)) = self.pending.get(&h).copied().filter(|(_, p)| *p >= ST_RETURNED) {
            let _ = payload;
            self.consume_event(h).2
        } else {
            self.pending.remove(&h);
            // synchronous cancel: the callee is asked to stop; it may still run to completion
            let opts = match t.st {
                ST_STARTING => vec![json!({"cancel": "before-start"}), json!({"cancel": "before-return"}), json!({"cancel": "returned"})],
                _ => vec![json!({"cancel": "before-return"}), json!({"cancel": "returned"})],
            };
            let d = self.decide("subtask.cancel", opts);
            let st = match d["cancel"].as_str().unwrap() {
                "before-start" => ST_STARTED_CANCELLED,
                "before-return" => ST_RETURNED_CANCELLED,
                _ => {
                    if t.results != 0 {
                        *(t.results as *mut u32) = t.result_val;
                    }
                    ST_RETURNED
                }
            };
            if let Entry::Subtask(t) = &mut self.table[h as usize] {
                t.st = st;
                t.cancel_requested = true;
                t.resolve_delivered = true;
            }
            st
        };
        self.trace.push(json!({"ev": "subtask.cancel", "h": h, "ret": ret}));
        ret
    }

    pub fn subtask_drop(&mut self, h: u32) {
        self.trace.push(json!({"ev": "subtask.drop", "h": h}));
        let Some(Entry::Subtask(t)) = self.table.get(h as usize).cloned() else {
            return self.trap(format!("subtask.drop({h}): not a subtask"));
        };
        if !t.resolve_delivered {
            return self.trap(format!("subtask.drop({h}): the subtask has not resolved (or its resolution was not delivered)"));
        }
        if self.member_of.contains_key(&h) {
            self.trace.push(json!({"ev": "NOTE", "msg": "dropped while joined", "h": h, "s": self.member_of[&h]}));
            self.member_of.remove(&h);
        }
        self.table[h as usize] = Entry::Free;
    }

    // ---------------------------------------------------------------- host's own moves

    /// All host actions that are currently possible (progress of pending copies with a host
    /// peer, peer drops, subtask progress).
    fn host_moves(&self) -> Vec<Value> {
        let mut m = Vec::new();
        for (h, e) in self.table.iter().enumerate() {
            let h = h as u32;
            match e {
                Entry::End(e) if e.state == Copy_::Copying && !self.pending.contains_key(&h) => {
                    let c = &self.chans[e.chan];
                    let host_peer = if e.write { c.r.is_none() && !c.r_dropped } else { c.w.is_none() && !c.w_dropped };
                    if host_peer {
                        if e.future {
                            if e.write || !c.resolved {
                                m.push(json!({"h": "transfer", "w": h, "k": 1}));
                            }
                        } else {
                            for k in amounts(e.n) {
                                if k > 0 || e.n == 0 {
                                    m.push(json!({"h": "transfer", "w": h, "k": k}));
                                }
                            }
                            // the peer copies k items and drops its end before the guest sees the event: the host
                            // delivers ONE event, DROPPED with a non-zero count (Component Model: the result code of a
                            // copy event is computed at delivery and carries the progress made so far)
                            for k in amounts(e.n) {
                                if k > 0 {
                                    m.push(json!({"h": "transferdrop", "w": h, "k": k}));
                                }
                            }
                        }
                        m.push(json!({"h": "peerdrop", "w": h}));
                    }
                }
                Entry::Subtask(t) if !self.pending.contains_key(&h) && !t.resolve_delivered => match t.st {
                    ST_STARTING => {
                        m.push(json!({"h": "subtask", "w": h, "to": "started"}));
                        m.push(json!({"h": "subtask", "w": h, "to": "returned"}));
                    }
                    ST_STARTED => m.push(json!({"h": "subtask", "w": h, "to": "returned"})),
                    _ => {}
                },
                _ => {}
            }
        }
        m
    }

    /// One host action chosen by the decider.  Returns false when nothing is possible.
    /// With `must` the decider cannot choose to idle.
    pub fn host_step(&mut self, must: bool) -> bool {
        let mut moves = self.host_moves();
        if moves.is_empty() {
            return false;
        }
        if !must {
            moves.insert(0, json!({"h": "idle"}));
        }
        let d = self.decide("host", moves);
        match d["h"].as_str().unwrap() {
            "idle" => return false,
            "transfer" => {
                let h = d["w"].as_u64().unwrap() as u32;
                let k = d["k"].as_u64().unwrap() as usize;
                let e = self.end(h).cloned().unwrap();
                let moved = unsafe { self.peer_transfer(&e, k) };
                if e.future {
                    self.chans[e.chan].resolved = true;
                }
                self.pending.insert(h, (Self::event_code(&e), Self::pack(COMPLETED, k, e.future)));
                self.trace.push(json!({"ev": "host.transfer", "h": h, "k": k, "items": moved}));
            }
            "transferdrop" => {
                let h = d["w"].as_u64().unwrap() as u32;
                let k = d["k"].as_u64().unwrap() as usize;
                let e = self.end(h).cloned().unwrap();
                let moved = unsafe { self.peer_transfer(&e, k) };
                if e.write {
                    self.chans[e.chan].r_dropped = true;
                } else {
                    self.chans[e.chan].w_dropped = true;
                }
                self.pending.insert(h, (Self::event_code(&e), Self::pack(DROPPED, k, e.future)));
                self.trace.push(json!({"ev": "host.transfer", "h": h, "k": k, "items": moved, "drop": true}));
            }
            "peerdrop" => {
                let h = d["w"].as_u64().unwrap() as u32;
                let e = self.end(h).cloned().unwrap();
                if e.write {
                    self.chans[e.chan].r_dropped = true;
                } else {
                    self.chans[e.chan].w_dropped = true;
                }
                self.pending.insert(h, (Self::event_code(&e), Self::pack(DROPPED, 0, e.future)));
                self.trace.push(json!({"ev": "host.peerdrop", "chan": e.chan, "end": if e.write {"r"} else {"w"}, "h": h}));
            }
            "subtask" => {
                let h = d["w"].as_u64().unwrap() as u32;
                let to = if d["to"] == "started" { ST_STARTED } else { ST_RETURNED };
                if let Entry::Subtask(t) = &mut self.table[h as usize] {
                    t.st = to;
                    if to == ST_RETURNED && t.results != 0 {
                        unsafe { *(t.results as *mut u32) = t.result_val };
                    }
                }
                self.pending.insert(h, (EVENT_SUBTASK, to));
                self.trace.push(json!({"ev": "host.subtask", "h": h, "to": to}));
            }
            _ => unreachable!(),
        }
        true
    }
}

/// representative transfer amounts for a buffer of n items
pub fn amounts(n: usize) -> Vec<usize> {
    let mut v = vec![];
    for k in [0usize, 1, 2, n] {
        if k <= n && !v.contains(&k) && (k > 0 || n == 0) {
            v.push(k);
        }
    }
    v
}

unsafe fn read_id(p: *const u8, elem: usize) -> u64 {
    if elem == 1 { *p as u64 } else { *(p as *const u32) as u64 }
}
unsafe fn write_id(p: *mut u8, elem: usize, v: u64) {
    if elem == 1 {
        *p = v as u8;
    } else {
        *(p as *mut u32) = v as u32;
        if elem == 16 {
            // tracked payload: the host provides a fresh "list" for the element
            *(p.add(8) as *mut u64) = crate::script::host_list(v);
        }
    }
}
