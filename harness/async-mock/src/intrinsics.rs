//! The canonical built-ins the guest runtime imports, defined as native C symbols under their
//! wasm import names and forwarded to the mock host.
use crate::host::*;
use serde_json::json;
use std::ffi::c_void;

#[unsafe(export_name = "[context-get-0]")]
pub extern "C" fn context_get() -> *mut u8 {
    with(|h| {
        let v = h.tasks[h.cur].ctx;
        v as *mut u8
    })
}

#[unsafe(export_name = "[context-set-0]")]
pub extern "C" fn context_set(v: *mut u8) {
    with(|h| {
        let cur = h.cur;
        h.tasks[cur].ctx = v as usize;
        let id = h.ptr_id(v as u64);
        h.trace.push(json!({"ev": "ctx.set", "task": cur, "v": id}));
    })
}

#[unsafe(no_mangle)]
pub extern "C" fn wasip3_task_set(ptr: *mut c_void) -> *mut c_void {
    with(|h| {
        let prev = h.wasip3_task;
        h.wasip3_task = ptr as usize;
        prev as *mut c_void
    })
}

#[unsafe(export_name = "[waitable-set-new]")]
pub extern "C" fn waitable_set_new() -> u32 {
    with(|h| h.set_new())
}
#[unsafe(export_name = "[waitable-set-drop]")]
pub extern "C" fn waitable_set_drop(s: u32) {
    with(|h| h.set_drop(s))
}
#[unsafe(export_name = "[waitable-join]")]
pub extern "C" fn waitable_join(w: u32, s: u32) {
    with(|h| h.join(w, s))
}
#[unsafe(export_name = "[waitable-set-wait]")]
pub extern "C" fn waitable_set_wait(s: u32, out: *mut [u32; 2]) -> u32 {
    let (e0, e1, e2) = with(|h| h.set_wait(s));
    unsafe { *out = [e1, e2] };
    e0
}
#[unsafe(export_name = "[waitable-set-poll]")]
pub extern "C" fn waitable_set_poll(s: u32, out: *mut [u32; 2]) -> u32 {
    let (e0, e1, e2) = with(|h| h.set_poll(s));
    unsafe { *out = [e1, e2] };
    e0
}
#[unsafe(export_name = "[subtask-cancel]")]
pub extern "C" fn subtask_cancel(hd: u32) -> u32 {
    with(|h| unsafe { h.subtask_cancel(hd) })
}
#[unsafe(export_name = "[subtask-drop]")]
pub extern "C" fn subtask_drop(hd: u32) {
    with(|h| h.subtask_drop(hd))
}
#[unsafe(export_name = "[thread-yield]")]
pub extern "C" fn thread_yield() -> bool {
    with(|h| h.trace.push(json!({"ev": "thread.yield"})));
    false
}
#[unsafe(export_name = "[backpressure-inc]")]
pub extern "C" fn backpressure_inc() {
    with(|h| {
        h.backpressure += 1;
        h.trace.push(json!({"ev": "backpressure.inc"}));
    })
}
#[unsafe(export_name = "[backpressure-dec]")]
pub extern "C" fn backpressure_dec() {
    with(|h| {
        h.backpressure -= 1;
        if h.backpressure < 0 {
            h.trap("backpressure.dec below zero");
        }
        h.trace.push(json!({"ev": "backpressure.dec"}));
    })
}
#[unsafe(export_name = "[task-cancel]")]
pub extern "C" fn task_cancel() {
    with(|h| {
        let cur = h.cur;
        h.trace.push(json!({"ev": "task.cancel", "task": cur}));
        if !h.tasks[cur].cancel_delivered {
            h.trap("task.cancel without a delivered cancellation request");
        }
        if h.tasks[cur].returned || h.tasks[cur].cancelled {
            h.trap("task.cancel after the task already returned or cancelled");
        }
        h.tasks[cur].cancelled = true;
    })
}

/// `task.return` of the harness's export (called by the script like generated code does).
pub fn task_return() {
    with(|h| {
        let cur = h.cur;
        h.trace.push(json!({"ev": "task.return", "task": cur}));
        if h.tasks[cur].returned || h.tasks[cur].cancelled {
            h.trap("task.return twice / after cancel");
        }
        h.tasks[cur].returned = true;
    })
}

// --- unit stream (inter-task wakeups) -------------------------------------------------------
#[unsafe(export_name = "[stream-new-unit]")]
pub extern "C" fn unit_new() -> u64 {
    let (r, w) = with(|h| h.chan_new(false, 0));
    (r as u64) | ((w as u64) << 32)
}
#[unsafe(export_name = "[async-lower][stream-write-unit]")]
pub extern "C" fn unit_write(s: u32, p: *const u8, n: usize) -> u32 {
    with(|h| unsafe { h.copy(s, true, false, p as usize, n) })
}
#[unsafe(export_name = "[async-lower][stream-read-unit]")]
pub extern "C" fn unit_read(s: u32, p: *mut u8, n: usize) -> u32 {
    with(|h| unsafe { h.copy(s, false, false, p as usize, n) })
}
#[unsafe(export_name = "[stream-cancel-read-unit]")]
pub extern "C" fn unit_cancel_read(s: u32) -> u32 {
    with(|h| unsafe { h.cancel_copy(s, false, false) })
}
#[unsafe(export_name = "[stream-cancel-write-unit]")]
pub extern "C" fn unit_cancel_write(s: u32) -> u32 {
    with(|h| unsafe { h.cancel_copy(s, true, false) })
}
#[unsafe(export_name = "[stream-drop-readable-unit]")]
pub extern "C" fn unit_drop_readable(s: u32) {
    with(|h| h.drop_end(s, false, false))
}
#[unsafe(export_name = "[stream-drop-writable-unit]")]
pub extern "C" fn unit_drop_writable(s: u32) {
    with(|h| h.drop_end(s, true, false))
}

// --- error-context ---------------------------------------------------------------------------
#[unsafe(export_name = "[error-context-new-utf8]")]
pub extern "C" fn errctx_new(_p: *const u8, _n: usize) -> u32 {
    with(|h| h.trace.push(json!({"ev": "error-context.new"})));
    1
}
#[unsafe(export_name = "[error-context-drop]")]
pub extern "C" fn errctx_drop(hd: u32) {
    with(|h| h.trace.push(json!({"ev": "error-context.drop", "h": hd})));
}
#[unsafe(export_name = "[error-context-debug-message-utf8]")]
pub extern "C" fn errctx_msg(_hd: u32, _out: *mut u8) {}

// --- stream / future vtable entries for the harness's payload types --------------------------
macro_rules! chan_fns {
    ($modname:ident, $future:expr, $elem:expr) => {
        pub mod $modname {
            use crate::host::*;
            pub extern "C" fn new() -> u64 {
                let (r, w) = with(|h| h.chan_new($future, $elem));
                (r as u64) | ((w as u64) << 32)
            }
            pub extern "C" fn swrite(s: u32, p: *const u8, n: usize) -> u32 {
                with(|h| unsafe { h.copy(s, true, $future, p as usize, n) })
            }
            pub extern "C" fn sread(s: u32, p: *mut u8, n: usize) -> u32 {
                with(|h| unsafe { h.copy(s, false, $future, p as usize, n) })
            }
            pub extern "C" fn fwrite(s: u32, p: *const u8) -> u32 {
                with(|h| unsafe { h.copy(s, true, $future, p as usize, 1) })
            }
            pub extern "C" fn fread(s: u32, p: *mut u8) -> u32 {
                with(|h| unsafe { h.copy(s, false, $future, p as usize, 1) })
            }
            pub extern "C" fn cancel_read(s: u32) -> u32 {
                with(|h| unsafe { h.cancel_copy(s, false, $future) })
            }
            pub extern "C" fn cancel_write(s: u32) -> u32 {
                with(|h| unsafe { h.cancel_copy(s, true, $future) })
            }
            pub extern "C" fn drop_readable(s: u32) {
                with(|h| h.drop_end(s, false, $future))
            }
            pub extern "C" fn drop_writable(s: u32) {
                with(|h| h.drop_end(s, true, $future))
            }
        }
    };
}
chan_fns!(stream_u8, false, 1);
chan_fns!(stream_tracked, false, 16);
chan_fns!(future_u8, true, 1);
chan_fns!(future_tracked, true, 16);
