//! async-mock: runs the real Rust async guest runtime natively against the mock component-model
//! host (host.rs) under scripted user programs (script.rs) and host schedules, and records one
//! trace per run for specs/rt/Trace_Async.tla.
//!
//!   async-mock run <scenarios.ndjson> <traces.ndjson> [--mode dfs|random|replay] [--max N] [--seed S]
mod host;
mod intrinsics;
mod script;

use host::*;
use serde_json::{json, Value};
use std::cell::RefCell;
use std::collections::HashMap;
use std::task::Waker;
use vcommon::*;
use wit_bindgen::rt::async_support as rt;

thread_local! {
    /// where the traces go (needed by the livelock guard)
    pub static SINK: RefCell<Option<NdjsonWriter>> = RefCell::new(None);
    pub static WAKERS: RefCell<HashMap<usize, Waker>> = RefCell::new(HashMap::new());
}

pub fn dump_and_exit(trace: &[Value]) -> ! {
    SINK.with(|s| {
        if let Some(w) = s.borrow_mut().as_mut() {
            for e in trace {
                let _ = w.write(e);
            }
            let _ = w.write(&json!({"ev": "end", "live": [], "trap": "livelock"}));
            let _ = w.write(&json!({"ev": "summary", "runs": 0, "scenarios": 0, "truncated": 0, "aborted": "livelock"}));
            let _ = w.flush();
        }
    });
    std::process::exit(3)
}

// ---------------------------------------------------------------------------------------------
// deciders

struct Replay {
    choices: Vec<usize>,
    pos: usize,
}
impl Decider for Replay {
    fn choose(&mut self, _kind: &str, options: &[Value]) -> usize {
        let c = self.choices.get(self.pos).copied().unwrap_or(0);
        self.pos += 1;
        c.min(options.len() - 1)
    }
}

struct Random(Rng);
impl Decider for Random {
    fn choose(&mut self, _kind: &str, options: &[Value]) -> usize {
        self.0.below(options.len())
    }
}

/// Depth-first enumeration of the decision tree: follows `prefix`, then always takes option 0,
/// recording the arity of every decision so that the caller can compute the next prefix.
struct Dfs {
    prefix: Vec<usize>,
    path: std::rc::Rc<RefCell<Vec<(usize, usize)>>>,
}
impl Decider for Dfs {
    fn choose(&mut self, _kind: &str, options: &[Value]) -> usize {
        let mut p = self.path.borrow_mut();
        let i = p.len();
        let c = self.prefix.get(i).copied().unwrap_or(0).min(options.len() - 1);
        p.push((c, options.len()));
        c
    }
}

// ---------------------------------------------------------------------------------------------
// tracer hook

fn tracer(event: &'static str, a: u64, b: u64, c: u64) {
    with(|h| {
        let v = match event {
            "rt.register" => {
                let (p, t) = (h.ptr_id(b), h.ptr_id(c));
                json!({"ev": event, "w": a, "ptr": p, "rtask": t})
            }
            "rt.unregister" => {
                let t = h.ptr_id(c);
                json!({"ev": event, "w": a, "rtask": t})
            }
            "rt.deliver" => {
                let t = h.ptr_id(c);
                json!({"ev": event, "w": a, "code": b, "rtask": t})
            }
            "rt.sleep" | "rt.wake" => {
                let t = h.ptr_id(b);
                json!({"ev": event, "state": a, "rtask": t})
            }
            "rt.answer" => {
                let t = h.ptr_id(c);
                json!({"ev": event, "code": a, "x": b, "rtask": t})
            }
            "rt.taskdrop" => {
                let t = h.ptr_id(a);
                json!({"ev": event, "rtask": t})
            }
            "rt.opdrop" => {
                let p = h.ptr_id(a);
                json!({"ev": event, "ptr": p, "done": b != 0})
            }
            "rt.cabiwake" => {
                let p = h.ptr_id(a);
                json!({"ev": event, "ptr": p, "code": b})
            }
            _ => json!({"ev": event, "a": a, "b": b, "c": c}),
        };
        h.trace.push(v);
    })
}

// ---------------------------------------------------------------------------------------------
// running one scenario under one decider

fn rounds_of(t: &Value) -> Vec<Vec<Value>> {
    t["rounds"].as_array().unwrap().iter().map(|r| r.as_array().unwrap().clone()).collect()
}

/// Returns the trace of the run.
fn run_scenario(sc: &Value, decider: Box<dyn Decider>) -> Vec<Value> {
    HOST.with(|h| *h.borrow_mut() = Some(Host::new(decider)));
    WAKERS.with(|w| w.borrow_mut().clear());
    script::clear_handoff();
    rt::verif::TRACER.store(tracer as usize, std::sync::atomic::Ordering::Relaxed);
    ev(json!({"ev": "reset", "scenario": sc["id"], "driver": sc["driver"]}));
    let driver = sc["driver"].as_str().unwrap_or("export");
    let tasks = sc["tasks"].as_array().unwrap();
    let r = std::panic::catch_unwind(std::panic::AssertUnwindSafe(|| {
        if driver == "block_on" {
            run_block_on(&tasks[0]);
        } else {
            run_export(tasks, sc["allow_cancel"].as_bool().unwrap_or(false));
        }
    }));
    if let Err(e) = r {
        let msg = e.downcast_ref::<String>().cloned().or_else(|| e.downcast_ref::<&str>().map(|s| s.to_string())).unwrap_or_default();
        ev(json!({"ev": "PANIC", "msg": msg.trim().chars().take(300).collect::<String>()}));
    }
    // the user program is over: wakers it kept are dropped (they may own the wakeup stream)
    let wakers: Vec<Waker> = WAKERS.with(|w| w.borrow_mut().drain().map(|(_, v)| v).collect());
    if !wakers.is_empty() {
        ev(json!({"ev": "user.drop_wakers"}));
        drop(wakers);
    }
    // what is left in the handle table
    with(|h| {
        let live: Vec<Value> = h
            .table
            .iter()
            .enumerate()
            .filter_map(|(i, e)| match e {
                Entry::Free => None,
                Entry::Set => Some(json!({"h": i, "kind": "set"})),
                Entry::End(e) => Some(json!({"h": i, "kind": if e.write {"w"} else {"r"}, "future": e.future})),
                Entry::Subtask(_) => Some(json!({"h": i, "kind": "subtask"})),
            })
            .collect();
        let trapped = h.trap.clone().unwrap_or_default();
        h.trace.push(json!({"ev": "end", "live": live, "trap": trapped}));
    });
    rt::verif::TRACER.store(0, std::sync::atomic::Ordering::Relaxed);
    HOST.with(|h| h.borrow_mut().take().unwrap().trace)
}

fn run_block_on(task: &Value) {
    with(|h| h.tasks.push(Task::default()));
    let fut = script::ScriptFuture { env: script::Env::new(0), rounds: rounds_of(task), next: 0, cancel_guard: None };
    ev(json!({"ev": "block_on.enter"}));
    rt::block_on(fut);
    ev(json!({"ev": "block_on.exit"}));
}

fn decode(code: u32) -> (u32, u32) {
    (code & 0xf, code >> 4)
}

fn run_export(tasks: &[Value], allow_cancel: bool) {
    let n = tasks.len();
    let mut last: Vec<Option<(u32, u32)>> = vec![None; n];
    for (t, spec) in tasks.iter().enumerate() {
        with(|h| {
            h.tasks.push(Task::default());
            h.cur = t;
        });
        let fut = script::ScriptFuture {
            env: script::Env::new(t),
            rounds: rounds_of(spec),
            next: 0,
            cancel_guard: Some(rt::TaskCancelOnDrop::new()),
        };
        ev(json!({"ev": "cb.enter", "task": t, "e": [0, 0, 0], "start": true}));
        let code = rt::start_task(fut) as u32;
        let (c, s) = decode(code);
        ev(json!({"ev": "cb.exit", "task": t, "code": c, "set": s}));
        last[t] = Some((c, s));
        finish_if_exit(t, c);
        if with(|h| h.trap.is_some()) {
            return;
        }
    }
    let mut fuel = 200;
    loop {
        fuel -= 1;
        if fuel == 0 {
            with(|h| h.trap("scenario did not terminate within the step budget"));
            return;
        }
        if with(|h| h.trap.is_some()) {
            return;
        }
        let alive: Vec<usize> = (0..n).filter(|t| !with(|h| h.tasks[*t].exited)).collect();
        if alive.is_empty() {
            return;
        }
        // the host's own turn: zero or more host actions (decider may idle)
        for _ in 0..3 {
            if !with(|h| h.host_step(false)) {
                break;
            }
        }
        // who can be re-entered?
        let mut options = Vec::new();
        for &t in &alive {
            let (c, s) = last[t].unwrap();
            let ready = match c {
                1 => true, // yielded
                2 => with(|h| h.pending.keys().any(|w| h.member_of.get(w) == Some(&s))),
                _ => false,
            };
            if ready {
                options.push(json!({"enter": t, "event": "normal"}));
            }
            let cancellable = allow_cancel && with(|h| !h.tasks[t].cancel_delivered && !h.tasks[t].returned);
            if cancellable {
                options.push(json!({"enter": t, "event": "cancel"}));
            }
        }
        if options.is_empty() {
            // nobody is runnable: the host must make progress on something
            if !with(|h| h.host_step(true)) {
                // every task waits, nothing is pending and the host cannot act: the *user program*
                // deadlocked (a lost wakeup shows up earlier, as a missing wakeup write)
                ev(json!({"ev": "DEADLOCK"}));
                return;
            }
            continue;
        }
        let d = with(|h| {
            let i = if options.len() == 1 { 0 } else { h.decider.choose("enter", &options) };
            let d = options[i].clone();
            h.trace.push(json!({"ev": "decide", "at": "enter", "d": d, "of": options.len()}));
            d
        });
        let t = d["enter"].as_u64().unwrap() as usize;
        let (c, s) = last[t].unwrap();
        let (e0, e1, e2) = if d["event"] == "cancel" {
            with(|h| h.tasks[t].cancel_delivered = true);
            (EVENT_CANCEL, 0, 0)
        } else if c == 1 {
            (EVENT_NONE, 0, 0)
        } else {
            with(|h| {
                let ready: Vec<u32> = h.pending.keys().copied().filter(|w| h.member_of.get(w) == Some(&s)).collect();
                let opts: Vec<Value> = ready.iter().map(|w| json!({"deliver": w})).collect();
                let i = if opts.len() == 1 { 0 } else { h.decider.choose("deliver", &opts) };
                h.trace.push(json!({"ev": "decide", "at": "deliver", "d": opts[i], "of": opts.len()}));
                let w = ready[i];
                let (code, payload) = h.pending[&w];
                let _ = code;
                // consume through the same path as poll/wait
                let r = {
                    let (code, _) = h.pending[&w];
                    let _ = code;
                    h_consume(h, w)
                };
                let _ = payload;
                r
            })
        };
        with(|h| h.cur = t);
        ev(json!({"ev": "cb.enter", "task": t, "e": [e0, e1, e2]}));
        let code = unsafe { rt::callback(e0, e1, e2) };
        let (c2, s2) = decode(code);
        ev(json!({"ev": "cb.exit", "task": t, "code": c2, "set": s2}));
        last[t] = Some((c2, s2));
        finish_if_exit(t, c2);
    }
}

fn h_consume(h: &mut Host, w: u32) -> (u32, u32, u32) {
    h.consume_event(w)
}

fn finish_if_exit(t: usize, code: u32) {
    if code != 0 {
        return;
    }
    with(|h| {
        h.tasks[t].exited = true;
        if h.tasks[t].ctx != 0 {
            h.trap("task exited with a non-null context slot (task state not released?)");
        }
        if !h.tasks[t].returned && !h.tasks[t].cancelled {
            h.trap("task exited without task.return or task.cancel");
        }
        h.trace.push(json!({"ev": "task.exit", "task": t}));
    });
}

// ---------------------------------------------------------------------------------------------

fn main() -> anyhow::Result<()> {
    let a: Vec<String> = std::env::args().collect();
    if a.len() < 4 || a[1] != "run" {
        anyhow::bail!("usage: async-mock run <scenarios.ndjson> <traces.ndjson> [--mode dfs|random|replay] [--max N] [--seed S]");
    }
    let mut mode = "dfs".to_string();
    let mut max = 200usize;
    let mut seed = 1u64;
    let mut i = 4;
    while i < a.len() {
        match a[i].as_str() {
            "--mode" => mode = a[i + 1].clone(),
            "--max" => max = a[i + 1].parse()?,
            "--seed" => seed = a[i + 1].parse()?,
            _ => anyhow::bail!("unknown option {}", a[i]),
        }
        i += 2;
    }
    std::panic::set_hook(Box::new(|_| {}));
    let scenarios = read_ndjson(&a[2])?;
    SINK.with(|s| -> anyhow::Result<()> {
        *s.borrow_mut() = Some(NdjsonWriter::create(&a[3])?);
        Ok(())
    })?;
    struct W;
    impl W {
        fn write(&mut self, v: &Value) -> anyhow::Result<()> {
            SINK.with(|s| s.borrow_mut().as_mut().unwrap().write(v))
        }
        fn flush(&mut self) -> anyhow::Result<()> {
            SINK.with(|s| s.borrow_mut().as_mut().unwrap().flush())
        }
        fn finish(self) -> anyhow::Result<()> {
            SINK.with(|s| s.borrow_mut().take().unwrap().finish())
        }
    }
    let mut w = W;
    let mut runs = 0usize;
    let mut truncated = 0usize;
    for sc in &scenarios {
        match mode.as_str() {
            "replay" => {
                let choices: Vec<usize> = sc["decisions"].as_array().map(|d| d.iter().map(|x| x.as_u64().unwrap() as usize).collect()).unwrap_or_default();
                for e in run_scenario(sc, Box::new(Replay { choices, pos: 0 })) {
                    w.write(&e)?;
                }
                runs += 1;
            }
            "random" => {
                for k in 0..max {
                    let s = seed.wrapping_mul(1_000_003).wrapping_add(k as u64).wrapping_add(sc["id"].as_u64().unwrap_or(0) << 20);
                    for e in run_scenario(sc, Box::new(Random(Rng::new(s)))) {
                        w.write(&e)?;
                    }
                    runs += 1;
                }
            }
            _ => {
                let mut prefix: Vec<usize> = Vec::new();
                let mut n = 0;
                loop {
                    let path = std::rc::Rc::new(RefCell::new(Vec::new()));
                    let tr = run_scenario(sc, Box::new(Dfs { prefix: prefix.clone(), path: path.clone() }));
                    for e in tr {
                        w.write(&e)?;
                    }
                    runs += 1;
                    n += 1;
                    // next prefix: increment the deepest decision that still has alternatives
                    let mut p: Vec<(usize, usize)> = path.borrow().clone();
                    while let Some((c, k)) = p.pop() {
                        if c + 1 < k {
                            p.push((c + 1, k));
                            break;
                        }
                    }
                    if p.is_empty() {
                        break;
                    }
                    if n >= max {
                        truncated += 1;
                        break;
                    }
                    prefix = p.iter().map(|(c, _)| *c).collect();
                }
            }
        }
        w.flush()?;
    }
    w.write(&json!({"ev": "summary", "runs": runs, "scenarios": scenarios.len(), "truncated": truncated}))?;
    w.finish()
}
