//! The asynchronous half of the host (C08): just enough of the component model's async ABI to run ONE export task of
//! natively compiled generated Rust bindings -- waitable sets, subtasks of `[async-lower]` imports, `[task-return]`,
//! `[task-cancel]`, the context slot -- with every choice the component model leaves to the host taken from a schedule
//! that TLC enumerated (specs/rt/AsyncCall.tla):
//!   per async import call, in order:  "R"  returns at once (RETURNED, no handle)
//!                                     "S"  STARTED at the call, RETURNED by a later event
//!                                     "G"  STARTING at the call, STARTED by a later event, RETURNED by another
//!                                     "H"  STARTING at the call, RETURNED directly by a later event
//!   cancel: the number of the wait (1-based) at which the host delivers a cancellation request instead of an event, 0 = never
//! Values are judged exactly as for synchronous calls (`compare_flat` / `compare_mem` against the spec's encoding); the
//! parameters of a call that is still STARTING are read only when the host starts the callee, which is what makes
//! "lowered parameters stay alive until the callee has started" observable.  Everything that happens is logged as one
//! event per line for specs/rt/Trace_AsyncCall.tla.
use super::*;
use serde_json::json;

pub const EVENT_NONE: u32 = 0;
pub const EVENT_SUBTASK: u32 = 1;
pub const EVENT_CANCEL: u32 = 6;
const STARTING: u32 = 0;
const STARTED: u32 = 1;
const RETURNED: u32 = 2;
const START_CANCELLED: u32 = 3;
const RETURN_CANCELLED: u32 = 4;

struct Sub {
    key: String,
    args: Vec<u64>,
    mode: char,
    state: u32,
    set: u32,
    dropped: bool,
    checked: bool,
}

#[derive(Default)]
struct AHost {
    ctx: usize,
    wasip3: usize,
    subs: Vec<Sub>,          // handle = index + 1
    sets: Vec<Option<Vec<u32>>>, // set id = index + 1; None = dropped
    schedule: Vec<char>,
    next_call: usize,
    cancel_at: usize,
    waits: usize,
    cancel_sent: bool,
    returned: u32,
    cancelled: u32,
    backpressure: i64,
}

thread_local! { static AH: RefCell<AHost> = RefCell::new(AHost::default()); }

fn ah<R>(f: impl FnOnce(&mut AHost) -> R) -> R {
    let was = GUEST.swap(false, std::sync::atomic::Ordering::Relaxed);
    let r = AH.with(|h| f(&mut h.borrow_mut()));
    GUEST.store(was, std::sync::atomic::Ordering::Relaxed);
    r
}

/// log one event; the record is built as host bookkeeping whatever the current mode is
fn ev(f: impl FnOnce() -> Value) {
    host(|| log_event(f()));
}

fn strip(key: &str) -> String {
    key.replace("[async-lower]", "")
}

/// compare the lowered parameters of an async import call (flat up to `asyncMaxFlat`, else one pointer to the record)
fn check_params(key: &str, spec: &Value, args: &[u64], at: &str) -> usize {
    let mut errs = Vec::new();
    let indirect = spec["asyncIndirect"].as_bool().unwrap();
    if indirect {
        let bl = spec["paramsMemBlocks"].as_array().unwrap();
        compare_mem(args[0] as usize, &cells(&spec["paramsMem"]), &Blocks { blocks: bl }, "params-record", &mut errs, 0);
    } else {
        let bl = spec["paramsFlatBlocks"].as_array().unwrap();
        for (i, fv) in spec["paramsFlat"].as_array().unwrap().iter().enumerate() {
            compare_flat(i, args[i], fv, &Blocks { blocks: bl }, &mut errs);
        }
    }
    for e in &errs {
        problem("lowered-args", &format!("{key} (read when the callee {at}): {e}"));
    }
    errs.len()
}

/// write the spec's result into the caller's result area (blocks from the guest's allocator)
fn write_result(spec: &Value, resptr: u64) {
    if spec["resSize"].as_u64().unwrap() == 0 {
        return;
    }
    let bl = spec["resMemBlocks"].as_array().unwrap();
    let mut handed = Vec::new();
    track(true);
    let addrs = build_blocks(bl, &mut handed);
    track(false);
    write_cells(resptr as usize, &cells(&spec["resMem"]), &addrs);
    ST.with(|s| s.borrow_mut().as_mut().unwrap().handed_over.extend(handed));
}

fn spec_of_import(key: &str) -> Option<Value> {
    ST.with(|s| {
        let b = s.borrow();
        let st = b.as_ref().unwrap();
        st.vector["cases"][st.case]["imports"].get(strip(key)).cloned()
    })
}

/// `[async-lower]` import call; returns status | handle << 4
pub fn async_import(key: &str, args: &[u64]) -> u64 {
    let was = GUEST.swap(false, std::sync::atomic::Ordering::Relaxed);
    let r = async_import_(key, args);
    GUEST.store(was, std::sync::atomic::Ordering::Relaxed);
    r
}

fn async_import_(key: &str, args: &[u64]) -> u64 {
    let Some(spec) = spec_of_import(key) else {
        problem("unexpected-import", &format!("the guest called `{key}`, which this vector does not expect"));
        return RETURNED as u64;
    };
    let has_res = spec["resSize"].as_u64().unwrap() != 0;
    let nparams = if spec["asyncIndirect"].as_bool().unwrap() { 1 } else { spec["paramsFlat"].as_array().unwrap().len() };
    let want = nparams + has_res as usize;
    if args.len() != want {
        problem("lowered-args", &format!("{key}: {} core arguments, the async canonical ABI gives {want}", args.len()));
        return RETURNED as u64;
    }
    let (mode, idx) = AH.with(|h| {
        let mut h = h.borrow_mut();
        let i = h.next_call;
        h.next_call += 1;
        (h.schedule.get(i).copied().unwrap_or('R'), i)
    });
    match mode {
        'R' => {
            let e = check_params(key, &spec, args, "returned at once");
            if has_res {
                write_result(&spec, *args.last().unwrap());
            }
            ev(|| json!({"ev": "import.call", "idx": idx, "key": strip(key), "mode": "R", "h": 0, "status": RETURNED, "checked": true, "errors": e}));
            RETURNED as u64
        }
        'S' | 'G' | 'H' => {
            let started = mode == 'S';
            let e = if started { check_params(key, &spec, args, "started at the call") } else { 0 };
            let h = AH.with(|h| {
                let mut h = h.borrow_mut();
                h.subs.push(Sub { key: key.to_string(), args: args.to_vec(), mode, state: if started { STARTED } else { STARTING }, set: 0, dropped: false, checked: started });
                h.subs.len() as u32
            });
            let status = if started { STARTED } else { STARTING };
            ev(|| json!({"ev": "import.call", "idx": idx, "key": strip(key), "mode": mode.to_string(), "h": h, "status": status, "checked": started, "errors": e}));
            (status | (h << 4)) as u64
        }
        _ => unreachable!(),
    }
}

/// `[task-return]`: the arguments are the flattened result (as the parameters of `echo(r)` would be)
pub fn task_return(key: &str, args: &[u64]) {
    let was = GUEST.swap(false, std::sync::atomic::Ordering::Relaxed);
    let spec = ST.with(|s| {
        let b = s.borrow();
        let st = b.as_ref().unwrap();
        st.vector["cases"][st.case]["taskReturn"].clone()
    });
    let mut errs = Vec::new();
    if spec.is_null() {
        if !args.is_empty() {
            errs.push(format!("{} core arguments for a function without result", args.len()));
        }
    } else {
        let indirect = spec["indirect"].as_bool().unwrap();
        let want = if indirect { 1 } else { spec["paramsFlat"].as_array().unwrap().len() };
        if args.len() != want {
            errs.push(format!("{} core arguments, the canonical ABI gives {want}", args.len()));
        } else if indirect {
            let bl = spec["paramsMemBlocks"].as_array().unwrap();
            compare_mem(args[0] as usize, &cells(&spec["paramsMem"]), &Blocks { blocks: bl }, "task-return-record", &mut errs, 0);
        } else {
            let bl = spec["paramsFlatBlocks"].as_array().unwrap();
            for (i, fv) in spec["paramsFlat"].as_array().unwrap().iter().enumerate() {
                compare_flat(i, args[i], fv, &Blocks { blocks: bl }, &mut errs);
            }
        }
    }
    for e in &errs {
        problem("lowered-result", &format!("{key}: {e}"));
    }
    AH.with(|h| h.borrow_mut().returned += 1);
    ev(|| json!({"ev": "task.return", "errors": errs.len()}));
    GUEST.store(was, std::sync::atomic::Ordering::Relaxed);
}

/// one host step for a task that waits on `set`: returns the event to deliver
fn host_step(set: u32) -> Option<(u32, u32, u32)> {
    let (cancel, cand) = AH.with(|h| {
        let mut h = h.borrow_mut();
        h.waits += 1;
        if h.cancel_at != 0 && h.waits == h.cancel_at && !h.cancel_sent {
            h.cancel_sent = true;
            return (true, None);
        }
        let members = h.sets.get(set as usize - 1).cloned().flatten().unwrap_or_default();
        let c = members.iter().copied().find(|m| {
            let s = &h.subs[*m as usize - 1];
            !s.dropped && (s.state == STARTING || s.state == STARTED)
        });
        (false, c)
    });
    if cancel {
        ev(|| json!({"ev": "event", "kind": "cancel", "h": 0, "status": 0, "checked": false, "errors": 0}));
        return Some((EVENT_CANCEL, 0, 0));
    }
    let Some(hd) = cand else {
        problem("deadlock", &format!("the task waits on set {set}, which has no subtask that can make progress"));
        ev(|| json!({"ev": "stuck", "set": set}));
        return None;
    };
    let (key, args, mode, state) = AH.with(|h| {
        let h = h.borrow();
        let s = &h.subs[hd as usize - 1];
        (s.key.clone(), s.args.clone(), s.mode, s.state)
    });
    let spec = spec_of_import(&key).unwrap();
    let has_res = spec["resSize"].as_u64().unwrap() != 0;
    let mut errors = 0;
    let mut checked_now = false;
    let new_state = if state == STARTING {
        // the callee starts now: this is when a real host lifts the parameters
        errors = check_params(&key, &spec, &args, "started after the call had returned STARTING");
        checked_now = true;
        if mode == 'G' { STARTED } else { RETURNED }
    } else {
        RETURNED
    };
    if new_state == RETURNED && has_res {
        write_result(&spec, *args.last().unwrap());
    }
    AH.with(|h| {
        let mut h = h.borrow_mut();
        let s = &mut h.subs[hd as usize - 1];
        s.state = new_state;
        s.checked |= checked_now;
    });
    ev(|| json!({"ev": "event", "kind": "subtask", "h": hd, "status": new_state, "checked": checked_now, "errors": errors}));
    Some((EVENT_SUBTASK, hd, new_state))
}

/// configure the host for the next export call: the schedule, and what the spec needs to know about the task (the number
/// of import calls its body makes, whether imports / the export are bound asynchronously)
pub fn schedule(modes: &str, cancel_at: usize, n: usize, aimp: bool, aexp: bool) {
    ah(|h| {
        *h = AHost { ctx: 0, wasip3: h.wasip3, schedule: modes.chars().collect(), cancel_at, ..Default::default() };
    });
    ev(|| json!({"ev": "task.begin", "schedule": modes, "cancel_at": cancel_at, "n": n, "aimp": aimp, "aexp": aexp}));
}

/// a synchronous export (whose body blocks on async imports) has returned
pub fn sync_export_done() {
    let (ret, canc, undropped, live_sets, cancel_sent) = ah(|h| {
        (h.returned, h.cancelled, h.subs.iter().filter(|s| !s.dropped).count(), h.sets.iter().filter(|s| s.is_some()).count(), h.cancel_sent)
    });
    ev(|| json!({"ev": "task.end", "returned": ret, "cancelled": canc, "undropped": undropped, "live_sets": live_sets, "cancel_sent": cancel_sent}));
}

/// drive one async export to completion: `start` calls the `[async-lift]` export with the arguments the host built,
/// `callback` is its `[callback]` export
pub fn run_export(name: &str, start: impl FnOnce(&[u64]) -> u32, callback: impl Fn(u32, u32, u32) -> u32) {
    let args = export_args(name);
    let code = start(&args);
    host(|| drop(args));
    drive(code, callback);
}

/// the handles the host lends to the task for the duration of the call (`borrow<r>` parameters)
pub fn lend(hs: &[u32]) {
    ev(|| json!({"ev": "borrow.lend", "hs": hs}));
}

/// the guest dropped a handle it had borrowed (`[resource-drop]` of the test program's import handler)
pub fn borrow_dropped(h: u32) {
    ev(|| json!({"ev": "borrow.drop", "h": h}));
}

/// `task.return` judged by the test program itself (fixed worlds without a vector)
pub fn note_task_return(errors: usize) {
    ah(|h| h.returned += 1);
    ev(|| json!({"ev": "task.return", "errors": errors}));
}

/// the callback loop of a task whose export has answered `code`
pub fn drive(mut code: u32, callback: impl Fn(u32, u32, u32) -> u32) {
    let mut steps = 0;
    loop {
        steps += 1;
        if steps > 200 {
            problem("deadlock", "the task did not finish within 200 host steps");
            break;
        }
        match code & 0xf {
            0 => {
                ev(|| json!({"ev": "answer", "code": "exit", "set": 0}));
                break;
            }
            1 => {
                ev(|| json!({"ev": "answer", "code": "yield", "set": 0}));
                let cancel = ah(|h| {
                    h.waits += 1;
                    if h.cancel_at != 0 && h.waits == h.cancel_at && !h.cancel_sent {
                        h.cancel_sent = true;
                        true
                    } else {
                        false
                    }
                });
                if cancel {
                    ev(|| json!({"ev": "event", "kind": "cancel", "h": 0, "status": 0, "checked": false, "errors": 0}));
                    code = callback(EVENT_CANCEL, 0, 0);
                } else {
                    ev(|| json!({"ev": "event", "kind": "none", "h": 0, "status": 0, "checked": false, "errors": 0}));
                    code = callback(EVENT_NONE, 0, 0);
                }
            }
            2 => {
                let set = code >> 4;
                ev(|| json!({"ev": "answer", "code": "wait", "set": set}));
                let ok = ah(|h| set != 0 && (set as usize) <= h.sets.len() && h.sets[set as usize - 1].is_some());
                if !ok {
                    problem("protocol", &format!("the task waits on waitable set {set}, which does not exist"));
                    break;
                }
                match host(|| host_step(set)) {
                    Some((a, b, c)) => code = callback(a, b, c),
                    None => break,
                }
            }
            other => {
                problem("protocol", &format!("callback code {other} is not one the component model defines"));
                break;
            }
        }
    }
    // what must hold when the task is over
    let (ret, canc, undropped, live_sets, cancel_sent) = ah(|h| {
        (h.returned, h.cancelled, h.subs.iter().filter(|s| !s.dropped).count(), h.sets.iter().filter(|s| s.is_some()).count(), h.cancel_sent)
    });
    ev(|| json!({"ev": "task.end", "returned": ret, "cancelled": canc, "undropped": undropped, "live_sets": live_sets, "cancel_sent": cancel_sent}));
}

// ------------------------------------------------------------------------------------------- canonical built-ins
#[unsafe(export_name = "[context-get-0]")]
pub extern "C" fn context_get() -> *mut u8 {
    ah(|h| h.ctx as *mut u8)
}
#[unsafe(export_name = "[context-set-0]")]
pub extern "C" fn context_set(v: *mut u8) {
    ah(|h| h.ctx = v as usize)
}
#[unsafe(no_mangle)]
pub extern "C" fn wasip3_task_set(ptr: *mut u8) -> *mut u8 {
    ah(|h| {
        let prev = h.wasip3;
        h.wasip3 = ptr as usize;
        prev as *mut u8
    })
}
#[unsafe(export_name = "[waitable-set-new]")]
pub extern "C" fn waitable_set_new() -> u32 {
    let s = ah(|h| {
        h.sets.push(Some(Vec::new()));
        h.sets.len() as u32
    });
    ev(|| json!({"ev": "set.new", "set": s}));
    s
}
#[unsafe(export_name = "[waitable-set-drop]")]
pub extern "C" fn waitable_set_drop(s: u32) {
    let members = ah(|h| match h.sets.get_mut(s as usize - 1) {
        Some(x) => x.take().map(|m| m.len()),
        None => None,
    });
    match members {
        None => problem("protocol", &format!("waitable-set.drop of set {s}, which does not exist")),
        Some(n) if n > 0 => problem("protocol", &format!("waitable-set.drop of set {s}, which still has {n} member(s)")),
        _ => {}
    }
    ev(|| json!({"ev": "set.drop", "set": s}));
}
#[unsafe(export_name = "[waitable-join]")]
pub extern "C" fn waitable_join(w: u32, s: u32) {
    let ok = ah(|h| {
        if w == 0 || w as usize > h.subs.len() || h.subs[w as usize - 1].dropped {
            return false;
        }
        let old = h.subs[w as usize - 1].set;
        if old != 0 {
            if let Some(Some(m)) = h.sets.get_mut(old as usize - 1) {
                m.retain(|x| *x != w);
            }
        }
        if s != 0 {
            match h.sets.get_mut(s as usize - 1) {
                Some(Some(m)) => m.push(w),
                _ => return false,
            }
        }
        h.subs[w as usize - 1].set = s;
        true
    });
    if !ok {
        problem("protocol", &format!("waitable.join({w}, {s}) names a waitable or a set that does not exist"));
    }
    ev(|| json!({"ev": "join", "h": w, "set": s}));
}
#[unsafe(export_name = "[waitable-set-wait]")]
pub extern "C" fn waitable_set_wait(s: u32, out: *mut [u32; 2]) -> u32 {
    // block_on: the caller blocks until an event is there
    ev(|| json!({"ev": "answer", "code": "wait", "set": s, "blocking": true}));
    match host(|| host_step(s)) {
        Some((a, b, c)) => {
            unsafe { *out = [b, c] };
            a
        }
        None => {
            unsafe { *out = [0, 0] };
            EVENT_NONE
        }
    }
}
#[unsafe(export_name = "[waitable-set-poll]")]
pub extern "C" fn waitable_set_poll(_s: u32, out: *mut [u32; 2]) -> u32 {
    unsafe { *out = [0, 0] };
    EVENT_NONE
}
#[unsafe(export_name = "[subtask-cancel]")]
pub extern "C" fn subtask_cancel(hd: u32) -> u32 {
    // a call that is still STARTING is either stopped before it starts (schedule mode G) or has started in the meantime
    // (mode H: the host reads the parameters now) and gives up: RETURN_CANCELLED either way for one that has started
    let r = ah(|h| {
        if hd == 0 || hd as usize > h.subs.len() || h.subs[hd as usize - 1].dropped {
            return None;
        }
        let s = &mut h.subs[hd as usize - 1];
        if s.set != 0 {
            return Some(Err("subtask.cancel of a subtask that is still a member of a waitable set"));
        }
        let (st, read_now) = match s.state {
            STARTING if s.mode == 'G' => (START_CANCELLED, false),
            STARTING => (RETURN_CANCELLED, true),
            STARTED => (RETURN_CANCELLED, false),
            _ => return Some(Err("subtask.cancel of a subtask that has already returned or been cancelled")),
        };
        s.state = st;
        s.checked |= read_now;
        Some(Ok((st, read_now, s.key.clone(), s.args.clone())))
    });
    match r {
        None => {
            problem("protocol", &format!("subtask.cancel of handle {hd}, which does not exist"));
            RETURN_CANCELLED
        }
        Some(Err(m)) => {
            problem("protocol", m);
            ev(|| json!({"ev": "subtask.cancel", "h": hd, "status": RETURN_CANCELLED, "checked": false, "errors": 0}));
            RETURN_CANCELLED
        }
        Some(Ok((st, read_now, key, args))) => {
            let mut errors = 0;
            if read_now {
                let spec = host(|| spec_of_import(&key)).unwrap();
                errors = host(|| check_params(&key, &spec, &args, "started just before the cancellation"));
            }
            host(|| {
                drop(key);
                drop(args);
            });
            ev(|| json!({"ev": "subtask.cancel", "h": hd, "status": st, "checked": read_now, "errors": errors}));
            st
        }
    }
}
#[unsafe(export_name = "[subtask-drop]")]
pub extern "C" fn subtask_drop(hd: u32) {
    let r = ah(|h| {
        if hd == 0 || hd as usize > h.subs.len() || h.subs[hd as usize - 1].dropped {
            return Some("subtask.drop of a handle that does not exist (dropped twice?)");
        }
        let s = &mut h.subs[hd as usize - 1];
        s.dropped = true;
        if s.set != 0 {
            return Some("subtask.drop of a subtask that is still a member of a waitable set");
        }
        if s.state == STARTING || s.state == STARTED {
            return Some("subtask.drop of a subtask that has neither returned nor been cancelled");
        }
        None
    });
    if let Some(m) = r {
        problem("protocol", m);
    }
    ev(|| json!({"ev": "subtask.drop", "h": hd}));
}
#[unsafe(export_name = "[thread-yield]")]
pub extern "C" fn thread_yield() -> bool {
    false
}
#[unsafe(export_name = "[backpressure-inc]")]
pub extern "C" fn backpressure_inc() {
    ah(|h| h.backpressure += 1);
}
#[unsafe(export_name = "[backpressure-dec]")]
pub extern "C" fn backpressure_dec() {
    ah(|h| h.backpressure -= 1);
}
#[unsafe(export_name = "[task-cancel]")]
pub extern "C" fn task_cancel() {
    let sent = ah(|h| {
        h.cancelled += 1;
        h.cancel_sent
    });
    if !sent {
        problem("protocol", "task.cancel without a cancellation request from the host");
    }
    ev(|| json!({"ev": "task.cancel"}));
}

// the runtime links these whether or not a test uses them
macro_rules! unexpected {
    ($($name:literal $f:ident ($($a:ident : $t:ty),*) $(-> $r:ty)?;)*) => {$(
        #[unsafe(export_name = $name)]
        #[allow(unused_variables)]
        pub extern "C" fn $f($($a: $t),*) $(-> $r)? {
            problem("protocol", concat!("unexpected call of ", $name));
            $(<$r>::default())?
        }
    )*};
}
unexpected! {
    "[stream-new-unit]" unit_new() -> u64;
    "[async-lower][stream-write-unit]" unit_write(s: u32, p: usize, n: usize) -> u32;
    "[async-lower][stream-read-unit]" unit_read(s: u32, p: usize, n: usize) -> u32;
    "[stream-cancel-read-unit]" unit_cancel_read(s: u32) -> u32;
    "[stream-cancel-write-unit]" unit_cancel_write(s: u32) -> u32;
    "[stream-drop-readable-unit]" unit_drop_readable(s: u32);
    "[stream-drop-writable-unit]" unit_drop_writable(s: u32);
    "[error-context-new-utf8]" errctx_new(p: usize, n: usize) -> u32;
    "[error-context-drop]" errctx_drop(h: u32);
    "[error-context-debug-message-utf8]" errctx_msg(h: u32, out: usize);
}
