//! vhost: a generic, type-agnostic component-model host for generated guest bindings that are
//! compiled and run NATIVELY (pointer width 8).  It is driven by one vector of
//! specs/abi/MC_CallConv.tla / MC_RustExec.tla: the core-level encoding (flat values + memory
//! blocks with pointer cells) the canonical ABI assigns to the arguments and the result of one
//! function.  The host never looks at WIT types: it compares / builds memory from the spec's
//! block descriptions (cells: byte 0..255, PAD -1 = don't care, PTR(i) = 1000+i .. pointer to
//! block i, PCONT -2 = rest of a pointer, PANY -3 = any pointer value).
//!
//! Import side (`import_call`): the guest's lowered arguments must equal the spec's encoding; the
//! host then produces the spec's encoding of the result (allocating with the guest's allocator).
//! Export side: `export_args` builds the arguments, `export_result` checks what comes back.
//! Heap ledger (`Ledger`, installed as the test binary's global allocator): every block the host
//! hands over must be freed by the guest exactly once, every block the guest lowers must stay
//! valid while the host reads it, and after each call (plus post-return) nothing the bindings
//! allocated may remain (property C06).
use serde_json::Value;
use std::alloc::{GlobalAlloc, Layout, System};
use std::cell::RefCell;
use std::collections::BTreeMap;
use std::io::Write;
use std::sync::Mutex;

pub mod ahost;

pub const PAD: i64 = -1;
pub const PCONT: i64 = -2;
pub const PANY: i64 = -3;

// ---------------------------------------------------------------- ledger
/// Counting allocator.  Every block of the process is recorded from the first allocation on, tagged with who made it:
/// the guest (bindings, test code, blocks the host builds *for* the guest with the guest's allocator) or the host's own
/// bookkeeping.  Only guest blocks take part in the leak judgement; a free of a block the ledger has never seen, or with
/// a layout other than the one it was allocated with, is reported whoever does it.
pub struct Ledger;
/// the ledger is the global allocator of every test program that links this crate (Rust guests: the whole binary;
/// C guests: the host itself and, through `vh_malloc` and friends, the guest)
#[global_allocator]
static LEDGER: Ledger = Ledger;
/// live blocks: address -> (size, align), the guest's and the host's kept apart (the host's can be many)
#[derive(Default)]
struct Live {
    guest: BTreeMap<usize, (usize, usize)>,
    host: BTreeMap<usize, (usize, usize)>,
}
impl Live {
    fn insert(&mut self, a: usize, v: (usize, usize, bool)) {
        if v.2 { self.guest.insert(a, (v.0, v.1)); } else { self.host.insert(a, (v.0, v.1)); }
    }
    fn remove(&mut self, a: &usize) -> Option<(usize, usize, bool)> {
        if let Some(x) = self.guest.remove(a) { return Some((x.0, x.1, true)); }
        self.host.remove(a).map(|x| (x.0, x.1, false))
    }
    fn get(&self, a: &usize) -> Option<(usize, usize, bool)> {
        if let Some(x) = self.guest.get(a) { return Some((x.0, x.1, true)); }
        self.host.get(a).map(|x| (x.0, x.1, false))
    }
    fn below(&self, addr: usize) -> Option<(usize, usize)> {
        let g = self.guest.range(..=addr).next_back().map(|(a, x)| (*a, x.0));
        let h = self.host.range(..=addr).next_back().map(|(a, x)| (*a, x.0));
        match (g, h) { (Some(a), Some(b)) => Some(if a.0 > b.0 { a } else { b }), (a, b) => a.or(b) }
    }
}
static LIVE: Mutex<Option<Live>> = Mutex::new(None);
static GUEST: std::sync::atomic::AtomicBool = std::sync::atomic::AtomicBool::new(false);
thread_local! { static IN_LEDGER: std::cell::Cell<bool> = const { std::cell::Cell::new(false) }; }

fn with_live<R>(f: impl FnOnce(&mut Live) -> R) -> Option<R> {
    IN_LEDGER
        .try_with(|g| {
            if g.get() {
                return None;
            }
            g.set(true);
            let r = {
                let mut l = LIVE.lock().unwrap();
                let m = l.get_or_insert_with(Live::default);
                f(m)
            };
            g.set(false);
            Some(r)
        })
        .ok()
        .flatten()
}

// ---- optional low-address arena (VERIF_LOW_ARENA=1): every block lives below 2 GiB, so that a pointer survives the
// round trip through an `i32` core value.  Generated bindings pass the representation pointer of an exported resource as
// an i32 (it IS 32 bits wide on wasm32); natively that only works if the heap is low.  Bump allocation, no reuse.
static ARENA_BASE: std::sync::atomic::AtomicUsize = std::sync::atomic::AtomicUsize::new(0);
static ARENA_TOP: std::sync::atomic::AtomicUsize = std::sync::atomic::AtomicUsize::new(0);
const ARENA_SIZE: usize = 1 << 28;
unsafe extern "C" {
    fn mmap(addr: *mut u8, len: usize, prot: i32, flags: i32, fd: i32, off: i64) -> *mut u8;
    fn getenv(name: *const u8) -> *const u8;
}

fn arena() -> usize {
    use std::sync::atomic::Ordering::*;
    let b = ARENA_BASE.load(Acquire);
    if b != 0 {
        return if b == 1 { 0 } else { b };
    }
    let want = unsafe { !getenv(b"VERIF_LOW_ARENA\0".as_ptr()).is_null() };
    if !want {
        ARENA_BASE.store(1, Release);
        return 0;
    }
    // PROT_READ|PROT_WRITE, MAP_PRIVATE|MAP_ANONYMOUS|MAP_32BIT|MAP_NORESERVE
    let p = unsafe { mmap(std::ptr::null_mut(), ARENA_SIZE, 3, 0x02 | 0x20 | 0x40 | 0x4000, -1, 0) } as usize;
    if p == usize::MAX || p == 0 || p + ARENA_SIZE > (1usize << 32) {
        ARENA_BASE.store(1, Release);
        return 0;
    }
    ARENA_TOP.store(p, Release);
    ARENA_BASE.store(p, Release);
    p
}

unsafe fn raw_alloc(layout: Layout) -> *mut u8 {
    let base = arena();
    // only what the guest allocates has to be low; the host's bookkeeping stays on the system heap
    if base == 0 || !GUEST.load(std::sync::atomic::Ordering::Relaxed) {
        return unsafe { System.alloc(layout) };
    }
    use std::sync::atomic::Ordering::*;
    loop {
        let top = ARENA_TOP.load(Acquire);
        let start = (top + layout.align() - 1) & !(layout.align() - 1);
        let end = start + layout.size().max(1);
        if end > base + ARENA_SIZE {
            return std::ptr::null_mut();
        }
        if ARENA_TOP.compare_exchange(top, end, AcqRel, Acquire).is_ok() {
            return start as *mut u8;
        }
    }
}

unsafe fn raw_dealloc(p: *mut u8, layout: Layout) {
    let base = arena();
    if base != 0 && (p as usize) >= base && (p as usize) < base + ARENA_SIZE {
        // poison, never reuse
        unsafe { std::ptr::write_bytes(p, 0xDD, layout.size()) };
        return;
    }
    unsafe { System.dealloc(p, layout) }
}

unsafe impl GlobalAlloc for Ledger {
    unsafe fn alloc(&self, layout: Layout) -> *mut u8 {
        let p = unsafe { raw_alloc(layout) };
        let guest = GUEST.load(std::sync::atomic::Ordering::Relaxed);
        with_live(|m| m.insert(p as usize, (layout.size(), layout.align(), guest)));
        p
    }
    unsafe fn dealloc(&self, p: *mut u8, layout: Layout) {
        let known = with_live(|m| m.remove(&(p as usize)));
        match known {
            Some(None) => {
                problem("free-unknown", &format!("dealloc of {:#x} (size {}, align {}) which is not a live block", p as usize, layout.size(), layout.align()));
                return; // do not hand an unknown pointer to the system allocator
            }
            Some(Some((s, a, _))) if s != layout.size() || a != layout.align() => problem(
                "free-wrong-layout",
                &format!("dealloc with layout (size {}, align {}) of a block allocated with (size {s}, align {a})", layout.size(), layout.align()),
            ),
            _ => {}
        }
        unsafe { raw_dealloc(p, layout) }
    }
    unsafe fn realloc(&self, p: *mut u8, layout: Layout, new_size: usize) -> *mut u8 {
        let base = arena();
        let q = if base == 0 || (p as usize) < base || (p as usize) >= base + ARENA_SIZE {
            unsafe { System.realloc(p, layout, new_size) }
        } else {
            let q = unsafe { raw_alloc(Layout::from_size_align(new_size, layout.align()).unwrap()) };
            unsafe { std::ptr::copy_nonoverlapping(p, q, layout.size().min(new_size)) };
            unsafe { raw_dealloc(p, layout) };
            q
        };
        let guest = GUEST.load(std::sync::atomic::Ordering::Relaxed);
        with_live(|m| {
            let tag = m.remove(&(p as usize)).map(|x| x.2).unwrap_or(guest);
            m.insert(q as usize, (new_size, layout.align(), tag));
        });
        q
    }
}

/// true: what is allocated from now on belongs to the guest; false: to the host's bookkeeping
pub fn track(on: bool) {
    GUEST.store(on, std::sync::atomic::Ordering::Relaxed);
}

/// the guest-tagged live blocks.  Containers are allocated outside the ledger's critical section (where allocations are
/// not recorded) and only filled inside it, so that every block the process frees has been seen by the ledger.
fn live_snapshot() -> BTreeMap<usize, (usize, usize)> {
    let was = GUEST.swap(false, std::sync::atomic::Ordering::Relaxed);
    let n = with_live(|m| m.guest.len()).unwrap_or(0);
    let mut v: Vec<(usize, (usize, usize))> = Vec::with_capacity(n + 64);
    with_live(|m| {
        for (a, x) in m.guest.iter() {
            if v.len() < v.capacity() {
                v.push((*a, (x.0, x.1)));
            }
        }
    });
    let r: BTreeMap<usize, (usize, usize)> = v.into_iter().collect();
    GUEST.store(was, std::sync::atomic::Ordering::Relaxed);
    r
}

fn is_live_range(addr: usize, len: usize) -> bool {
    if len == 0 {
        return true;
    }
    with_live(|m| m.below(addr).map(|(a, sz)| addr + len <= a + sz).unwrap_or(false)).unwrap_or(true)
}

fn starts_inside_live_block(addr: usize) -> bool {
    with_live(|m| m.below(addr).map(|(a, sz)| addr < a + sz).unwrap_or(false)).unwrap_or(false)
}

// ---------------------------------------------------------------- state
struct State {
    vector: Value,
    case: usize,
    out: Vec<Value>,
    baseline: BTreeMap<usize, (usize, usize)>,
    handed_over: Vec<usize>,
    kept: Vec<usize>,
}
thread_local! { static ST: RefCell<Option<State>> = const { RefCell::new(None) }; }

fn problem(kind: &str, detail: &str) {
    let was = GUEST.swap(false, std::sync::atomic::Ordering::Relaxed);
    ST.with(|s| {
        if let Ok(mut b) = s.try_borrow_mut() {
            if let Some(st) = b.as_mut() {
                st.out.push(serde_json::json!({"problem": kind, "detail": detail}));
            }
        }
    });
    GUEST.store(was, std::sync::atomic::Ordering::Relaxed);
}

pub fn note(kind: &str, detail: &str) {
    let was = GUEST.swap(false, std::sync::atomic::Ordering::Relaxed);
    ST.with(|s| s.borrow_mut().as_mut().unwrap().out.push(serde_json::json!({"note": kind, "detail": detail})));
    GUEST.store(was, std::sync::atomic::Ordering::Relaxed);
}

pub fn init() {
    let path = std::env::var("VERIF_VECTOR").expect("VERIF_VECTOR");
    let vector: Value = serde_json::from_str(&std::fs::read_to_string(path).unwrap()).unwrap();
    ST.with(|s| *s.borrow_mut() = Some(State { vector, case: 0, out: Vec::new(), baseline: BTreeMap::new(), handed_over: Vec::new(), kept: Vec::new() }));
    std::panic::set_hook(Box::new(|info| {
        track(false);
        let msg = info.to_string();
        ST.with(|s| {
            if let Ok(mut b) = s.try_borrow_mut() {
                if let Some(st) = b.as_mut() {
                    st.out.push(serde_json::json!({"problem": "panic", "detail": msg}));
                    flush(st);
                }
            }
        });
        std::process::exit(0);
    }));
}

fn flush(st: &State) {
    let path = std::env::var("VERIF_OUT").expect("VERIF_OUT");
    let mut f = std::fs::File::create(path).unwrap();
    for v in &st.out {
        writeln!(f, "{v}").unwrap();
    }
}

pub fn finish() {
    track(false);
    ST.with(|s| {
        let mut b = s.borrow_mut();
        let st = b.as_mut().unwrap();
        st.out.push(serde_json::json!({"done": true}));
        flush(st);
    });
}

/// choose the case (arguments / result values) the following calls belong to
pub fn select(case: usize) {
    track(false);
    ST.with(|s| {
        let mut b = s.borrow_mut();
        let st = b.as_mut().unwrap();
        st.case = case;
        st.out.push(serde_json::json!({"case": case}));
    });
}

/// start of a call: remember what is live now
pub fn begin(what: &str) {
    track(false);
    let snap = live_snapshot();
    ST.with(|s| {
        let mut b = s.borrow_mut();
        let st = b.as_mut().unwrap();
        st.baseline = snap;
        st.handed_over.clear();
        st.kept.clear();
        st.out.push(serde_json::json!({"begin": what}));
    });
    track(true);
}

/// end of a call (after post-return): the heap must be as at `begin`
pub fn end(what: &str) {
    track(false);
    let snap = live_snapshot();
    ST.with(|s| {
        let mut b = s.borrow_mut();
        let st = b.as_mut().unwrap();
        let leaked: Vec<_> = snap.iter().filter(|(a, _)| !st.baseline.contains_key(a)).map(|(a, (sz, al))| (*a, *sz, *al)).collect();
        for (a, sz, al) in &leaked {
            let by = if st.handed_over.contains(a) { "a block the host handed over was never freed by the guest" } else { "a block allocated during the call is still live" };
            st.out.push(serde_json::json!({"problem": "leak", "detail": format!("{what}: {by} (size {sz}, align {al})")}));
        }
        let lost: Vec<_> = st.baseline.keys().filter(|a| !snap.contains_key(a)).collect();
        if !lost.is_empty() {
            st.out.push(serde_json::json!({"problem": "freed-foreign", "detail": format!("{what}: {} block(s) that were live before the call were freed", lost.len())}));
        }
        st.out.push(serde_json::json!({"end": what, "live_delta": leaked.len()}));
    });
}

// ---------------------------------------------------------------- spec encodings
fn cells(v: &Value) -> Vec<i64> {
    v.as_array().unwrap().iter().map(|c| c.as_i64().unwrap()).collect()
}

struct Blocks<'a> {
    blocks: &'a [Value],
}

/// compare real memory at `addr` with a cell sequence; follows pointers into `blocks`
fn compare_mem(addr: usize, cs: &[i64], blocks: &Blocks, what: &str, errs: &mut Vec<String>, depth: usize) {
    if depth > 16 {
        errs.push(format!("{what}: pointer chain too deep"));
        return;
    }
    if !is_live_range_or_static(addr, cs.len()) {
        errs.push(format!("{what}: {} bytes at {addr:#x} are not inside a live allocation", cs.len()));
        return;
    }
    let mut i = 0;
    while i < cs.len() {
        let c = cs[i];
        if c >= 1000 || c == PANY {
            let p = unsafe { std::ptr::read_unaligned((addr + i) as *const usize) };
            if c >= 1000 {
                let b = &blocks.blocks[(c - 1001) as usize];
                let bc = cells(&b["cells"]);
                let align = b["align"].as_u64().unwrap() as usize;
                if !bc.is_empty() && p % align != 0 {
                    errs.push(format!("{what}+{i}: pointer {p:#x} to a {} block is not {align}-aligned", b["kind"]));
                }
                compare_mem(p, &bc, blocks, &format!("{what}+{i}->{}", b["kind"].as_str().unwrap_or("?")), errs, depth + 1);
            }
            i += 8;
            continue;
        }
        if c == PAD || c == PCONT {
            i += 1;
            continue;
        }
        let got = unsafe { *((addr + i) as *const u8) } as i64;
        if got != c {
            errs.push(format!("{what}+{i}: byte {got} where the canonical ABI has {c}"));
            if errs.len() > 6 {
                return;
            }
        }
        i += 1;
    }
}

fn is_live_range_or_static(addr: usize, len: usize) -> bool {
    // lowered data may live on the stack (return areas, parameter records) or in statics; only heap ranges can be
    // judged by the ledger, so anything that is not *inside or overlapping* a heap block is accepted as non-heap memory
    if len == 0 {
        return true;
    }
    if is_live_range(addr, len) {
        return true;
    }
    // with the low arena every guest heap address lies inside the arena and is never reused: an address in there that is
    // not inside a live block is freed (or never allocated) heap memory
    let base = arena();
    if base != 0 && addr >= base && addr < base + ARENA_SIZE {
        return false;
    }
    // pointing into freed heap cannot be told apart from stack memory by address alone; accept unless the range starts
    // inside a live block (then it overruns it)
    !starts_inside_live_block(addr)
}

/// compare one flat core value (u64 bit pattern) with the spec's cells for it
fn compare_flat(i: usize, got: u64, fv: &Value, blocks: &Blocks, errs: &mut Vec<String>) {
    let cs = cells(&fv["cells"]);
    let care = fv["care"].as_u64().unwrap() as usize;
    if cs[0] >= 1000 {
        let b = &blocks.blocks[(cs[0] - 1001) as usize];
        let bc = cells(&b["cells"]);
        compare_mem(got as usize, &bc, blocks, &format!("flat[{i}]->{}", b["kind"].as_str().unwrap_or("?")), errs, 0);
        return;
    }
    if cs[0] == PANY {
        return;
    }
    let bytes = got.to_le_bytes();
    for k in 0..care.min(cs.len()) {
        if cs[k] >= 0 && bytes[k] as i64 != cs[k] {
            errs.push(format!("flat[{i}] ({}) = {got:#x}, byte {k} should be {}", fv["ty"], cs[k]));
            return;
        }
    }
}

/// what the guest's `cabi_realloc(null, 0, align, size)` does: a fresh block from the global allocator with exactly that
/// layout (generated bindings free with `dealloc(ptr, Layout { size, align })`, so the layout is part of the contract)
unsafe fn cabi_realloc(_old: *mut u8, _old_len: usize, align: usize, new_len: usize) -> *mut u8 {
    let f = GUEST_REALLOC.load(std::sync::atomic::Ordering::Relaxed);
    if f != 0 {
        // C guests register the `cabi_realloc` their bindings export; the host allocates with it like a real one does
        let f: unsafe extern "C" fn(*mut u8, usize, usize, usize) -> *mut u8 = unsafe { std::mem::transmute(f) };
        return unsafe { f(std::ptr::null_mut(), 0, align, new_len) };
    }
    unsafe { std::alloc::alloc(Layout::from_size_align(new_len, align).unwrap()) }
}

/// build the spec's blocks in real memory with the guest's allocator; returns the address of each block
fn build_blocks(blocks: &[Value], handed: &mut Vec<usize>) -> Vec<usize> {
    let mut addrs = vec![0usize; blocks.len()];
    for (i, b) in blocks.iter().enumerate() {
        let size = b["size"].as_u64().unwrap() as usize;
        let align = b["align"].as_u64().unwrap() as usize;
        addrs[i] = if size == 0 { align } else { unsafe { cabi_realloc(std::ptr::null_mut(), 0, align, size) as usize } };
        if size != 0 {
            handed.push(addrs[i]);
        }
    }
    for (i, b) in blocks.iter().enumerate() {
        write_cells(addrs[i], &cells(&b["cells"]), &addrs);
    }
    addrs
}

fn write_cells(addr: usize, cs: &[i64], addrs: &[usize]) {
    let mut i = 0;
    while i < cs.len() {
        let c = cs[i];
        if c >= 1000 {
            unsafe { std::ptr::write_unaligned((addr + i) as *mut usize, addrs[(c - 1001) as usize]) };
            i += 8;
        } else if c == PANY {
            unsafe { std::ptr::write_unaligned((addr + i) as *mut usize, 0x5a5a_5a5a_5a5a_5a50) };
            i += 8;
        } else {
            unsafe { *((addr + i) as *mut u8) = if c < 0 { 0xA5 } else { c as u8 } };
            i += 1;
        }
    }
}

fn flat_to_u64(fv: &Value, addrs: &[usize]) -> u64 {
    let cs = cells(&fv["cells"]);
    if cs[0] >= 1000 {
        return addrs[(cs[0] - 1001) as usize] as u64;
    }
    if cs[0] == PANY {
        return 0x5a5a_5a5a_5a5a_5a50;
    }
    let mut bytes = [0xA5u8; 8];
    for (k, c) in cs.iter().enumerate() {
        bytes[k] = if *c < 0 { 0xA5 } else { *c as u8 };
    }
    let care = fv["care"].as_u64().unwrap() as usize;
    // bytes above `care` are unspecified for joined variant payloads; bytes above the core type's width do not exist
    let width = cs.len();
    for b in bytes.iter_mut().skip(width) {
        *b = 0;
    }
    let _ = care;
    u64::from_le_bytes(bytes)
}

// ---------------------------------------------------------------- import side
/// called by the nativised import stubs: `key` = "<module>|<name>", args = the core arguments as u64 bit patterns
pub type ImportHandler = fn(&str, &[u64]) -> Option<u64>;
static HANDLER: Mutex<Option<ImportHandler>> = Mutex::new(None);

/// a test program may answer some imports itself (C07: resource intrinsics and functions of a fixed world)
pub fn set_import_handler(h: ImportHandler) {
    *HANDLER.lock().unwrap() = Some(h);
}

/// run `f` as host bookkeeping (what it allocates is not the guest's)
pub fn host<R>(f: impl FnOnce() -> R) -> R {
    let was = GUEST.swap(false, std::sync::atomic::Ordering::Relaxed);
    let r = f();
    GUEST.store(was, std::sync::atomic::Ordering::Relaxed);
    r
}

/// append a free-form event to the output (host mode)
pub fn log_event(v: serde_json::Value) {
    let was = GUEST.swap(false, std::sync::atomic::Ordering::Relaxed);
    ST.with(|s| s.borrow_mut().as_mut().unwrap().out.push(v));
    GUEST.store(was, std::sync::atomic::Ordering::Relaxed);
}
pub use serde_json;

pub fn vector() -> Value {
    let was = GUEST.swap(false, std::sync::atomic::Ordering::Relaxed);
    let v = ST.with(|s| s.borrow().as_ref().unwrap().vector.clone());
    GUEST.store(was, std::sync::atomic::Ordering::Relaxed);
    v
}

pub fn import_call(key: &str, args: &[u64]) -> u64 {
    let h = *HANDLER.lock().unwrap();
    if let Some(h) = h {
        let was = GUEST.swap(false, std::sync::atomic::Ordering::Relaxed);
        let r = h(key, args);
        GUEST.store(was, std::sync::atomic::Ordering::Relaxed);
        if let Some(r) = r {
            return r;
        }
    }
    if key.contains("[async-lower]") {
        return ahost::async_import(key, args);
    }
    if key.contains("[task-return]") {
        ahost::task_return(key, args);
        return 0;
    }
    track(false);
    let (spec, role) = ST.with(|s| {
        let b = s.borrow();
        let st = b.as_ref().unwrap();
        let imports = &st.vector["cases"][st.case]["imports"];
        (imports.get(key).cloned(), Value::Null)
    });
    let _ = role;
    let Some(spec) = spec else {
        problem("unexpected-import", &format!("the guest called `{key}`, which this vector does not expect"));
        track(true);
        return 0;
    };
    let mut errs = Vec::new();
    let want = spec["sig"]["params"].as_array().unwrap().len();
    if args.len() != want {
        errs.push(format!("{} core arguments, the canonical ABI gives {want}", args.len()));
    } else {
        let indirect = spec["indirect"].as_bool().unwrap();
        let nparams = if spec["retptr"].as_bool().unwrap() { want - 1 } else { want };
        if indirect {
            let bl = spec["paramsMemBlocks"].as_array().unwrap();
            compare_mem(args[0] as usize, &cells(&spec["paramsMem"]), &Blocks { blocks: bl }, "params-record", &mut errs, 0);
        } else {
            let bl = spec["paramsFlatBlocks"].as_array().unwrap();
            for (i, fv) in spec["paramsFlat"].as_array().unwrap().iter().enumerate().take(nparams) {
                compare_flat(i, args[i], fv, &Blocks { blocks: bl }, &mut errs);
            }
        }
    }
    for e in &errs {
        problem("lowered-args", &format!("{key}: {e}"));
    }
    // the result
    let mut ret = 0u64;
    let mut handed = Vec::new();
    if spec["retptr"].as_bool().unwrap() {
        let bl = spec["resMemBlocks"].as_array().unwrap();
        track(true);
        let addrs = build_blocks(bl, &mut handed);
        track(false);
        write_cells(*args.last().unwrap() as usize, &cells(&spec["resMem"]), &addrs);
    } else if let Some(fv) = spec["resFlat"].as_array().unwrap().first() {
        let bl = spec["resFlatBlocks"].as_array().unwrap();
        track(true);
        let addrs = build_blocks(bl, &mut handed);
        track(false);
        ret = flat_to_u64(fv, &addrs);
    }
    ST.with(|s| {
        let mut b = s.borrow_mut();
        let st = b.as_mut().unwrap();
        st.handed_over.extend(handed);
        st.out.push(serde_json::json!({"import_called": key, "arg_errors": errs.len()}));
    });
    track(true);
    ret
}

// ---------------------------------------------------------------- export side
/// the core arguments for calling the export (memory built with the guest's allocator)
pub fn export_args(name: &str) -> Vec<u64> {
    track(false);
    let spec = ST.with(|s| {
        let b = s.borrow();
        let st = b.as_ref().unwrap();
        st.vector["cases"][st.case]["exports"][name].clone()
    });
    let mut handed = Vec::new();
    let out;
    if spec["indirect"].as_bool().unwrap() {
        let bl = spec["paramsMemBlocks"].as_array().unwrap();
        track(true);
        let addrs = build_blocks(bl, &mut handed);
        let size = spec["paramsSize"].as_u64().unwrap() as usize;
        let align = spec["paramsAlign"].as_u64().unwrap() as usize;
        let rec = unsafe { cabi_realloc(std::ptr::null_mut(), 0, align, size) as usize };
        track(false);
        handed.push(rec);
        write_cells(rec, &cells(&spec["paramsMem"]), &addrs);
        out = vec![rec as u64];
    } else {
        let bl = spec["paramsFlatBlocks"].as_array().unwrap();
        track(true);
        let addrs = build_blocks(bl, &mut handed);
        track(false);
        out = spec["paramsFlat"].as_array().unwrap().iter().map(|fv| flat_to_u64(fv, &addrs)).collect();
    }
    ST.with(|s| s.borrow_mut().as_mut().unwrap().handed_over.extend(handed));
    track(true);
    out
}

/// check what the export returned (a flat value or a pointer to the return area)
pub fn export_result(name: &str, ret: u64) {
    track(false);
    let spec = ST.with(|s| {
        let b = s.borrow();
        let st = b.as_ref().unwrap();
        st.vector["cases"][st.case]["exports"][name].clone()
    });
    let mut errs = Vec::new();
    if spec["retptr"].as_bool().unwrap() {
        let bl = spec["resMemBlocks"].as_array().unwrap();
        compare_mem(ret as usize, &cells(&spec["resMem"]), &Blocks { blocks: bl }, "return-area", &mut errs, 0);
    } else if let Some(fv) = spec["resFlat"].as_array().unwrap().first() {
        let bl = spec["resFlatBlocks"].as_array().unwrap();
        compare_flat(0, ret, fv, &Blocks { blocks: bl }, &mut errs);
    }
    for e in &errs {
        problem("lowered-result", &format!("{name}: {e}"));
    }
    ST.with(|s| s.borrow_mut().as_mut().unwrap().out.push(serde_json::json!({"export_returned": name, "result_errors": errs.len()})));
    track(true);
}

/// the guest reports something it observed (free-form, compared by the driver)
pub fn guest_event(kind: &str, detail: &str) {
    track(false);
    ST.with(|s| s.borrow_mut().as_mut().unwrap().out.push(serde_json::json!({"guest": kind, "detail": detail})));
    track(true);
}

// ---------------------------------------------------------------- C ABI (guests written in C: C10, C11)
/// The same host for natively compiled C bindings.  The generated C and the test code are compiled with
/// `-Dmalloc=vh_malloc -Dfree=vh_free -Drealloc=vh_realloc -Dcalloc=vh_calloc -Daligned_alloc=vh_aligned_alloc`, so that
/// every allocation of the guest goes through the ledger; memory the host hands to the guest is obtained from the
/// guest's own exported `cabi_realloc`, exactly as a component-model host does.
pub mod cabi {
    use super::*;
    use std::ffi::{c_char, c_void, CStr};

    const HDR: usize = 16;

    unsafe fn c_alloc(size: usize, zero: bool) -> *mut c_void {
        let layout = Layout::from_size_align(size.max(1) + HDR, HDR).unwrap();
        let p = unsafe { if zero { std::alloc::alloc_zeroed(layout) } else { std::alloc::alloc(layout) } };
        if p.is_null() {
            return p as *mut c_void;
        }
        unsafe { *(p as *mut usize) = size };
        unsafe { p.add(HDR) as *mut c_void }
    }

    #[unsafe(no_mangle)]
    pub unsafe extern "C" fn vh_malloc(size: usize) -> *mut c_void {
        unsafe { c_alloc(size, false) }
    }
    #[unsafe(no_mangle)]
    pub unsafe extern "C" fn vh_calloc(n: usize, size: usize) -> *mut c_void {
        unsafe { c_alloc(n * size, true) }
    }
    #[unsafe(no_mangle)]
    pub unsafe extern "C" fn vh_aligned_alloc(_align: usize, size: usize) -> *mut c_void {
        unsafe { c_alloc(size, false) }
    }
    #[unsafe(no_mangle)]
    pub unsafe extern "C" fn vh_free(p: *mut c_void) {
        if p.is_null() {
            return;
        }
        let base = unsafe { (p as *mut u8).sub(HDR) };
        // the ledger knows the block by its base address; an unknown pointer is reported there and not freed
        let known = with_live(|m| m.get(&(base as usize)).map(|x| x.0));
        match known {
            Some(Some(total)) => unsafe { std::alloc::dealloc(base, Layout::from_size_align(total, HDR).unwrap()) },
            _ => problem("free-unknown", &format!("free({:#x}) of a pointer that is not a live malloc block", p as usize)),
        }
    }
    #[unsafe(no_mangle)]
    pub unsafe extern "C" fn vh_realloc(p: *mut c_void, size: usize) -> *mut c_void {
        if p.is_null() {
            return unsafe { c_alloc(size, false) };
        }
        let base = unsafe { (p as *mut u8).sub(HDR) };
        let old = unsafe { *(base as *const usize) };
        let q = unsafe { c_alloc(size, false) };
        unsafe { std::ptr::copy_nonoverlapping(p as *const u8, q as *mut u8, old.min(size)) };
        unsafe { vh_free(p) };
        q
    }

    /// a host-owned copy of a C string (allocated as host bookkeeping whatever the current mode is)
    fn cstr(p: *const c_char) -> String {
        let was = GUEST.swap(false, std::sync::atomic::Ordering::Relaxed);
        let s = unsafe { CStr::from_ptr(p) }.to_string_lossy().into_owned();
        GUEST.store(was, std::sync::atomic::Ordering::Relaxed);
        s
    }

    #[unsafe(no_mangle)]
    pub extern "C" fn vh_init(guest_realloc: usize) {
        GUEST_REALLOC.store(guest_realloc, std::sync::atomic::Ordering::Relaxed);
        init();
    }
    #[unsafe(no_mangle)]
    pub extern "C" fn vh_finish() {
        finish();
    }
    #[unsafe(no_mangle)]
    pub extern "C" fn vh_select(case: usize) {
        select(case);
    }
    #[unsafe(no_mangle)]
    pub extern "C" fn vh_cases() -> usize {
        ST.with(|s| s.borrow().as_ref().unwrap().vector["cases"].as_array().unwrap().len())
    }
    #[unsafe(no_mangle)]
    pub extern "C" fn vh_begin(what: *const c_char) {
        begin(&cstr(what));
    }
    #[unsafe(no_mangle)]
    pub extern "C" fn vh_end(what: *const c_char) {
        end(&cstr(what));
    }
    #[unsafe(no_mangle)]
    pub extern "C" fn vh_import_call(key: *const c_char, args: *const u64, n: usize) -> u64 {
        let a = unsafe { std::slice::from_raw_parts(args, n) };
        import_call(&cstr(key), a)
    }
    #[unsafe(no_mangle)]
    pub extern "C" fn vh_export_args(name: *const c_char, out: *mut u64, cap: usize) -> usize {
        let n = cstr(name);
        let v = export_args(&n);
        for (i, x) in v.iter().enumerate().take(cap) {
            unsafe { *out.add(i) = *x };
        }
        let len = v.len();
        let was = GUEST.swap(false, std::sync::atomic::Ordering::Relaxed);
        drop(v);
        drop(n);
        GUEST.store(was, std::sync::atomic::Ordering::Relaxed);
        len
    }
    #[unsafe(no_mangle)]
    pub extern "C" fn vh_export_result(name: *const c_char, ret: u64) {
        export_result(&cstr(name), ret);
    }
    #[unsafe(no_mangle)]
    pub extern "C" fn vh_note(kind: *const c_char, detail: *const c_char) {
        guest_event(&cstr(kind), &cstr(detail));
    }
}

static GUEST_REALLOC: std::sync::atomic::AtomicUsize = std::sync::atomic::AtomicUsize::new(0);
