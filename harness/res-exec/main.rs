//! C07 test program: the real generated Rust bindings for res.wit (nativised: core imports go to
//! vhost::import_call, which hands them to `host` below), a guest interpreter that executes the
//! guest-side operations of a history with the generated API, and a host that executes the
//! host-side operations by calling the real exports.  Every boundary event is logged; the log is
//! judged by TLC (specs/rt/Trace_ResourceOwn.tla).  The host is deliberately permissive: it never
//! refuses a call, it only records what the guest did.
#![allow(unused, non_snake_case, clippy::all)]
#[allow(warnings)]
mod bindings {
    include!("w_native.rs");
}
use bindings::exports::t::r::exp::{Guest, GuestX, XBorrow, X};
use bindings::t::r::imp;
use std::cell::RefCell;
use std::collections::BTreeMap;
use vhost::serde_json::{json, Value};

/// log an event; the event itself is built as host bookkeeping, whoever is running
macro_rules! log {
    ($v:expr) => {
        vhost::host(|| vhost::log_event($v))
    };
}

// ------------------------------------------------------------------ host state
#[derive(Default)]
struct HostState {
    next_r: u32,
    r_val: BTreeMap<u32, u32>,   // guest table of imported resource r: handle -> value (kept after drop, to stay permissive)
    next_x: u32,
    x_rep: BTreeMap<u32, u64>,   // handles of exported resource x: handle -> rep
    pair_some: bool,
    many_n: u32,
}
thread_local! { static H: RefCell<HostState> = RefCell::new(HostState { next_r: 10, next_x: 50, ..Default::default() }); }

fn new_r(v: u32, via: &str) -> u32 {
    H.with(|h| {
        let mut h = h.borrow_mut();
        h.next_r += 1;
        let id = h.next_r;
        h.r_val.insert(id, v);
        log!(json!({"ev": "r.new", "h": id, "via": via}));
        id
    })
}

unsafe extern "C" {
    #[link_name = "t:r/exp#[dtor]x"]
    fn x_dtor(rep: *mut u8);
    #[link_name = "t:r/exp#[constructor]x"]
    fn x_ctor(v: i32) -> i32;
    #[link_name = "t:r/exp#[method]x.get"]
    fn x_get(rep: *mut u8) -> i32;
    #[link_name = "t:r/exp#take"]
    fn x_take(h: i32) -> i32;
    #[link_name = "t:r/exp#unwrap"]
    fn x_unwrap(h: i32) -> i32;
    #[link_name = "t:r/exp#look"]
    fn x_look(rep: i32) -> i32;
    #[link_name = "t:r/exp#make"]
    fn x_make(v: i32) -> i32;
    #[link_name = "t:r/exp#make-opt"]
    fn x_make_opt(v: i32) -> *mut u8;
}

/// the component-model host for res.wit
fn host(key: &str, a: &[u64]) -> Option<u64> {
    let val_of = |h: u32| H.with(|s| s.borrow().r_val.get(&h).copied().unwrap_or(0));
    Some(match key {
        "t:r/imp|[resource-drop]r" => {
            log!(json!({"ev": "r.drop", "h": a[0] as u32}));
            0
        }
        "t:r/imp|[constructor]r" => new_r(a[0] as u32, "constructor") as u64,
        "t:r/imp|[static]r.make" => new_r(a[0] as u32, "make") as u64,
        "t:r/imp|[method]r.get" => {
            log!(json!({"ev": "r.use", "h": a[0] as u32, "f": "get"}));
            val_of(a[0] as u32) as u64
        }
        "t:r/imp|peek" => {
            log!(json!({"ev": "r.use", "h": a[0] as u32, "f": "peek"}));
            val_of(a[0] as u32) as u64
        }
        "t:r/imp|consume" => {
            log!(json!({"ev": "r.transfer", "h": a[0] as u32, "f": "consume"}));
            val_of(a[0] as u32) as u64
        }
        "t:r/imp|give-rec" => {
            log!(json!({"ev": "r.transfer", "h": a[0] as u32, "f": "give-rec"}));
            (val_of(a[0] as u32) + a[1] as u32) as u64
        }
        "t:r/imp|give-list" => {
            let (p, n) = (a[0] as usize, a[1] as usize);
            let mut sum = 0;
            for i in 0..n {
                let h = unsafe { *((p + 4 * i) as *const u32) };
                log!(json!({"ev": "r.transfer", "h": h, "f": "give-list"}));
                sum += val_of(h);
            }
            sum as u64
        }
        "t:r/imp|pair" => {
            // result tuple<r, option<r>> through the return pointer: handle at 0, discriminant at 4, payload at 8
            let p = a[0] as usize;
            let some = H.with(|s| s.borrow().pair_some);
            let h1 = new_r(1, "pair");
            unsafe { *(p as *mut u32) = h1 };
            unsafe { *((p + 4) as *mut u8) = some as u8 };
            if some {
                let h2 = new_r(2, "pair");
                unsafe { *((p + 8) as *mut u32) = h2 };
            }
            0
        }
        "t:r/imp|many" => {
            // list<r> through the return pointer: (ptr, len); the list memory is allocated for the guest
            let n = a[0] as usize;
            let p = a[1] as usize;
            let buf = if n == 0 {
                4usize
            } else {
                vhost::track(true);
                let b = unsafe { std::alloc::alloc(std::alloc::Layout::from_size_align(4 * n, 4).unwrap()) } as usize;
                vhost::track(false);
                b
            };
            for i in 0..n {
                let h = new_r(100 + i as u32, "many");
                unsafe { *((buf + 4 * i) as *mut u32) = h };
            }
            unsafe { *(p as *mut usize) = buf };
            unsafe { *((p + 8) as *mut usize) = n };
            0
        }
        "[export]t:r/exp|[resource-new]x" => H.with(|s| {
            let mut s = s.borrow_mut();
            s.next_x += 1;
            let h = s.next_x;
            s.x_rep.insert(h, a[0]);
            log!(json!({"ev": "x.new", "h": h, "rep": rep_id(a[0])}));
            h as u64
        }),
        "[export]t:r/exp|[resource-rep]x" => {
            let rep = H.with(|s| s.borrow().x_rep.get(&(a[0] as u32)).copied().unwrap_or(0));
            log!(json!({"ev": "x.rep", "h": a[0] as u32}));
            rep
        }
        "[export]t:r/exp|[resource-drop]x" => {
            // the guest drops an own handle to its own resource: the host runs the destructor
            let rep = H.with(|s| s.borrow().x_rep.get(&(a[0] as u32)).copied());
            log!(json!({"ev": "x.guestdrop", "h": a[0] as u32}));
            if let Some(rep) = rep {
                run_dtor(rep);
            }
            0
        }
        _ => return None,
    })
}

thread_local! { static REPS: RefCell<BTreeMap<u64, u32>> = RefCell::new(BTreeMap::new()); }
/// small stable numbers for rep pointers (32-bit friendly for TLC)
fn rep_id(rep: u64) -> u32 {
    REPS.with(|r| {
        let mut r = r.borrow_mut();
        let n = r.len() as u32 + 1;
        *r.entry(rep).or_insert(n)
    })
}

fn run_dtor(rep: u64) {
    log!(json!({"ev": "x.dtor", "rep": rep_id(rep)}));
    vhost::track(true);
    unsafe { x_dtor(rep as *mut u8) };
    vhost::track(false);
    log!(json!({"ev": "x.dtor-done", "rep": rep_id(rep)}));
}

// ------------------------------------------------------------------ the guest's implementation of exp
thread_local! { static NEXT_ID: RefCell<u32> = RefCell::new(0); }
struct MyX {
    id: u32,
    v: u32,
}
impl Drop for MyX {
    fn drop(&mut self) {
        log!(json!({"ev": "x.destroyed", "id": self.id}));
    }
}
fn fresh(v: u32) -> MyX {
    let id = NEXT_ID.with(|n| {
        *n.borrow_mut() += 1;
        *n.borrow()
    });
    log!(json!({"ev": "x.created", "id": id}));
    MyX { id, v }
}
impl GuestX for MyX {
    fn new(v: u32) -> Self {
        fresh(v)
    }
    fn get(&self) -> u32 {
        log!(json!({"ev": "x.seen", "id": self.id, "f": "get"}));
        self.v
    }
}
struct Impl;
impl Guest for Impl {
    type X = MyX;
    fn take(v: X) -> u32 {
        let m: &MyX = v.get();
        log!(json!({"ev": "x.seen", "id": m.id, "f": "take"}));
        m.v
    }
    fn unwrap(v: X) -> u32 {
        // the guest takes the Rust value out of the handle: from here on it is an ordinary value of the guest's
        let id = v.get::<MyX>().id;
        log!(json!({"ev": "x.seen", "id": id, "f": "unwrap"}));
        log!(json!({"ev": "x.unwrap-begin", "id": id}));
        let m: MyX = v.into_inner();
        log!(json!({"ev": "x.unwrap-end", "id": id}));
        let r = m.v;
        drop(m);
        r
    }
    fn look(v: XBorrow<'_>) -> u32 {
        let m: &MyX = v.get();
        log!(json!({"ev": "x.seen", "id": m.id, "f": "look"}));
        m.v
    }
    fn make(v: u32) -> X {
        X::new(fresh(v))
    }
    fn make_opt(v: u32) -> Option<X> {
        if v % 2 == 0 { Some(X::new(fresh(v))) } else { None }
    }
}
bindings::export!(Impl with_types_in bindings);

// ------------------------------------------------------------------ histories
fn run_history(k: usize, ops: &[Value]) {
    log!(json!({"ev": "history", "k": k}));
    let mut slots: Vec<Option<imp::R>> = (0..8).map(|_| None).collect();
    let mut xs: BTreeMap<u64, u32> = BTreeMap::new(); // host-side key -> handle of an exported x
    for (i, op) in ops.iter().enumerate() {
        let name = op["op"].as_str().unwrap();
        let s = op["s"].as_u64().unwrap_or(0) as usize;
        let key = op["k"].as_u64().unwrap_or(0);
        let v = op["v"].as_u64().unwrap_or(0) as u32;
        log!(json!({"ev": "op", "i": i, "op": name}));
        vhost::track(true);
        match name {
            // ---- guest side: the generated API for imported resources
            "new" => slots[s] = Some(imp::R::new(v)),
            "make" => slots[s] = Some(imp::R::make(v)),
            "get" => {
                slots[s].as_ref().unwrap().get();
            }
            "peek" => {
                imp::peek(slots[s].as_ref().unwrap());
            }
            "consume" => {
                imp::consume(slots[s].take().unwrap());
            }
            "drop" => drop(slots[s].take()),
            "giverec" => {
                imp::give_rec(imp::Rec { a: slots[s].take().unwrap(), b: 5 });
            }
            "givelist" => {
                let l: Vec<imp::R> = op["ss"].as_array().unwrap().iter().map(|x| slots[x.as_u64().unwrap() as usize].take().unwrap()).collect();
                imp::give_list(l);
            }
            "pair" => {
                H.with(|h| h.borrow_mut().pair_some = op["some"].as_bool().unwrap());
                let (a, b) = imp::pair();
                slots[s] = Some(a);
                slots[op["t"].as_u64().unwrap() as usize] = b;
            }
            "many" => {
                let l = imp::many(op["n"].as_u64().unwrap() as u32);
                for (j, r) in l.into_iter().enumerate() {
                    slots[s + j] = Some(r);
                }
            }
            // ---- host side: the real exports
            "xnew" => {
                let h = unsafe { x_ctor(v as i32) } as u32;
                vhost::track(false);
                log!(json!({"ev": "x.host-got", "h": h, "via": "constructor"}));
                xs.insert(key, h);
            }
            "xmake" => {
                let h = unsafe { x_make(v as i32) } as u32;
                vhost::track(false);
                log!(json!({"ev": "x.host-got", "h": h, "via": "make"}));
                xs.insert(key, h);
            }
            "xmakeopt" => {
                let p = unsafe { x_make_opt(v as i32) } as usize;
                vhost::track(false);
                if unsafe { *(p as *const u8) } != 0 {
                    let h = unsafe { *((p + 4) as *const u32) };
                    log!(json!({"ev": "x.host-got", "h": h, "via": "make-opt"}));
                    xs.insert(key, h);
                }
            }
            "xget" | "xlook" => {
                // a borrow of a resource the guest itself exports is passed as its rep
                let h = xs[&key];
                let rep = H.with(|s| s.borrow().x_rep.get(&h).copied().unwrap_or(0));
                log!(json!({"ev": "x.borrow", "h": h, "f": name}));
                if name == "xget" {
                    unsafe { x_get(rep as *mut u8) };
                } else {
                    unsafe { x_look(rep as i32) };
                }
                vhost::track(false);
                log!(json!({"ev": "x.borrow-end", "h": h}));
            }
            "xtake" => {
                let h = xs.remove(&key).unwrap();
                log!(json!({"ev": "x.give", "h": h}));
                unsafe { x_take(h as i32) };
                vhost::track(false);
                log!(json!({"ev": "x.give-end", "h": h}));
            }
            "xunwrap" => {
                let h = xs.remove(&key).unwrap();
                log!(json!({"ev": "x.give", "h": h}));
                unsafe { x_unwrap(h as i32) };
                vhost::track(false);
                log!(json!({"ev": "x.give-end", "h": h}));
            }
            "xdrop" => {
                let h = xs.remove(&key).unwrap();
                vhost::track(false);
                log!(json!({"ev": "x.hostdrop", "h": h}));
                let rep = H.with(|s| s.borrow().x_rep.get(&h).copied().unwrap_or(0));
                run_dtor(rep);
            }
            other => panic!("unknown op {other}"),
        }
        vhost::track(false);
    }
    // end of the history: the guest's values go out of scope, the host drops what it still holds
    log!(json!({"ev": "guest-scope-end"}));
    vhost::track(true);
    drop(slots);
    vhost::track(false);
    for (_, h) in xs {
        log!(json!({"ev": "x.hostdrop", "h": h}));
        let rep = H.with(|s| s.borrow().x_rep.get(&h).copied().unwrap_or(0));
        run_dtor(rep);
    }
    log!(json!({"ev": "history-end", "k": k}));
}

fn main() {
    vhost::init();
    vhost::set_import_handler(host);
    let v = vhost::vector();
    for (k, h) in v["histories"].as_array().unwrap().iter().enumerate() {
        vhost::begin(&format!("history:{k}"));
        vhost::track(false);
        run_history(k, h.as_array().unwrap());
        vhost::end(&format!("history:{k}"));
    }
    vhost::finish();
}
