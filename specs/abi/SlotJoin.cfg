INIT Init
NEXT Next
INVARIANTS RowOK Summary
CHECK_DEADLOCK FALSE
