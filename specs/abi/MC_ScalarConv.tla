--------------------------- MODULE MC_ScalarConv ---------------------------
(* Self-check of ScalarConv: the reference expressions (what a correct generator emits in a  *)
(* C-like language) satisfy LowerOk/LiftOk for every type, and each classical mistake is     *)
(* rejected -- among them `x - 0x100` as the lift of s8 (the form found in the MoonBit       *)
(* backend).  Lift(Lower(v)) = v on the whole range of every type.                           *)
EXTENDS ScalarConv
X == [op |-> "x"]
C(T, e) == [op |-> "conv", to |-> T, e |-> e]
IntTypes == {"u8", "s8", "u16", "s16", "u32", "s32", "char"}
ASSUME \A T \in IntTypes : LowerOk(T, X) /\ LowerOk(T, C("s32", X))
ASSUME \A T \in IntTypes : LiftOk(T, C(T, X))
ASSUME LowerOk("bool", [op |-> "b2i", e |-> X]) /\ LiftOk("bool", [op |-> "ne0", e |-> X])
ASSUME \A T \in IntTypes : \A v \in Range(T) : Lift(T, Lower(T, v)) = v
\* classical mistakes
ASSUME ~LiftOk("s8", [op |-> "sub", e |-> X, k |-> 256])
ASSUME ~LiftOk("s8", C("u8", X)) /\ ~LiftOk("u8", C("s8", X)) /\ ~LiftOk("u8", X) /\ ~LiftOk("s16", C("s8", X))
ASSUME ~LiftOk("bool", [op |-> "ne0", e |-> [op |-> "and", e |-> X, k |-> 1]])          \* only the low bit
ASSUME ~LowerOk("s8", C("u8", X)) /\ ~LowerOk("u16", C("s16", X))
\* a correct branch-free sign extension is accepted
ASSUME LiftOk("s8", [op |-> "asr", k |-> 24, e |-> [op |-> "shl", k |-> 24, e |-> X]])
ASSUME LiftOk("s8", [op |-> "ite", c |-> [op |-> "ge", e |-> [op |-> "and", e |-> X, k |-> 255], k |-> 128],
                      a |-> [op |-> "sub", e |-> [op |-> "and", e |-> X, k |-> 255], k |-> 256], b |-> [op |-> "and", e |-> X, k |-> 255]])
VARIABLE u
Init == u = 0
Next == UNCHANGED u
=============================================================================
