--------------------------- MODULE MC_CoreSurface ---------------------------
(* GEN mode: for every world of WorldGrammar, the expected core surface (CoreSurface).   *)
(* The items mirror vlib/witgen.py::render_world: interface t:w/i with resource r0       *)
(* {constructor, plain, m | s}, optionally a free function f; or world-level f / g.      *)
EXTENDS WorldGrammar, CoreSurface

CONSTANT AsyncAll     \* TRUE: the surface under `--async=all` (every function, constructors included, bound async)

\* boundary worlds: the flattening-limit constructors in every function kind and direction
BoundaryCtors == {"u32", "tuple9", "tuple17"}
InitB == chunk = 0 /\ w = NoW
NextB ==
    /\ w = NoW
    /\ \E ci \in 1..Len(Ctors), ri \in 1..Len(Roles), fi \in 1..Len(FKinds), di \in 1..Len(Dirs) :
         /\ Ctors[ci] \in BoundaryCtors
         /\ w' = [ci |-> ci, wi |-> 1, ri |-> ri, fi |-> fi, di |-> di]
    /\ UNCHANGED chunk

IFACE == "t:w/i"
Ty == Wrap(Wp, TypeOf(C))
Ps == IF R = "param" THEN <<Ty>> ELSE <<>>
Rs == IF R = "result" THEN Ty ELSE NoT
IsAsyncK == FK \in {"async-free", "async-method"}

Func(name, ps, r, a, iface, dir) == [name |-> name, ps |-> ps, r |-> r, async |-> (a \/ AsyncAll), iface |-> iface, dir |-> dir]

\* the functions of interface i in direction d
IfaceFuncs(d) ==
    <<Func("[constructor]r0", IF FK = "ctor" THEN Ps ELSE <<>>, T_own, FALSE, IFACE, d),
      Func("[method]r0.plain", <<T_borrow>>, NoT, FALSE, IFACE, d)>>
    \o (CASE FK \in {"method", "async-method"} /\ D # "world-func" -> <<Func("[method]r0.m", <<T_borrow>> \o Ps, Rs, IsAsyncK, IFACE, d)>>
          [] FK = "static" /\ D # "world-func" -> <<Func("[static]r0.s", Ps, Rs, FALSE, IFACE, d)>>
          [] FK \in {"free", "async-free"} /\ D # "world-func" -> <<Func("f", Ps, Rs, IsAsyncK, IFACE, d)>>
          [] OTHER -> <<>>)

Funcs ==
    CASE D = "import" -> IfaceFuncs("import")
      [] D = "export" -> IfaceFuncs("export")
      [] D = "both" -> IfaceFuncs("import") \o IfaceFuncs("export")
      [] D = "world-func" ->
            IfaceFuncs("import") \o <<Func("f", Ps, Rs, IsAsyncK, "", "import")>>
            \o (IF C = "borrow" THEN <<>> ELSE <<Func("g", Ps, Rs, IsAsyncK, "", "export")>>)

Ress ==
    CASE D \in {"import", "world-func"} -> <<[res |-> "r0", iface |-> IFACE, dir |-> "import"]>>
      [] D = "export" -> <<[res |-> "r0", iface |-> IFACE, dir |-> "export"]>>
      [] D = "both" -> <<[res |-> "r0", iface |-> IFACE, dir |-> "import"], [res |-> "r0", iface |-> IFACE, dir |-> "export"]>>

EmitSurface == (w # NoW /\ ValidCombo(C, Wp, R, FK, D)) =>
    /\ Functional(Imports(Funcs, Ress), Exports(Funcs, Ress))
    /\ PrintT(<<"VEC", ToJson([ctor |-> C, wrap |-> Wp, role |-> R, fkind |-> FK, dir |-> D,
                               t |-> Ty, features |-> Features(C, Wp, R, FK, D),
                               imports |-> Imports(Funcs, Ress), unit |-> UnitIntrinsics, exports |-> Exports(Funcs, Ress)])>>)
=============================================================================
