------------------------------- MODULE CallConv -------------------------------
(* The canonical calling convention (Component Model `flatten_functype`, `canon lift`,      *)
(* `canon lower`, async lift with callback and `task.return`), on top of CanonABI.          *)
(* A function is [ps |-> sequence of parameter types, r |-> result type or NoT].            *)
EXTENDS CanonABI

MAX_FLAT_PARAMS == 16
MAX_FLAT_ASYNC_PARAMS == 4
MAX_FLAT_RESULTS == 1

FlatParams(f, W) == FlattenSeq([i \in 1..Len(f.ps) |-> Flat(f.ps[i], W)])
FlatResult(f, W) == IF IsNone(f.r) THEN <<>> ELSE Flat(f.r, W)

ParamsRecord(f) == [k |-> "tuple", fs |-> f.ps]

\* Core signatures.  dir "lower" = the guest imports the function, "lift" = it exports it.
IndirectParams(f, W, limit) == Len(FlatParams(f, W)) > limit
RetPtr(f, W) == Len(FlatResult(f, W)) > MAX_FLAT_RESULTS

SyncSig(f, W, dir) ==
    LET ps == IF IndirectParams(f, W, MAX_FLAT_PARAMS) THEN <<PtrTy(W)>> ELSE FlatParams(f, W)
    IN IF ~RetPtr(f, W) THEN [params |-> ps, results |-> FlatResult(f, W)]
       ELSE IF dir = "lower" THEN [params |-> ps \o <<PtrTy(W)>>, results |-> <<>>]
       ELSE [params |-> ps, results |-> <<PtrTy(W)>>]

\* async lift with callback: parameters as for a sync lift, the core result is the callback code
AsyncLiftSig(f, W) ==
    [params |-> IF IndirectParams(f, W, MAX_FLAT_PARAMS) THEN <<PtrTy(W)>> ELSE FlatParams(f, W),
     results |-> <<"i32">>]
\* task.return takes the flattened result (same limit as parameters), else one pointer
TaskReturnParams(f, W) ==
    IF Len(FlatResult(f, W)) > MAX_FLAT_PARAMS THEN <<PtrTy(W)>> ELSE FlatResult(f, W)

\* async lower: at most 4 flat parameters, any result goes through an out-pointer, returns status
AsyncLowerSig(f, W) ==
    LET ps == IF IndirectParams(f, W, MAX_FLAT_ASYNC_PARAMS) THEN <<PtrTy(W)>> ELSE FlatParams(f, W)
    IN [params |-> ps \o (IF IsNone(f.r) THEN <<>> ELSE <<PtrTy(W)>>), results |-> <<"i32">>]

-----------------------------------------------------------------------------
\* Values crossing the boundary for arguments `vs` and result `rv`

ParamsFlat(f, vs, W) == LowerFlatSeq(f.ps, vs, W, 0, 1)
ParamsMem(f, vs, W) == Store(ParamsRecord(f), vs, W, 0)
ResultFlat(f, rv, W) == IF IsNone(f.r) THEN [vals |-> <<>>, blocks |-> <<>>] ELSE LowerFlat(f.r, rv, W, 0)
ResultMem(f, rv, W) == IF IsNone(f.r) THEN [cells |-> <<>>, blocks |-> <<>>] ELSE Store(f.r, rv, W, 0)

\* everything a host needs to take part in one synchronous call of f with arguments vs and result rv:
\* `lower` = the guest imports f (canon lower), `lift` = the guest exports it (canon lift)
CallEncoding(f, vs, rv, W) ==
    LET pf == ParamsFlat(f, vs, W)
        pm == ParamsMem(f, vs, W)
        rf == ResultFlat(f, rv, W)
        rm == ResultMem(f, rv, W)
        common == [indirect |-> IndirectParams(f, W, MAX_FLAT_PARAMS), retptr |-> RetPtr(f, W),
                   \* async lower (C08): at most 4 flat parameters, else one pointer to the parameter record; a result always
                   \* goes through an out-pointer.  task.return of a result r is encoded like the parameters of g(r) (limit 16).
                   asyncIndirect |-> IndirectParams(f, W, MAX_FLAT_ASYNC_PARAMS),
                   paramsFlat |-> pf.vals, paramsFlatBlocks |-> pf.blocks,
                   paramsMem |-> pm.cells, paramsMemBlocks |-> pm.blocks,
                   paramsSize |-> Size(ParamsRecord(f), W), paramsAlign |-> Align(ParamsRecord(f), W),
                   resFlat |-> rf.vals, resFlatBlocks |-> rf.blocks,
                   resMem |-> rm.cells, resMemBlocks |-> rm.blocks,
                   resSize |-> IF IsNone(f.r) THEN 0 ELSE Size(f.r, W), resAlign |-> IF IsNone(f.r) THEN 1 ELSE Align(f.r, W)]
    IN [lower |-> [sig |-> SyncSig(f, W, "lower")] @@ common, lift |-> [sig |-> SyncSig(f, W, "lift")] @@ common]
=============================================================================
