------------------------------- MODULE SlotJoin -------------------------------
(* Variant payload slot joining (property C04).                                             *)
(*                                                                                          *)
(* Canonical ABI: when the cases of a variant flatten to different core types in the same   *)
(* slot, the slot gets join(a, b) (same type; i32 for {i32, f32}; otherwise i64) and values  *)
(* are converted by reinterpretation, zero-extension (lowering) and wrapping (lifting).      *)
(* wit-parser refines i32/i64 into provenance classes (Pointer, Length, PointerOrI64); their *)
(* meaning at pointer width W is given by Erase.                                             *)
(*                                                                                          *)
(* This module validates *observations of the real code* (VAL mode, file OBS):               *)
(*   {"kind":"cast","from":c,"to":d,"tree":T}   the Bitcast tree abi::cast(c, d) returns,     *)
(*                                              or {"panic":true}                            *)
(*   {"kind":"shape","cases":[[c..],..],"joined":[j..]}  the flat classes of each case        *)
(*                                              payload and of the variant's payload slots    *)
EXTENDS Integers, Sequences, FiniteSets, TLC, Json, IOUtils

Classes == {"I32", "I64", "F32", "F64", "Pointer", "Length", "PointerOrI64"}

Erase(c, W) == CASE c = "I32" -> "i32" [] c = "I64" -> "i64" [] c = "F32" -> "f32" [] c = "F64" -> "f64"
                 [] c \in {"Pointer", "Length"} -> (IF W = 4 THEN "i32" ELSE "i64")
                 [] c = "PointerOrI64" -> "i64"
Bytes(core) == IF core \in {"i32", "f32"} THEN 4 ELSE 8

\* the canonical ABI's join on core types
Join(a, b) == IF a = b THEN a ELSE IF {a, b} = {"i32", "f32"} THEN "i32" ELSE "i64"

\* the canonical conversion between two core types: reinterpret / zero-extend / wrap
Canon(from, to, bs) ==
    IF Bytes(from) = Bytes(to) THEN bs
    ELSE IF Bytes(from) < Bytes(to) THEN bs \o <<0, 0, 0, 0>>
    ELSE SubSeq(bs, 1, 4)

\* what each primitive Bitcast converts between, at pointer width W
PrimFromTo(op, W) ==
    LET p == IF W = 4 THEN "i32" ELSE "i64" IN
    CASE op = "F32ToI32" -> <<"f32", "i32">> [] op = "F64ToI64" -> <<"f64", "i64">>
      [] op = "I32ToI64" -> <<"i32", "i64">> [] op = "F32ToI64" -> <<"f32", "i64">>
      [] op = "I32ToF32" -> <<"i32", "f32">> [] op = "I64ToF64" -> <<"i64", "f64">>
      [] op = "I64ToI32" -> <<"i64", "i32">> [] op = "I64ToF32" -> <<"i64", "f32">>
      [] op = "P64ToI64" -> <<"i64", "i64">> [] op = "I64ToP64" -> <<"i64", "i64">>
      [] op = "P64ToP" -> <<"i64", p>> [] op = "PToP64" -> <<p, "i64">>
      [] op = "I32ToP" -> <<"i32", p>> [] op = "PToI32" -> <<p, "i32">>
      [] op = "PToL" -> <<p, p>> [] op = "LToP" -> <<p, p>>
      [] op = "I32ToL" -> <<"i32", p>> [] op = "LToI32" -> <<p, "i32">>
      [] op = "I64ToL" -> <<"i64", p>> [] op = "LToI64" -> <<p, "i64">>

\* A tree is type-correct from core type `from`, yielding its output core type ("bad" if not)
RECURSIVE TreeOut(_, _, _)
TreeOut(t, from, W) ==
    IF t.op = "None" THEN from
    ELSE IF t.op = "Sequence"
         THEN LET m == TreeOut(t.a, from, W) IN IF m = "bad" THEN "bad" ELSE TreeOut(t.b, m, W)
    ELSE IF PrimFromTo(t.op, W)[1] = from THEN PrimFromTo(t.op, W)[2] ELSE "bad"

RECURSIVE TreeApply(_, _, _, _)
TreeApply(t, from, bs, W) ==
    IF t.op = "None" THEN bs
    ELSE IF t.op = "Sequence"
         THEN TreeApply(t.b, TreeOut(t.a, from, W), TreeApply(t.a, from, bs, W), W)
    ELSE Canon(PrimFromTo(t.op, W)[1], PrimFromTo(t.op, W)[2], bs)

\* distinct non-zero bytes: compositions of reinterpret / zero-extend / wrap are byte
\* projections, so one such pattern (plus all-0xFF for sign effects) decides their equality
Patterns(core) == IF Bytes(core) = 4 THEN {<<1, 2, 3, 132>>, <<255, 255, 255, 255>>, <<0, 0, 0, 0>>}
                  ELSE {<<1, 2, 3, 132, 5, 6, 7, 136>>, <<255, 255, 255, 255, 255, 255, 255, 255>>, <<0, 0, 0, 0, 0, 0, 0, 0>>}

-----------------------------------------------------------------------------
Obs == ndJsonDeserialize(IOEnv.OBS)
CastRows == { i \in 1..Len(Obs) : Obs[i].kind = "cast" }
ShapeRows == { i \in 1..Len(Obs) : Obs[i].kind = "shape" }
CastOf(c, d) == LET i == CHOOSE i \in CastRows : Obs[i].from = c /\ Obs[i].to = d IN Obs[i].tree
Panics(t) == "panic" \in DOMAIN t

\* (case class, joined class) pairs that some valid variant type produces
PairsOfShape(o) ==
    UNION { { <<o.cases[c][s], o.joined[s]>> : s \in 1..Len(o.cases[c]) } : c \in 1..Len(o.cases) }
ReachablePairs == UNION { PairsOfShape(Obs[k]) : k \in ShapeRows }

VARIABLE row
Init == row = 1
Next == row < Len(Obs) /\ row' = row + 1

\* every observed shape: the joined class means join of the case classes, at both widths
ShapeOK(o) ==
    \A W \in {4, 8} : \A s \in 1..Len(o.joined) :
        LET present == { c \in 1..Len(o.cases) : s <= Len(o.cases[c]) }
            RECURSIVE JoinAll(_, _)
            JoinAll(S, acc) == IF S = {} THEN acc
                               ELSE LET c == CHOOSE c \in S : TRUE
                                    IN JoinAll(S \ {c}, IF acc = "" THEN Erase(o.cases[c][s], W) ELSE Join(acc, Erase(o.cases[c][s], W)))
        IN Erase(o.joined[s], W) = JoinAll(present, "")

\* every cast the generator may need: defined, well typed, canonical, lossless
CastOK(c, j) ==
    LET up == CastOf(c, j)
        down == CastOf(j, c)
    IN /\ ~Panics(up) /\ ~Panics(down)
       /\ \A W \in {4, 8} :
            LET fc == Erase(c, W)
                fj == Erase(j, W)
            IN /\ TreeOut(up, fc, W) = fj
               /\ TreeOut(down, fj, W) = fc
               /\ \A bs \in Patterns(fc) :
                    /\ TreeApply(up, fc, bs, W) = Canon(fc, fj, bs)
                    /\ TreeApply(down, fj, TreeApply(up, fc, bs, W), W) = bs
               /\ \A bs \in Patterns(fj) : TreeApply(down, fj, bs, W) = Canon(fj, fc, bs)

RowOK ==
    LET o == Obs[row] IN
    IF o.kind = "shape" THEN ShapeOK(o) \/ Print(<<"BADSHAPE", ToJson(o)>>, FALSE)
    ELSE IF <<o.from, o.to>> \in ReachablePairs
         THEN CastOK(o.from, o.to) \/ Print(<<"BADCAST", ToJson(o)>>, FALSE)
         ELSE TRUE

\* sanity: the observations contain what the check needs (fail closed)
ASSUME Cardinality(CastRows) = 49
ASSUME Cardinality(ShapeRows) >= 100
ASSUME Cardinality(ReachablePairs) >= 20
Summary == row = Len(Obs) => PrintT(<<"SUMMARY", ToJson([reachable |-> ReachablePairs, casts |-> Cardinality(CastRows), shapes |-> Cardinality(ShapeRows)])>>)
=============================================================================
