----------------------------- MODULE MC_CallConv -----------------------------
(* Bounded universe of function signatures crossing the flat-parameter (16), async flat-    *)
(* parameter (4) and flat-result (1) limits from both sides; vector emission for abi-interp. *)
EXTENDS CallConv, CanonValues, Json
CONSTANTS NChunks, Deep

U8 == P("u8")
Singles == <<P("u8"), P("f64"), P("u64"), [k |-> "own", r |-> 0], P("s16"), P("char"), P("f32"), P("bool")>>
Tup3 == [k |-> "tuple", fs |-> <<P("u32"), P("u64"), P("f32")>>]
Rec16 == [k |-> "record", fs |-> [i \in 1..16 |-> IF i % 3 = 0 THEN P("u32") ELSE U8]]
Rec17 == [k |-> "record", fs |-> [i \in 1..17 |-> IF i % 4 = 0 THEN P("u16") ELSE U8]]
OptStr == [k |-> "option", t |-> P("string")]
LU8 == [k |-> "list", t |-> U8]
LStr == [k |-> "list", t |-> P("string")]
VarJ == [k |-> "variant", cs |-> <<P("f32"), P("u64"), P("string")>>]

RepeatT(t, n) == [i \in 1..n |-> t]
ParamLists ==
    [n \in 1..21 |-> [i \in 1..(n - 1) |-> Singles[((i - 1) % Len(Singles)) + 1]]]     \* 0..20 one-slot params
    \o << RepeatT(P("string"), 2), RepeatT(P("string"), 3), RepeatT(P("string"), 8), RepeatT(P("string"), 9),
          RepeatT(Tup3, 1), RepeatT(Tup3, 2), RepeatT(Tup3, 5), RepeatT(Tup3, 6),
          <<Rec16>>, <<Rec16, U8>>, <<U8, Rec16>>, <<Rec17>>, <<OptStr>>, <<OptStr, U8>>, <<OptStr, P("u64")>>,
          <<LU8, LStr>>, <<LStr, OptStr, VarJ>>, <<VarJ, U8>>, <<P("string"), P("u64"), P("u8")>>,
          <<U8, P("u64"), U8, P("string"), P("f32")>>,
          RepeatT(LStr, 8) \o <<U8>>, <<Rec16, P("string")>>, <<VarJ, VarJ, VarJ, VarJ, VarJ>> >>
Results == <<NoT, U8, P("f32"), P("u64"), P("string"), Tup3, Rec17, OptStr, [k |-> "own", r |-> 0], LStr, VarJ,
             [k |-> "result", ok |-> P("string"), err |-> U8], Rec16>>

Funcs == FlattenSeq([i \in 1..Len(ParamLists) |-> [j \in 1..Len(Results) |-> [ps |-> ParamLists[i], r |-> Results[j]]]])

\* values: parameter j takes value number (j + shift) of its type's boundary set
ArgVals(f, shift) == [j \in 1..Len(f.ps) |-> Cyc(Vals(f.ps[j]), j + shift)]
ResVal(f, shift) == IF IsNone(f.r) THEN NoV ELSE Cyc(Vals(f.r), 1 + shift)

VARIABLES chunk, vec
NoVec == [fi |-> 0]
Shifts == IF Deep THEN {0, 1, 2, 3} ELSE {0, 2}
Init == chunk \in 0..(NChunks - 1) /\ vec = NoVec
Next == /\ vec = NoVec
        /\ \E fi \in 1..Len(Funcs) : /\ fi % NChunks = chunk
                                      /\ \E W \in {4, 8}, sh \in Shifts : vec' = [fi |-> fi, W |-> W, sh |-> sh]
        /\ UNCHANGED chunk

F == Funcs[vec.fi]

\* the limits are crossed from both sides somewhere in the universe (non-vacuity)
CountFlat(n) == \E i \in 1..Len(ParamLists) : Len(FlatParams([ps |-> ParamLists[i], r |-> NoT], 4)) = n
ASSUME \A n \in {0, 1, 3, 4, 5, 15, 16, 17, 18, 20} : CountFlat(n)
ASSUME \E j \in 1..Len(Results) : Len(FlatResult([ps |-> <<>>, r |-> Results[j]], 4)) = 16
ASSUME \E j \in 1..Len(Results) : Len(FlatResult([ps |-> <<>>, r |-> Results[j]], 4)) = 17

Emit ==
    vec # NoVec =>
      LET W == vec.W
          vs == ArgVals(F, vec.sh)
          rv == ResVal(F, vec.sh)
          pf == ParamsFlat(F, vs, W)
          pm == ParamsMem(F, vs, W)
          rf == ResultFlat(F, rv, W)
          rm == ResultMem(F, rv, W)
      IN PrintT(<<"VEC", ToJson([
            fi |-> vec.fi, W |-> W, sh |-> vec.sh, ps |-> F.ps, r |-> F.r, args |-> vs, res |-> rv,
            nflat |-> Len(FlatParams(F, W)), nres |-> Len(FlatResult(F, W)),
            lowerSig |-> SyncSig(F, W, "lower"), liftSig |-> SyncSig(F, W, "lift"),
            asyncLiftSig |-> AsyncLiftSig(F, W), asyncLowerSig |-> AsyncLowerSig(F, W),
            taskReturn |-> TaskReturnParams(F, W),
            indirect |-> IndirectParams(F, W, MAX_FLAT_PARAMS), retptr |-> RetPtr(F, W),
            paramsFlat |-> pf.vals, paramsFlatBlocks |-> pf.blocks,
            paramsMem |-> pm.cells, paramsMemBlocks |-> pm.blocks,
            paramsSize |-> Size(ParamsRecord(F), W), paramsAlign |-> Align(ParamsRecord(F), W),
            resFlat |-> rf.vals, resFlatBlocks |-> rf.blocks,
            resMem |-> rm.cells, resMemBlocks |-> rm.blocks,
            resSize |-> IF IsNone(F.r) THEN 0 ELSE Size(F.r, W), resAlign |-> IF IsNone(F.r) THEN 1 ELSE Align(F.r, W)])>>)
=============================================================================
