--------------------------- MODULE Obs_ScalarConv ---------------------------
(* Judges the conversion expressions extracted from generated code (property C14).        *)
(* An observation: [id, T, role ("lower" | "lift"), e (a term of ScalarConv)].             *)
EXTENDS ScalarConv, Json, IOUtils
Obs == ndJsonDeserialize(IOEnv.OBS)
VARIABLE i
Init == i = 1
Next == i < Len(Obs) /\ i' = i + 1
Ok(o) == IF o.role = "lower" THEN LowerOk(o.T, o.e) ELSE LiftOk(o.T, o.e)
\* up to four counterexamples: [input, what the expression yields, what the canonical ABI says]
Take4(S) == IF Cardinality(S) <= 4 THEN S ELSE LET a == CHOOSE x \in S : TRUE
                                                   b == CHOOSE x \in S \ {a} : TRUE
                                                   c == CHOOSE x \in S \ {a, b} : TRUE
                                                   d == CHOOSE x \in S \ {a, b, c} : TRUE IN {a, b, c, d}
Cex(o) == IF ~MasksOk(o.e) THEN {<<"mask", 0, 0>>}
          ELSE IF o.role = "lower" THEN {<<v, Eval(o.e, v), Lower(o.T, v)>> : v \in Take4(LowerBad(o.T, o.e))}
          ELSE {<<v, Eval(o.e, v), Lift(o.T, v)>> : v \in Take4(LiftBad(o.T, o.e))}
Inv == Ok(Obs[i]) \/ Print(<<"MISMATCH", ToJson([id |-> Obs[i].id, cex |-> Cex(Obs[i])])>>, FALSE)
=============================================================================
