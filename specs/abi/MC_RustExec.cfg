CONSTANTS
  NChunks = 16
  Deep = FALSE
INIT Init
NEXT Next
INVARIANT Emit
CHECK_DEADLOCK FALSE
