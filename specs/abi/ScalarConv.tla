----------------------------- MODULE ScalarConv -----------------------------
(* Scalar conversions between WIT values and core wasm values (canonical ABI), property C14. *)
(*                                                                                           *)
(* Canonical mapping (CanonicalABI: lower_flat / lift_flat for bool, integers, char):        *)
(*   lower:  unsigned -> zero-extended i32, signed -> sign-extended i32, char -> its scalar  *)
(*           value, bool -> 0/1; 64-bit integers and floats are reinterpreted bit-exactly    *)
(*   lift:   from ANY i32: unsigned n-bit = i mod 2^n, signed n-bit = the low n bits read    *)
(*           as two's complement, bool = (i # 0), char = i                                   *)
(* An i32 is represented by its signed value (TLC integers are exactly that range).          *)
(*                                                                                           *)
(* Conversion expressions extracted from generated code are terms of a small language:       *)
(*   [op |-> "x"]                         the operand                                        *)
(*   [op |-> "conv", to |-> T, e |-> E]   numeric conversion with wrap-around to integer     *)
(*                                        type T ("u8","s8","u16","s16","u32","s32","char")  *)
(*   [op |-> "sub", e, k]  [op |-> "add", e, k]  [op |-> "and", e, k]   arithmetic on ints   *)
(*   [op |-> "ne0", e]     int -> bool        [op |-> "b2i", e]  bool -> 1/0                 *)
(*   [op |-> "ite", c, a, b]                  conditional (c a bool term)                    *)
(*   [op |-> "ge", e, k]   [op |-> "lt", e, k]  comparisons with a constant -> bool          *)
(*   [op |-> "shl", e, k]  [op |-> "asr", e, k]  shifts on 32-bit ints                        *)
(*   [op |-> "lit", v]                        integer literal                                *)
EXTENDS Integers, Sequences, FiniteSets, TLC

Pow2(n) == 2 ^ n
WrapU(v, n) == ((v % Pow2(n)) + Pow2(n)) % Pow2(n)
WrapS(v, n) == LET u == WrapU(v, n) IN IF u >= Pow2(n - 1) THEN u - Pow2(n) ELSE u
Bits(T) == CASE T \in {"u8", "s8"} -> 8 [] T \in {"u16", "s16"} -> 16 [] T \in {"u32", "s32", "char"} -> 32
IsSigned(T) == T \in {"s8", "s16", "s32"}
\* 32-bit types: every i32 is already in range (an u32 is represented by its bit pattern)
Conv(T, v) == IF Bits(T) = 32 THEN v ELSE IF IsSigned(T) THEN WrapS(v, Bits(T)) ELSE WrapU(v, Bits(T))

\* bitwise and with a non-negative mask of the form 2^n - 1 (the only masks generators use)
MaskBits(k) == CHOOSE n \in 0..31 : Pow2(n) - 1 = k
IsMask(k) == \E n \in 0..31 : Pow2(n) - 1 = k
And(v, k) == WrapU(v, MaskBits(k))

RECURSIVE Eval(_, _)
Eval(e, x) ==
    CASE e.op = "x" -> x
      [] e.op = "lit" -> e.v
      [] e.op = "conv" -> Conv(e.to, Eval(e.e, x))
      [] e.op = "sub" -> Eval(e.e, x) - e.k
      [] e.op = "add" -> Eval(e.e, x) + e.k
      [] e.op = "and" -> And(Eval(e.e, x), e.k)
      [] e.op = "ne0" -> Eval(e.e, x) # 0
      [] e.op = "b2i" -> IF Eval(e.e, x) THEN 1 ELSE 0
      [] e.op = "ge" -> Eval(e.e, x) >= e.k
      [] e.op = "lt" -> Eval(e.e, x) < e.k
      [] e.op = "ite" -> IF Eval(e.c, x) THEN Eval(e.a, x) ELSE Eval(e.b, x)
      [] e.op = "shl" -> LET u == WrapU(Eval(e.e, x), 32 - e.k)          \* the bits that survive, then two's complement, without overflowing
                         IN (IF u >= Pow2(31 - e.k) THEN u - Pow2(32 - e.k) ELSE u) * Pow2(e.k)
      [] e.op = "asr" -> (Eval(e.e, x) - WrapU(Eval(e.e, x), e.k)) \div Pow2(e.k)

RECURSIVE MasksOk(_)
MasksOk(e) == CASE e.op \in {"x", "lit"} -> TRUE
                [] e.op = "and" -> IsMask(e.k) /\ MasksOk(e.e)
                [] e.op = "ite" -> MasksOk(e.c) /\ MasksOk(e.a) /\ MasksOk(e.b)
                [] OTHER -> MasksOk(e.e)

\* ---- the canonical mapping
Range(T) == CASE T = "bool" -> {FALSE, TRUE}
              [] T = "u8" -> 0..255 [] T = "s8" -> -128..127
              [] T = "u16" -> {0, 1, 2, 255, 256, 257, 32767, 32768, 32769, 65534, 65535} \cup {k * 257 : k \in 0..255}
              [] T = "s16" -> {0, 1, -1, 127, 128, -128, -129, 255, 256, 32767, -32768, -32767} \cup {k * 129 - 16000 : k \in 0..255}
              [] T = "u32" -> {0, 1, 255, 256, 65535, 65536, 2147483647, -1, -2147483647, -256}       \* bit patterns
              [] T = "s32" -> {0, 1, -1, 255, 256, 65535, 65536, 2147483647, -2147483647, -256}
              [] T = "char" -> {0, 65, 127, 128, 255, 256, 55295, 57344, 65535, 65536, 1114111}
Lower(T, v) == IF T = "bool" THEN (IF v THEN 1 ELSE 0) ELSE v
\* i32 inputs for a lift: every low part under several patterns of the bits above the type's width
HighPatterns == {0, 256, 65536 + 1280, 50331648, -2146435072, -65536, -256}
LowParts(T) == CASE T \in {"u8", "s8", "bool"} -> 0..255
                 [] T \in {"u16", "s16"} -> {0, 1, 255, 256, 32767, 32768, 65535} \cup {k * 257 : k \in 0..255}
                 [] OTHER -> {0}
LiftInputs(T) ==
    CASE T \in {"u32", "s32"} -> Range(T)
      [] T = "char" -> Range("char")
      [] T = "bool" -> {0, 1, 2, 255, 256, 65536, -1, -2147483647, 2147483647}
      [] OTHER -> {h + l : h \in {p \in HighPatterns : p % Pow2(Bits(T)) = 0}, l \in LowParts(T)}
Lift(T, i) == CASE T = "bool" -> i # 0
                [] T \in {"u32", "s32", "char"} -> i
                [] OTHER -> Conv(T, i)

\* the i32 a lowered expression denotes, whatever 32-bit integer type the target language gives it
\* (every TLC integer is a 32-bit two's complement value, so equality of integers is equality of i32 bit patterns)
LowerOk(T, e) == MasksOk(e) /\ \A v \in Range(T) : Eval(e, v) = Lower(T, v)
LiftOk(T, e) == MasksOk(e) /\ \A i \in LiftInputs(T) : Eval(e, i) = Lift(T, i)
LowerBad(T, e) == {v \in Range(T) : Eval(e, v) # Lower(T, v)}
LiftBad(T, e) == {i \in LiftInputs(T) : Eval(e, i) # Lift(T, i)}

\* 64-bit integers and floats: the conversion must be a pure reinterpretation (casts between same-width types only)
RECURSIVE PureCast(_)
PureCast(e) == e.op = "x" \/ (e.op = "conv64" /\ PureCast(e.e))
=============================================================================
