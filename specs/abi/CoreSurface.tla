----------------------------- MODULE CoreSurface -----------------------------
(* The core-wasm surface (imports and exports with their core signatures) that the          *)
(* Component Model's legacy name mangling ("BuildTargets.md" / wit-component `Legacy`)      *)
(* assigns to the items of a world, on top of CallConv (which gives the signatures).        *)
(*                                                                                          *)
(* An item is a function                                                                    *)
(*    [name, ps, r, async, iface, dir]    name: the component-level function name           *)
(*                                        ("f", "[method]r0.m", "[static]r0.s",             *)
(*                                        "[constructor]r0"), iface: "" for a world-level    *)
(*                                        function else the interface's world key, dir:      *)
(*                                        "import" | "export"                               *)
(* or a resource [res, iface, dir].                                                         *)
(* Property C13: what a backend declares must be drawn from Imports(..), must contain       *)
(* RequiredExports(..), and must not export anything outside AllowedExports(..).            *)
EXTENDS CallConv

PW == 4     \* wasm32

Mod(iface) == IF iface = "" THEN "$root" ELSE iface
ExpMod(iface) == "[export]" \o Mod(iface)
ExportBase(F) == IF F.iface = "" THEN F.name ELSE F.iface \o "#" \o F.name
Fn(F) == [ps |-> F.ps, r |-> F.r]
Sig(p, r) == [params |-> p, results |-> r]
Imp(m, n, s) == [module |-> m, name |-> n, params |-> s.params, results |-> s.results]
Exp(n, s, req) == [name |-> n, params |-> s.params, results |-> s.results, required |-> req]

-----------------------------------------------------------------------------
\* future/stream payload sites of a function: post-order over the parameters, then the result
RECURSIVE Sites(_)
Sites(t) ==
    CASE IsNone(t) -> <<>>
      [] t.k \in {"list", "flist", "option"} -> Sites(t.t)
      [] t.k = "map" -> Sites(t.key) \o Sites(t.val)
      [] IsRecordLike(t) -> FlattenSeq([i \in 1..Len(t.fs) |-> Sites(t.fs[i])])
      [] t.k = "variant" -> FlattenSeq([i \in 1..Len(t.cs) |-> Sites(t.cs[i])])
      [] t.k = "result" -> Sites(t.ok) \o Sites(t.err)
      [] t.k \in {"future", "stream"} -> Sites(t.t) \o <<t.k>>
      [] OTHER -> <<>>
FuncSites(F) == FlattenSeq([i \in 1..Len(F.ps) |-> Sites(F.ps[i])]) \o Sites(F.r)

Dec(i) == CASE i = 0 -> "0" [] i = 1 -> "1" [] i = 2 -> "2" [] i = 3 -> "3" [] i = 4 -> "4" [] i = 5 -> "5" [] i = 6 -> "6" [] i = 7 -> "7"

\* the intrinsics of payload site number i (0-based) of kind k, for function name fname
SiteIntrinsics(m, k, i, fname) ==
    LET nm(op) == "[" \o k \o "-" \o op \o "-" \o Dec(i) \o "]" \o fname
        rw == IF k = "future" THEN Sig(<<"i32", "i32">>, <<"i32">>) ELSE Sig(<<"i32", "i32", "i32">>, <<"i32">>)
        cancel == Sig(<<"i32">>, <<"i32">>)
        drop == Sig(<<"i32">>, <<>>)
    IN {Imp(m, nm("new"), Sig(<<>>, <<"i64">>)),
        Imp(m, nm("read"), rw), Imp(m, "[async-lower]" \o nm("read"), rw),
        Imp(m, nm("write"), rw), Imp(m, "[async-lower]" \o nm("write"), rw),
        Imp(m, nm("cancel-read"), cancel), Imp(m, "[async-lower]" \o nm("cancel-read"), cancel),
        Imp(m, nm("cancel-write"), cancel), Imp(m, "[async-lower]" \o nm("cancel-write"), cancel),
        Imp(m, nm("drop-readable"), drop), Imp(m, nm("drop-writable"), drop)}
SiteIntrinsicsNamed(k) ==
    LET nm(op) == "[" \o k \o "-" \o op \o "-unit]"
        rw == IF k = "future" THEN Sig(<<"i32", "i32">>, <<"i32">>) ELSE Sig(<<"i32", "i32", "i32">>, <<"i32">>)
        cancel == Sig(<<"i32">>, <<"i32">>)
        drop == Sig(<<"i32">>, <<>>)
        U(n, sg) == [prefix |-> n, params |-> sg.params, results |-> sg.results]
    IN {U(nm("new"), Sig(<<>>, <<"i64">>)),
        U(nm("read"), rw), U("[async-lower]" \o nm("read"), rw),
        U(nm("write"), rw), U("[async-lower]" \o nm("write"), rw),
        U(nm("cancel-read"), cancel), U("[async-lower]" \o nm("cancel-read"), cancel),
        U(nm("cancel-write"), cancel), U("[async-lower]" \o nm("cancel-write"), cancel),
        U(nm("drop-readable"), drop), U(nm("drop-writable"), drop)}
PayloadIntrinsics(F, m) ==
    LET s == FuncSites(F) IN UNION {SiteIntrinsics(m, s[i], i - 1, F.name) : i \in 1..Len(s)}

\* "unit" payload intrinsics: `[stream-new-unit]<anything>` etc. name the payload-less future/stream
\* type itself, not a site of a function; they are valid in every import module of the world and the
\* text after the bracket is not interpreted (wit-component `prefixed_payload`).
UnitIntrinsics ==
    UNION {SiteIntrinsicsNamed(k) : k \in {"future", "stream"}}

-----------------------------------------------------------------------------
FuncImports(F) ==
    IF F.dir = "import"
    THEN {Imp(Mod(F.iface), (IF F.async THEN "[async-lower]" ELSE "") \o F.name,
              IF F.async THEN AsyncLowerSig(Fn(F), PW) ELSE SyncSig(Fn(F), PW, "lower"))}
         \cup PayloadIntrinsics(F, Mod(F.iface))
    ELSE (IF F.async THEN {Imp(ExpMod(F.iface), "[task-return]" \o F.name, Sig(TaskReturnParams(Fn(F), PW), <<>>))} ELSE {})
         \cup PayloadIntrinsics(F, ExpMod(F.iface))

FuncExports(F) ==
    IF F.dir = "import" THEN {}
    ELSE IF F.async
    THEN {Exp("[async-lift]" \o ExportBase(F), AsyncLiftSig(Fn(F), PW), TRUE),
          Exp("[callback][async-lift]" \o ExportBase(F), Sig(<<"i32", "i32", "i32">>, <<"i32">>), TRUE)}
    ELSE LET s == SyncSig(Fn(F), PW, "lift")
         IN {Exp(ExportBase(F), s, TRUE), Exp("cabi_post_" \o ExportBase(F), Sig(s.results, <<>>), FALSE)}

ResImports(R) ==
    IF R.dir = "import" THEN {Imp(Mod(R.iface), "[resource-drop]" \o R.res, Sig(<<"i32">>, <<>>))}
    ELSE {Imp(ExpMod(R.iface), "[resource-drop]" \o R.res, Sig(<<"i32">>, <<>>)),
          Imp(ExpMod(R.iface), "[resource-new]" \o R.res, Sig(<<"i32">>, <<"i32">>)),
          Imp(ExpMod(R.iface), "[resource-rep]" \o R.res, Sig(<<"i32">>, <<"i32">>))}
ResExports(R) ==
    IF R.dir = "import" THEN {}
    ELSE {Exp((IF R.iface = "" THEN "" ELSE R.iface \o "#") \o "[dtor]" \o R.res, Sig(<<"i32">>, <<>>), FALSE)}

\* exports every module may have besides the world's own
Builtins == {Exp("cabi_realloc", Sig(<<"i32", "i32", "i32", "i32">>, <<"i32">>), FALSE), Exp("_initialize", Sig(<<>>, <<>>), FALSE)}

Imports(funcs, ress) == UNION {FuncImports(funcs[i]) : i \in 1..Len(funcs)} \cup UNION {ResImports(ress[i]) : i \in 1..Len(ress)}
Exports(funcs, ress) == UNION {FuncExports(funcs[i]) : i \in 1..Len(funcs)} \cup UNION {ResExports(ress[i]) : i \in 1..Len(ress)} \cup Builtins

\* internal consistency: a (module, name) or export name is assigned exactly one signature
Functional(imps, exps) ==
    /\ \A a, b \in imps : (a.module = b.module /\ a.name = b.name) => a = b
    /\ \A a, b \in exps : a.name = b.name => a = b
=============================================================================
