------------------------------- MODULE CanonABI -------------------------------
(* The Component Model canonical ABI for values, written from the Component Model's         *)
(* CanonicalABI explainer (despecialize / alignment / elem_size / flatten / store / load /   *)
(* lower_flat / lift_flat), *not* from wit-bindgen or wit-parser.                            *)
(*                                                                                          *)
(* Used as an executable oracle (DESIGN.md 2.1 GEN/VAL): TLC evaluates these operators on    *)
(* a bounded universe of (type, value, pointer width) and the results are compared with      *)
(* what the real generator's instruction stream does (properties C01, C02, C03, C04).        *)
(*                                                                                          *)
(* Types   [k |-> "bool"|"u8"|"s8"|"u16"|"s16"|"u32"|"s32"|"u64"|"s64"|"f32"|"f64"|"char"|    *)
(*               "string"|"errctx"]                                                          *)
(*         [k |-> "list", t], [k |-> "flist", t, n], [k |-> "map", key, val],                *)
(*         [k |-> "record", fs], [k |-> "tuple", fs], [k |-> "variant", cs] (case: type/NoT),*)
(*         [k |-> "enum", n], [k |-> "option", t], [k |-> "result", ok, err] (type/NoT),     *)
(*         [k |-> "flags", n], [k |-> "own"|"borrow", r], [k |-> "future"|"stream", t]       *)
(* Values  integers, floats (bit patterns), chars, handles: little-endian byte sequences of  *)
(*         the type's width (TLC integers are 32-bit); bool: TRUE/FALSE; string: UTF-8 bytes;*)
(*         list/flist/record/tuple: sequences; map: sequence of <<k, v>>; enum: case index;  *)
(*         variant: [c, v]; option: [some, v]; result: [ok, v]; flags: sequence of BOOLEAN.  *)
(*         NoV is the absent payload.                                                        *)
EXTENDS Integers, Sequences, FiniteSets, TLC

NoT == [k |-> "none"]
NoV == [none |-> TRUE]

Prims == <<"bool", "u8", "s8", "u16", "s16", "u32", "s32", "u64", "s64", "f32", "f64", "char", "string", "errctx">>
P(k) == [k |-> k]

IsNone(t) == t.k = "none"

-----------------------------------------------------------------------------
\* Arithmetic helpers

Max(a, b) == IF a > b THEN a ELSE b
AlignTo(n, a) == ((n + a - 1) \div a) * a

RECURSIVE Repeat(_, _)
Repeat(x, n) == IF n <= 0 THEN <<>> ELSE <<x>> \o Repeat(x, n - 1)

\* little-endian k bytes of a natural number below 2^31
RECURSIVE LE(_, _)
LE(n, k) == IF k = 0 THEN <<>> ELSE <<n % 256>> \o LE(n \div 256, k - 1)

RECURSIVE FlattenSeq(_)
FlattenSeq(ss) == IF ss = <<>> THEN <<>> ELSE Head(ss) \o FlattenSeq(Tail(ss))

RECURSIVE MaxOver(_, _, _)
MaxOver(Op(_), s, acc) == IF s = <<>> THEN acc ELSE MaxOver(Op, Tail(s), Max(acc, Op(Head(s))))

-----------------------------------------------------------------------------
\* despecialize: tuple -> record, enum -> variant, option/result -> variant,
\* map<K,V> -> list<tuple<K,V>>.  (flags keep their own rules.)

VariantCases(t) ==
    CASE t.k = "variant" -> t.cs
      [] t.k = "option" -> <<NoT, t.t>>
      [] t.k = "result" -> <<t.ok, t.err>>
      [] t.k = "enum" -> [i \in 1..t.n |-> NoT]

IsVariantLike(t) == t.k \in {"variant", "option", "result", "enum"}
IsRecordLike(t) == t.k \in {"record", "tuple"}
MapEntry(t) == [k |-> "tuple", fs |-> <<t.key, t.val>>]

\* discriminant width in bytes for n cases
DiscSize(n) == IF n <= 256 THEN 1 ELSE IF n <= 65536 THEN 2 ELSE 4

FlagsBytes(n) == IF n = 0 THEN 0 ELSE IF n <= 8 THEN 1 ELSE IF n <= 16 THEN 2 ELSE 4 * ((n + 31) \div 32)
FlagsAlign(n) == IF n = 0 THEN 1 ELSE IF n <= 8 THEN 1 ELSE IF n <= 16 THEN 2 ELSE 4

-----------------------------------------------------------------------------
\* alignment and elem_size, pointer width W in {4, 8}

RECURSIVE Align(_, _)
RECURSIVE Size(_, _)

MaxCaseAlign(cs, W) == MaxOver(LAMBDA c : IF IsNone(c) THEN 1 ELSE Align(c, W), cs, 1)
MaxCaseSize(cs, W) == MaxOver(LAMBDA c : IF IsNone(c) THEN 0 ELSE Size(c, W), cs, 0)

Align(t, W) ==
    CASE t.k \in {"bool", "u8", "s8"} -> 1
      [] t.k \in {"u16", "s16"} -> 2
      [] t.k \in {"u32", "s32", "f32", "char", "errctx", "own", "borrow", "future", "stream"} -> 4
      [] t.k \in {"u64", "s64", "f64"} -> 8
      [] t.k \in {"string", "list", "map"} -> W
      [] t.k = "flist" -> Align(t.t, W)
      [] IsRecordLike(t) -> MaxOver(LAMBDA f : Align(f, W), t.fs, 1)
      [] IsVariantLike(t) -> Max(DiscSize(Len(VariantCases(t))), MaxCaseAlign(VariantCases(t), W))
      [] t.k = "flags" -> FlagsAlign(t.n)

RECURSIVE RecordEnd(_, _, _)
\* offset just after the last field (before final padding)
RecordEnd(fs, W, off) ==
    IF fs = <<>> THEN off
    ELSE RecordEnd(Tail(fs), W, AlignTo(off, Align(Head(fs), W)) + Size(Head(fs), W))

PayloadOffset(t, W) == AlignTo(DiscSize(Len(VariantCases(t))), MaxCaseAlign(VariantCases(t), W))

Size(t, W) ==
    CASE t.k \in {"bool", "u8", "s8"} -> 1
      [] t.k \in {"u16", "s16"} -> 2
      [] t.k \in {"u32", "s32", "f32", "char", "errctx", "own", "borrow", "future", "stream"} -> 4
      [] t.k \in {"u64", "s64", "f64"} -> 8
      [] t.k \in {"string", "list", "map"} -> 2 * W
      [] t.k = "flist" -> t.n * Size(t.t, W)
      [] IsRecordLike(t) -> AlignTo(RecordEnd(t.fs, W, 0), Align(t, W))
      [] IsVariantLike(t) -> AlignTo(PayloadOffset(t, W) + MaxCaseSize(VariantCases(t), W), Align(t, W))
      [] t.k = "flags" -> FlagsBytes(t.n)

RECURSIVE FieldOffsetsFrom(_, _, _)
FieldOffsetsFrom(fs, W, off) ==
    IF fs = <<>> THEN <<>>
    ELSE LET o == AlignTo(off, Align(Head(fs), W))
         IN <<o>> \o FieldOffsetsFrom(Tail(fs), W, o + Size(Head(fs), W))
FieldOffsets(fs, W) == FieldOffsetsFrom(fs, W, 0)

-----------------------------------------------------------------------------
\* flatten: core types "i32" "i64" "f32" "f64"; pointers and lengths are i32 / i64 by W

PtrTy(W) == IF W = 4 THEN "i32" ELSE "i64"

Join(a, b) == IF a = b THEN a
              ELSE IF {a, b} = {"i32", "f32"} THEN "i32"
              ELSE "i64"

RECURSIVE JoinSeqs(_, _)
\* pointwise join of two flat sequences, the longer tail is kept
JoinSeqs(a, b) ==
    IF a = <<>> THEN b ELSE IF b = <<>> THEN a
    ELSE <<Join(Head(a), Head(b))>> \o JoinSeqs(Tail(a), Tail(b))

RECURSIVE Flat(_, _)
RECURSIVE FlatCases(_, _)
FlatCases(cs, W) ==
    IF cs = <<>> THEN <<>>
    ELSE JoinSeqs(IF IsNone(Head(cs)) THEN <<>> ELSE Flat(Head(cs), W), FlatCases(Tail(cs), W))

Flat(t, W) ==
    CASE t.k \in {"bool", "u8", "s8", "u16", "s16", "u32", "s32", "char", "errctx", "own", "borrow", "future", "stream"} -> <<"i32">>
      [] t.k \in {"u64", "s64"} -> <<"i64">>
      [] t.k = "f32" -> <<"f32">>
      [] t.k = "f64" -> <<"f64">>
      [] t.k \in {"string", "list", "map"} -> <<PtrTy(W), PtrTy(W)>>
      [] t.k = "flist" -> FlattenSeq([i \in 1..t.n |-> Flat(t.t, W)])
      [] IsRecordLike(t) -> FlattenSeq([i \in 1..Len(t.fs) |-> Flat(t.fs[i], W)])
      [] IsVariantLike(t) -> <<"i32">> \o FlatCases(VariantCases(t), W)
      [] t.k = "flags" -> Repeat("i32", (t.n + 31) \div 32)

CoreBytes(ty) == IF ty \in {"i32", "f32"} THEN 4 ELSE 8

-----------------------------------------------------------------------------
\* Memory cells.  A cell is 0..255 (a byte), PAD (padding: any value), PTR(i) (first byte of
\* a pointer to heap block i, followed by W-1 PCONT cells), PANY (first byte of a pointer
\* whose value is unspecified: empty list/string).

PAD == 0 - 1
PCONT == 0 - 2
PANY == 0 - 3
PTR(i) == 1000 + i
PtrCells(i, W) == <<PTR(i)>> \o Repeat(PCONT, W - 1)
AnyPtrCells(W) == <<PANY>> \o Repeat(PCONT, W - 1)

\* A heap block: [size, align, kind, cells].  Results of Store: [cells, blocks]; block
\* indices are absolute: the first block created gets index `base + 1`.

RECURSIVE Store(_, _, _, _)
RECURSIVE StoreFields(_, _, _, _, _, _)
RECURSIVE StoreElems(_, _, _, _, _)

BoolByte(v) == IF v THEN 1 ELSE 0

\* byte i (0-based) of a flags value: bit j of byte i is flag 8*i + j
FlagByte(v, i) ==
    LET bit(j) == IF 8 * i + j + 1 <= Len(v) /\ v[8 * i + j + 1] THEN 1 ELSE 0
    IN bit(0) + 2 * bit(1) + 4 * bit(2) + 8 * bit(3) + 16 * bit(4) + 32 * bit(5) + 64 * bit(6) + 128 * bit(7)

CaseIndex(t, v) ==          \* 0-based discriminant
    CASE t.k = "variant" -> v.c
      [] t.k = "enum" -> v
      [] t.k = "option" -> IF v.some THEN 1 ELSE 0
      [] t.k = "result" -> IF v.ok THEN 0 ELSE 1
CasePayload(t, v) == IF t.k = "enum" THEN NoV ELSE v.v

\* elements laid out back to back, each Size(t) wide
StoreElems(t, vs, W, base, i) ==
    IF i > Len(vs) THEN [cells |-> <<>>, blocks |-> <<>>]
    ELSE LET a == Store(t, vs[i], W, base)
             r == StoreElems(t, vs, W, base + Len(a.blocks), i + 1)
         IN [cells |-> a.cells \o r.cells, blocks |-> a.blocks \o r.blocks]

\* record fields from offset `off` (relative to the record start), padded in between
StoreFields(fs, vs, W, base, off, i) ==
    IF i > Len(fs) THEN [cells |-> <<>>, blocks |-> <<>>, end |-> off]
    ELSE LET o == AlignTo(off, Align(fs[i], W))
             a == Store(fs[i], vs[i], W, base)
             r == StoreFields(fs, vs, W, base + Len(a.blocks), o + Size(fs[i], W), i + 1)
         IN [cells |-> Repeat(PAD, o - off) \o a.cells \o r.cells,
             blocks |-> a.blocks \o r.blocks, end |-> r.end]

ListLike(elemT, vs, kind, W, base) ==
    \* pointer + length; the elements live in a fresh block (none if the list is empty)
    IF Len(vs) = 0
    THEN [cells |-> AnyPtrCells(W) \o LE(0, W), blocks |-> <<>>]
    ELSE LET e == StoreElems(elemT, vs, W, base + 1, 1)
             blk == [size |-> Len(vs) * Size(elemT, W), align |-> Align(elemT, W), kind |-> kind, cells |-> e.cells]
         IN [cells |-> PtrCells(base + 1, W) \o LE(Len(vs), W), blocks |-> <<blk>> \o e.blocks]

Store(t, v, W, base) ==
    CASE t.k = "bool" -> [cells |-> <<BoolByte(v)>>, blocks |-> <<>>]
      [] t.k \in {"u8", "s8", "u16", "s16", "u32", "s32", "u64", "s64", "f32", "f64", "char", "errctx",
                  "own", "borrow", "future", "stream"} -> [cells |-> v, blocks |-> <<>>]
      [] t.k = "string" ->
            IF Len(v) = 0 THEN [cells |-> AnyPtrCells(W) \o LE(0, W), blocks |-> <<>>]
            ELSE [cells |-> PtrCells(base + 1, W) \o LE(Len(v), W),
                  blocks |-> <<[size |-> Len(v), align |-> 1, kind |-> "string", cells |-> v]>>]
      [] t.k = "list" -> ListLike(t.t, v, "list", W, base)
      [] t.k = "map" -> ListLike(MapEntry(t), v, "map", W, base)
      [] t.k = "flist" -> StoreElems(t.t, v, W, base, 1)
      [] IsRecordLike(t) ->
            LET r == StoreFields(t.fs, v, W, base, 0, 1)
            IN [cells |-> r.cells \o Repeat(PAD, Size(t, W) - r.end), blocks |-> r.blocks]
      [] IsVariantLike(t) ->
            LET cs == VariantCases(t)
                c == CaseIndex(t, v)
                ct == cs[c + 1]
                ds == DiscSize(Len(cs))
                po == PayloadOffset(t, W)
                pay == IF IsNone(ct) THEN [cells |-> <<>>, blocks |-> <<>>] ELSE Store(ct, CasePayload(t, v), W, base)
            IN [cells |-> LE(c, ds) \o Repeat(PAD, po - ds) \o pay.cells
                          \o Repeat(PAD, Size(t, W) - po - Len(pay.cells)),
                blocks |-> pay.blocks]
      [] t.k = "flags" -> [cells |-> [i \in 1..FlagsBytes(t.n) |-> FlagByte(v, i - 1)], blocks |-> <<>>]

-----------------------------------------------------------------------------
\* lower_flat: a sequence of core values [ty, cells, care].  `cells` are the little-endian
\* bytes of the core value (or pointer cells); `care` is the number of low-order bytes a lift
\* looks at (the canonical ABI ignores the rest: narrow integers are taken modulo their
\* width, i64 slots holding a 32-bit payload are wrapped, unused slots are not read).

CoreVal(ty, cells, care) == [ty |-> ty, cells |-> cells, care |-> care]

SignFill(bytes, k) ==      \* sign-extend to k bytes
    bytes \o Repeat(IF bytes[Len(bytes)] >= 128 THEN 255 ELSE 0, k - Len(bytes))
ZeroFill(bytes, k) == bytes \o Repeat(0, k - Len(bytes))

\* value conversion into a joined slot type: reinterpret f32 as i32, zero-extend to 64 bits
CastTo(cv, want) ==
    IF cv.ty = want THEN cv
    ELSE [ty |-> want, cells |-> ZeroFill(cv.cells, CoreBytes(want)), care |-> cv.care]

RECURSIVE LowerFlat(_, _, _, _)
RECURSIVE LowerFlatSeq(_, _, _, _, _)

LowerFlatSeq(ts, vs, W, base, i) ==
    IF i > Len(ts) THEN [vals |-> <<>>, blocks |-> <<>>]
    ELSE LET a == LowerFlat(ts[i], vs[i], W, base)
             r == LowerFlatSeq(ts, vs, W, base + Len(a.blocks), i + 1)
         IN [vals |-> a.vals \o r.vals, blocks |-> a.blocks \o r.blocks]

RECURSIVE CastAll(_, _, _)
CastAll(vals, want, i) ==
    IF i > Len(want) THEN <<>>
    ELSE (IF i <= Len(vals) THEN <<CastTo(vals[i], want[i])>>
          ELSE <<CoreVal(want[i], Repeat(0, CoreBytes(want[i])), 0)>>) \o CastAll(vals, want, i + 1)

LowerFlat(t, v, W, base) ==
    CASE t.k = "bool" -> [vals |-> <<CoreVal("i32", <<BoolByte(v), 0, 0, 0>>, 1)>>, blocks |-> <<>>]
      [] t.k \in {"u8", "u16"} -> [vals |-> <<CoreVal("i32", ZeroFill(v, 4), Len(v))>>, blocks |-> <<>>]
      [] t.k \in {"s8", "s16"} -> [vals |-> <<CoreVal("i32", SignFill(v, 4), Len(v))>>, blocks |-> <<>>]
      [] t.k \in {"u32", "s32", "char", "errctx", "own", "borrow", "future", "stream"} ->
            [vals |-> <<CoreVal("i32", v, 4)>>, blocks |-> <<>>]
      [] t.k \in {"u64", "s64"} -> [vals |-> <<CoreVal("i64", v, 8)>>, blocks |-> <<>>]
      [] t.k = "f32" -> [vals |-> <<CoreVal("f32", v, 4)>>, blocks |-> <<>>]
      [] t.k = "f64" -> [vals |-> <<CoreVal("f64", v, 8)>>, blocks |-> <<>>]
      [] t.k \in {"string", "list", "map"} ->
            LET s == Store(t, v, W, base)
            IN [vals |-> <<CoreVal(PtrTy(W), SubSeq(s.cells, 1, W), W), CoreVal(PtrTy(W), SubSeq(s.cells, W + 1, 2 * W), W)>>,
                blocks |-> s.blocks]
      [] t.k = "flist" -> LowerFlatSeq([i \in 1..t.n |-> t.t], v, W, base, 1)
      [] IsRecordLike(t) -> LowerFlatSeq(t.fs, v, W, base, 1)
      [] IsVariantLike(t) ->
            LET cs == VariantCases(t)
                c == CaseIndex(t, v)
                ct == cs[c + 1]
                want == FlatCases(cs, W)
                pay == IF IsNone(ct) THEN [vals |-> <<>>, blocks |-> <<>>] ELSE LowerFlat(ct, CasePayload(t, v), W, base)
            IN [vals |-> <<CoreVal("i32", LE(c, 4), 4)>> \o CastAll(pay.vals, want, 1), blocks |-> pay.blocks]
      [] t.k = "flags" ->
            [vals |-> [w \in 1..((t.n + 31) \div 32) |->
                          CoreVal("i32", [b \in 1..4 |-> FlagByte(v, 4 * (w - 1) + b - 1)], 4)],
             blocks |-> <<>>]

-----------------------------------------------------------------------------
\* Heap ownership (C03): the blocks a lowered value owns are exactly the `blocks` above;
\* the handles it owns are the own/future/stream values in *active* positions.

RECURSIVE OwnedHandles(_, _)
RECURSIVE OwnedHandlesSeq(_, _, _)
OwnedHandlesSeq(ts, vs, i) ==
    IF i > Len(ts) THEN <<>> ELSE OwnedHandles(ts[i], vs[i]) \o OwnedHandlesSeq(ts, vs, i + 1)

OwnedHandles(t, v) ==
    CASE t.k \in {"own", "future", "stream"} -> <<v>>
      [] t.k = "list" -> OwnedHandlesSeq([i \in 1..Len(v) |-> t.t], v, 1)
      [] t.k = "flist" -> OwnedHandlesSeq([i \in 1..t.n |-> t.t], v, 1)
      [] t.k = "map" -> OwnedHandlesSeq([i \in 1..Len(v) |-> MapEntry(t)], v, 1)
      [] IsRecordLike(t) -> OwnedHandlesSeq(t.fs, v, 1)
      [] t.k \in {"variant", "option", "result"} ->
            LET ct == VariantCases(t)[CaseIndex(t, v) + 1]
            IN IF IsNone(ct) THEN <<>> ELSE OwnedHandles(ct, CasePayload(t, v))
      [] OTHER -> <<>>

\* can a value of this type own a heap block at all?  (post-return exists iff this holds
\* for the result type)
RECURSIVE MayOwnHeap(_)
MayOwnHeap(t) ==
    CASE t.k \in {"string", "list", "map"} -> TRUE
      [] t.k = "flist" -> t.n > 0 /\ MayOwnHeap(t.t)
      [] IsRecordLike(t) -> \E i \in 1..Len(t.fs) : MayOwnHeap(t.fs[i])
      [] t.k \in {"variant", "option", "result"} ->
            \E i \in 1..Len(VariantCases(t)) : ~IsNone(VariantCases(t)[i]) /\ MayOwnHeap(VariantCases(t)[i])
      [] OTHER -> FALSE
=============================================================================
