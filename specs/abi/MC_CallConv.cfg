CONSTANTS
  NChunks = 32
  Deep = FALSE
INIT Init
NEXT Next
INVARIANT Emit
