CONSTANTS
  Level = 1
  NChunks = 64
INIT Init
NEXT Next
INVARIANTS SizesConsistent FlatConsistent Emit
