----------------------------- MODULE CanonValues -----------------------------
(* Boundary value sets for every type of CanonABI (shared by MC_CanonABI and MC_CallConv)  *)
(* and type constructors.                                                                  *)
EXTENDS CanonABI

-----
\* Boundary values

B0 == <<0, 0, 0, 0>>
PrimVals(k) ==
    CASE k = "bool" -> <<FALSE, TRUE>>
      [] k = "u8" -> << <<0>>, <<1>>, <<128>>, <<255>> >>
      [] k = "s8" -> << <<0>>, <<1>>, <<255>>, <<128>>, <<127>> >>
      [] k = "u16" -> << <<0, 0>>, <<1, 0>>, <<255, 255>>, <<0, 128>>, <<52, 18>> >>
      [] k = "s16" -> << <<0, 0>>, <<1, 0>>, <<255, 255>>, <<0, 128>>, <<255, 127>> >>
      [] k = "u32" -> << B0, <<1, 0, 0, 0>>, <<255, 255, 255, 255>>, <<0, 0, 0, 128>>, <<120, 86, 52, 18>> >>
      [] k = "s32" -> << B0, <<1, 0, 0, 0>>, <<255, 255, 255, 255>>, <<0, 0, 0, 128>>, <<255, 255, 255, 127>> >>
      [] k = "u64" -> << B0 \o B0, <<1, 0, 0, 0>> \o B0, Repeat(255, 8), B0 \o <<0, 0, 0, 128>>, <<8, 7, 6, 5, 4, 3, 2, 1>> >>
      [] k = "s64" -> << B0 \o B0, <<1, 0, 0, 0>> \o B0, Repeat(255, 8), B0 \o <<0, 0, 0, 128>>, Repeat(255, 7) \o <<127>> >>
      [] k = "f32" -> << B0, <<0, 0, 0, 128>>, <<0, 0, 128, 63>>, <<1, 0, 192, 127>>, <<1, 0, 128, 127>>, <<0, 0, 128, 255>> >>
      [] k = "f64" -> << B0 \o B0, B0 \o <<0, 0, 0, 128>>, B0 \o <<0, 0, 240, 63>>, <<1, 0, 0, 0, 0, 0, 248, 127>>,
                         <<1, 0, 0, 0, 0, 0, 240, 127>> >>
      [] k = "char" -> << B0, <<65, 0, 0, 0>>, <<127, 0, 0, 0>>, <<255, 215, 0, 0>>, <<0, 224, 0, 0>>, <<255, 255, 16, 0>> >>
      [] k = "string" -> << <<>>, <<97>>, <<226, 130, 172>>, <<97, 226, 130, 172, 98>> >>
      [] k = "errctx" -> << <<1, 0, 0, 0>>, <<255, 255, 255, 127>> >>

HandleVals == << <<1, 0, 0, 0>>, <<7, 0, 0, 0>>, <<255, 255, 255, 127>> >>

Sel(s) == IF Len(s) <= 3 THEN s ELSE <<s[1], s[2], s[Len(s)]>>
Cyc(s, i) == s[((i - 1) % Len(s)) + 1]

RECURSIVE Vals(_)
Vals(t) ==
    CASE t.k \in {"bool", "u8", "s8", "u16", "s16", "u32", "s32", "u64", "s64", "f32", "f64", "char", "string", "errctx"} -> PrimVals(t.k)
      [] t.k \in {"own", "borrow", "future", "stream"} -> HandleVals
      [] t.k = "list" ->
            LET e == Vals(t.t) IN << <<>>, <<e[1]>>, <<Cyc(e, 2), Cyc(e, 3), Cyc(e, 4)>>, <<e[Len(e)]>> >>
      [] t.k = "flist" ->
            LET e == Vals(t.t) IN IF t.n = 0 THEN << <<>> >>
                                   ELSE << [i \in 1..t.n |-> Cyc(e, i)], [i \in 1..t.n |-> Cyc(e, i + 1)], [i \in 1..t.n |-> e[Len(e)]] >>
      [] t.k = "map" ->
            LET ks == Vals(t.key)
                vs == Vals(t.val)
            IN << <<>>, << <<ks[1], vs[1]>> >>,
                  [i \in 1..(IF Len(ks) >= 3 THEN 3 ELSE Len(ks)) |-> <<ks[i], Cyc(vs, i + 1)>>] >>
      [] IsRecordLike(t) ->
            LET n == Len(t.fs)
                fv(i) == Vals(t.fs[i])
                base == [i \in 1..n |-> fv(i)[1]]
            IN << base, [i \in 1..n |-> Cyc(fv(i), 2)], [i \in 1..n |-> fv(i)[Len(fv(i))]] >>
               \o [j \in 1..n |-> [i \in 1..n |-> IF i = j THEN Cyc(fv(i), 3) ELSE fv(i)[1]]]
      [] t.k = "variant" ->
            FlattenSeq([c \in 1..Len(t.cs) |->
                IF IsNone(t.cs[c]) THEN << [c |-> c - 1, v |-> NoV] >>
                ELSE LET pv == Sel(Vals(t.cs[c])) IN [j \in 1..Len(pv) |-> [c |-> c - 1, v |-> pv[j]]]])
      [] t.k = "enum" -> IF t.n = 1 THEN <<0>> ELSE <<0, 1, t.n - 1>>
      [] t.k = "option" ->
            LET pv == Vals(t.t) IN << [some |-> FALSE, v |-> NoV] >> \o [j \in 1..Len(pv) |-> [some |-> TRUE, v |-> pv[j]]]
      [] t.k = "result" ->
            (IF IsNone(t.ok) THEN << [ok |-> TRUE, v |-> NoV] >>
             ELSE LET pv == Sel(Vals(t.ok)) IN [j \in 1..Len(pv) |-> [ok |-> TRUE, v |-> pv[j]]])
            \o (IF IsNone(t.err) THEN << [ok |-> FALSE, v |-> NoV] >>
                ELSE LET pv == Sel(Vals(t.err)) IN [j \in 1..Len(pv) |-> [ok |-> FALSE, v |-> pv[j]]])
      [] t.k = "flags" ->
            IF t.n = 0 THEN << <<>> >>
            ELSE << [i \in 1..t.n |-> FALSE], [i \in 1..t.n |-> TRUE], [i \in 1..t.n |-> i = 1],
                    [i \in 1..t.n |-> i = t.n], [i \in 1..t.n |-> i % 2 = 0] >>

-----------------------------------------------------------------------------
\* Types

T_list(t) == [k |-> "list", t |-> t]
T_flist(t, n) == [k |-> "flist", t |-> t, n |-> n]
T_map(a, b) == [k |-> "map", key |-> a, val |-> b]
T_rec(fs) == [k |-> "record", fs |-> fs]
T_tup(fs) == [k |-> "tuple", fs |-> fs]
T_var(cs) == [k |-> "variant", cs |-> cs]
T_enum(n) == [k |-> "enum", n |-> n]
T_opt(t) == [k |-> "option", t |-> t]
T_res(a, b) == [k |-> "result", ok |-> a, err |-> b]
T_flags(n) == [k |-> "flags", n |-> n]
T_own == [k |-> "own", r |-> 0]
T_borrow == [k |-> "borrow", r |-> 0]
T_future(t) == [k |-> "future", t |-> t]
T_stream(t) == [k |-> "stream", t |-> t]

=============================================================================
