----------------------------- MODULE MC_RustExec -----------------------------
(* GEN: the functions and values the native execution harness (C05, C06, C10, C11) drives      *)
(* through real generated bindings, with the canonical encoding of every argument and result  *)
(* at pointer width 8 (the width of a natively compiled guest).                                *)
(*   kind "single": f(x: T) -> T for every type T of the universe below, every boundary value  *)
(*                  of T as the argument and the next one as the result;                       *)
(*   kind "multi":  the parameter lists / results of MC_CallConv (flattening limits 16 / 1).   *)
(* Handles (own, borrow, future, stream, error-context) are not in this universe: resources    *)
(* are C07's business.                                                                         *)
EXTENDS CallConv, CanonValues, Json
CONSTANTS NChunks, Deep

PT == [i \in 1..Len(Prims) |-> P(Prims[i])]
ValPrims == SelectSeq(PT, LAMBDA t : t.k # "errctx")
NP == Len(ValPrims)
Unary(t) == << T_list(t), T_opt(t), T_res(t, NoT), T_res(NoT, t), T_var(<<t>>), T_var(<<NoT, t>>), T_tup(<<t>>) >>
Binary(a, b) == << T_tup(<<a, b>>), T_var(<<a, b>>), T_res(a, b) >>
Misc == << T_rec(<<P("u8"), P("u64"), P("u8")>>), T_rec(<<P("u8"), P("u16"), P("u32"), P("u64")>>),
           T_rec(<<P("u64"), P("u8")>>), T_tup(<<P("f32"), P("string"), P("u8")>>),
           T_rec(<<P("bool"), P("f64"), P("char"), P("s8"), P("string"), P("s16")>>),
           T_var(<<P("u8"), P("f32"), P("u64"), P("string"), NoT>>),
           T_var(<<P("f64"), P("f32")>>), T_var(<<T_tup(<<P("f32"), P("f32")>>), T_tup(<<P("u64"), P("u8")>>), P("string")>>),
           T_enum(1), T_enum(2), T_enum(257),
           T_flags(1), T_flags(8), T_flags(9), T_flags(16), T_flags(17), T_flags(32), T_flags(33), T_flags(64),
           T_res(NoT, NoT), T_opt(T_opt(P("u8"))),
           \* variants that own heap data at a non-zero offset of their container (payload offsets relative to the variant, not the block)
           T_tup(<<P("u32"), T_res(P("string"), P("string"))>>), T_rec(<<P("u64"), T_opt(P("string"))>>),
           T_list(T_rec(<<P("u64"), T_opt(P("string"))>>)), T_tup(<<P("u8"), T_var(<<P("f32"), P("string")>>)>>),
           T_rec(<<P("u8"), T_opt(T_list(P("u16"))), T_res(P("u64"), T_list(P("string")))>>),
           \* lists whose all-numeric element has three or more fields of different widths: a backend that copies such a list
           \* wholesale relies on its own in-memory layout of the element being the canonical one
           T_list(T_tup(<<P("u8"), P("u16"), P("u32")>>)), T_list(T_tup(<<P("u8"), P("u32"), P("u8")>>)),
           T_list(T_rec(<<P("u8"), P("u64"), P("u16")>>)), T_list(T_tup(<<P("f32"), P("u8"), P("f64"), P("u16")>>)),
           \* one variant per pair of core types that can share a flat slot (C04: the backends' own bitcast emitters are executed)
           T_var(<<P("u32"), P("f32")>>), T_var(<<P("s64"), P("f64")>>), T_var(<<P("u32"), P("f64")>>), T_var(<<P("f32"), P("s64")>>),
           T_var(<<P("u8"), P("s64")>>), T_res(P("f32"), P("string")), T_res(P("f64"), P("string")) >>
Reps == << P("u8"), P("u64"), P("f32"), P("string"), T_list(P("u8")), T_list(P("string")), T_opt(P("u32")),
           T_tup(<<P("u8"), P("u64")>>), T_var(<<P("f32"), P("string")>>), T_flags(9),
           T_res(P("string"), P("u16")), T_rec(<<P("string"), P("s16")>>), T_enum(3) >>
NR == Len(Reps)
Level1 == ValPrims \o FlattenSeq([i \in 1..NP |-> Unary(ValPrims[i])]) \o Misc
          \o FlattenSeq([i \in 1..NR |-> <<T_list(Reps[i]), T_opt(Reps[i]), T_var(<<NoT, Reps[i]>>)>>])
Level2 == FlattenSeq([i \in 1..NP |-> FlattenSeq([j \in 1..NP |-> Binary(ValPrims[i], ValPrims[j])])])
          \o FlattenSeq([i \in 1..NR |-> FlattenSeq([j \in 1..NR |-> Binary(Reps[i], Reps[j])])])
Types == IF Deep THEN Level1 \o Level2 ELSE Level1

\* the multi-parameter functions of MC_CallConv (without handles)
U8 == P("u8")
Singles == <<P("u8"), P("f64"), P("u64"), P("s16"), P("char"), P("f32"), P("bool")>>
Tup3 == [k |-> "tuple", fs |-> <<P("u32"), P("u64"), P("f32")>>]
Rec16 == [k |-> "record", fs |-> [i \in 1..16 |-> IF i % 3 = 0 THEN P("u32") ELSE U8]]
Rec17 == [k |-> "record", fs |-> [i \in 1..17 |-> IF i % 4 = 0 THEN P("u16") ELSE U8]]
OptStr == [k |-> "option", t |-> P("string")]
LU8 == [k |-> "list", t |-> U8]
LStr == [k |-> "list", t |-> P("string")]
VarJ == [k |-> "variant", cs |-> <<P("f32"), P("u64"), P("string")>>]
RepeatT(t, n) == [i \in 1..n |-> t]
ParamLists ==
    [n \in 1..21 |-> [i \in 1..(n - 1) |-> Singles[((i - 1) % Len(Singles)) + 1]]]
    \o << RepeatT(P("string"), 2), RepeatT(P("string"), 8), RepeatT(P("string"), 9),
          RepeatT(Tup3, 5), RepeatT(Tup3, 6), <<Rec16>>, <<Rec16, U8>>, <<U8, Rec16>>, <<Rec17>>, <<OptStr, P("u64")>>,
          <<LU8, LStr>>, <<LStr, OptStr, VarJ>>, <<U8, P("u64"), U8, P("string"), P("f32")>>,
          RepeatT(LStr, 8) \o <<U8>>, <<Rec16, P("string")>>, <<VarJ, VarJ, VarJ, VarJ, VarJ>> >>
Results == <<NoT, U8, P("f32"), P("u64"), P("string"), Tup3, Rec17, OptStr, LStr, VarJ,
             [k |-> "result", ok |-> P("string"), err |-> U8], Rec16>>

VARIABLES chunk, vec
NoVec == [kind |-> "none"]
Init == chunk \in 0..(NChunks - 1) /\ vec = NoVec
Next == /\ vec = NoVec
        /\ \/ \E ti \in 1..Len(Types) : /\ ti % NChunks = chunk
                                         /\ \E vi \in 1..Len(Vals(Types[ti])) : vec' = [kind |-> "single", ti |-> ti, vi |-> vi]
           \/ \E pi \in 1..Len(ParamLists), ri \in 1..Len(Results) :
                 /\ (pi + ri) % NChunks = chunk
                 /\ (Deep \/ (pi + 2 * ri) % 3 = 0)
                 /\ vec' = [kind |-> "multi", pi |-> pi, ri |-> ri]
        /\ UNCHANGED chunk

F == IF vec.kind = "single" THEN [ps |-> <<Types[vec.ti]>>, r |-> Types[vec.ti]]
     ELSE [ps |-> ParamLists[vec.pi], r |-> Results[vec.ri]]
ArgsOf == IF vec.kind = "single" THEN <<Vals(Types[vec.ti])[vec.vi]>>
          ELSE [j \in 1..Len(F.ps) |-> Cyc(Vals(F.ps[j]), j + vec.pi)]
ResOf == IF IsNone(F.r) THEN NoV
         ELSE IF vec.kind = "single" THEN Cyc(Vals(F.r), vec.vi + 1) ELSE Cyc(Vals(F.r), 1 + vec.ri)

Emit == vec # NoVec =>
    PrintT(<<"VEC", ToJson([kind |-> vec.kind, ps |-> F.ps, r |-> F.r, args |-> ArgsOf, res |-> ResOf,
                            enc |-> CallEncoding(F, ArgsOf, ResOf, 8),
                            \* echo(r: R): the lifted result is lowered again so that the host can compare it
                            encEcho |-> IF IsNone(F.r) THEN CallEncoding([ps |-> <<>>, r |-> NoT], <<>>, NoV, 8)
                                        ELSE CallEncoding([ps |-> <<F.r>>, r |-> NoT], <<ResOf>>, NoV, 8)])>>)
=============================================================================
