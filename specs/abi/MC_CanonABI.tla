----------------------------- MODULE MC_CanonABI -----------------------------
(* The bounded universe of (type, value, pointer width) on which CanonABI is evaluated, and  *)
(* the vector emission for the harness (GEN mode).  Also the spec's own sanity invariants.   *)
EXTENDS CanonValues, Json

CONSTANTS Level,      \* 1: one-level closure over all primitives; 2: + two-level closure over representatives
          NChunks     \* parallelism: vectors are partitioned by type index modulo NChunks

-----------------------------------------------------------------------------------------------------------------------------------------------------
PT == [i \in 1..Len(Prims) |-> P(Prims[i])]
NP == Len(PT)
MapKeys == <<P("bool"), P("u8"), P("s16"), P("u32"), P("s64"), P("char"), P("string")>>

Unary(t) == << T_list(t), T_opt(t), T_flist(t, 2), T_res(t, NoT), T_res(NoT, t), T_var(<<t>>), T_var(<<NoT, t>>),
               T_tup(<<t>>), T_map(P("string"), t) >>
Binary(a, b) == << T_tup(<<a, b>>), T_var(<<a, b>>), T_res(a, b) >>

Misc == << T_rec(<<P("u8"), P("u64"), P("u8")>>), T_rec(<<P("u8"), P("u16"), P("u32"), P("u64")>>),
           T_rec(<<P("u64"), P("u8")>>), T_tup(<<P("f32"), P("string"), P("u8")>>),
           T_rec(<<P("bool"), P("f64"), P("char"), P("s8"), P("string"), P("s16")>>),
           T_var(<<P("u8"), P("f32"), P("u64"), P("string"), NoT>>),
           T_var(<<P("f64"), P("f32")>>), T_var(<<T_tup(<<P("f32"), P("f32")>>), T_tup(<<P("u64"), P("u8")>>), P("string")>>),
           T_enum(1), T_enum(2), T_enum(256), T_enum(257),
           T_flags(1), T_flags(8), T_flags(9), T_flags(16), T_flags(17), T_flags(32), T_flags(33), T_flags(64), T_flags(65),
           T_own, T_borrow, T_future(NoT), T_future(P("string")), T_stream(P("u8")), T_stream(NoT),
           T_flist(P("u8"), 1), T_flist(P("u32"), 3), T_flist(P("string"), 3), T_flist(P("u64"), 4),
           T_res(NoT, NoT), T_opt(T_opt(P("u8"))),
           \* variants that own heap data at a non-zero offset of their container (payload offsets relative to the variant, not the block)
           T_tup(<<P("u32"), T_res(P("string"), P("string"))>>), T_rec(<<P("u64"), T_opt(P("string"))>>),
           T_list(T_rec(<<P("u64"), T_opt(P("string"))>>)), T_tup(<<P("u8"), T_var(<<P("f32"), P("string")>>)>>),
           T_rec(<<P("u8"), T_opt(T_list(P("u16"))), T_res(P("u64"), T_list(P("string")))>>) >>
         \o [i \in 1..Len(MapKeys) |-> T_map(MapKeys[i], P("u32"))]

Level1 == PT \o FlattenSeq([i \in 1..NP |-> Unary(PT[i])])
             \o FlattenSeq([i \in 1..NP |-> FlattenSeq([j \in 1..NP |-> Binary(PT[i], PT[j])])])
             \o Misc

\* representatives: every (alignment, size, flat shape, owns heap, owns handle) class
Reps == << P("u8"), P("u64"), P("f32"), P("string"), T_list(P("u8")), T_list(P("string")), T_opt(P("u32")),
           T_tup(<<P("u8"), P("u64")>>), T_var(<<P("f32"), P("string")>>), T_flags(9), T_own,
           T_res(P("string"), P("u16")), T_flist(P("u16"), 3), T_rec(<<P("string"), P("s16")>>), T_enum(3) >>
NR == Len(Reps)
Level2 == FlattenSeq([i \in 1..NR |-> <<T_list(Reps[i]), T_opt(Reps[i]), T_flist(Reps[i], 2), T_var(<<NoT, Reps[i]>>),
                                        T_map(P("string"), Reps[i]), T_map(P("u32"), Reps[i])>>])
          \o FlattenSeq([i \in 1..NR |-> FlattenSeq([j \in 1..NR |-> Binary(Reps[i], Reps[j])])])

AllTypes == IF Level >= 2 THEN Level1 \o Level2 ELSE Level1

-----------------------------------------------------------------------------
VARIABLES chunk, vec
NoVec == [ti |-> 0]

Init == chunk \in 0..(NChunks - 1) /\ vec = NoVec
Next == /\ vec = NoVec
        /\ \E ti \in 1..Len(AllTypes) :
              /\ ti % NChunks = chunk
              /\ \E vi \in 1..Len(Vals(AllTypes[ti])), W \in {4, 8} :
                    vec' = [ti |-> ti, vi |-> vi, W |-> W]
        /\ UNCHANGED chunk

\* ---- sanity of the spec itself (checked on every vector)
T == AllTypes[vec.ti]
V == Vals(T)[vec.vi]

CellsOK(cells, n) == Len(cells) = n
SizesConsistent ==
    vec # NoVec =>
      LET s == Store(T, V, vec.W, 0) IN
      /\ Len(s.cells) = Size(T, vec.W)
      /\ Size(T, vec.W) % Align(T, vec.W) = 0
      /\ \A b \in 1..Len(s.blocks) : Len(s.blocks[b].cells) = s.blocks[b].size
FlatConsistent ==
    vec # NoVec =>
      LET f == LowerFlat(T, V, vec.W, 0) IN
      /\ Len(f.vals) = Len(Flat(T, vec.W))
      /\ \A i \in 1..Len(f.vals) : f.vals[i].ty = Flat(T, vec.W)[i] /\ Len(f.vals[i].cells) = CoreBytes(f.vals[i].ty)
      /\ Len(f.blocks) = Len(Store(T, V, vec.W, 0).blocks)

Emit ==
    vec # NoVec =>
      LET s == Store(T, V, vec.W, 0)
          f == LowerFlat(T, V, vec.W, 0)
      IN PrintT(<<"VEC", ToJson([ti |-> vec.ti, vi |-> vec.vi, W |-> vec.W, t |-> T, v |-> V,
                                 size |-> Size(T, vec.W), align |-> Align(T, vec.W),
                                 flat |-> f.vals, mem |-> s.cells, blocks |-> s.blocks,
                                 handles |-> OwnedHandles(T, V), mayOwnHeap |-> MayOwnHeap(T)])>>)
=============================================================================
