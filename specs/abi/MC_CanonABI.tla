----------------------------- MODULE MC_CanonABI -----------------------------
(* The bounded universe of (type, value, pointer width) on which CanonABI is evaluated, and  *)
(* the vector emission for the harness (GEN mode).  Also the spec's own sanity invariants.   *)
EXTENDS CanonABI, Json

CONSTANTS Level,      \* 1: one-level closure over all primitives; 2: + two-level closure over representatives
          NChunks     \* parallelism: vectors are partitioned by type index modulo NChunks

-----------------------------------------------------------------------------
\* Boundary values

B0 == <<0, 0, 0, 0>>
PrimVals(k) ==
    CASE k = "bool" -> <<FALSE, TRUE>>
      [] k = "u8" -> << <<0>>, <<1>>, <<128>>, <<255>> >>
      [] k = "s8" -> << <<0>>, <<1>>, <<255>>, <<128>>, <<127>> >>
      [] k = "u16" -> << <<0, 0>>, <<1, 0>>, <<255, 255>>, <<0, 128>>, <<52, 18>> >>
      [] k = "s16" -> << <<0, 0>>, <<1, 0>>, <<255, 255>>, <<0, 128>>, <<255, 127>> >>
      [] k = "u32" -> << B0, <<1, 0, 0, 0>>, <<255, 255, 255, 255>>, <<0, 0, 0, 128>>, <<120, 86, 52, 18>> >>
      [] k = "s32" -> << B0, <<1, 0, 0, 0>>, <<255, 255, 255, 255>>, <<0, 0, 0, 128>>, <<255, 255, 255, 127>> >>
      [] k = "u64" -> << B0 \o B0, <<1, 0, 0, 0>> \o B0, Repeat(255, 8), B0 \o <<0, 0, 0, 128>>, <<8, 7, 6, 5, 4, 3, 2, 1>> >>
      [] k = "s64" -> << B0 \o B0, <<1, 0, 0, 0>> \o B0, Repeat(255, 8), B0 \o <<0, 0, 0, 128>>, Repeat(255, 7) \o <<127>> >>
      [] k = "f32" -> << B0, <<0, 0, 0, 128>>, <<0, 0, 128, 63>>, <<1, 0, 192, 127>>, <<1, 0, 128, 127>>, <<0, 0, 128, 255>> >>
      [] k = "f64" -> << B0 \o B0, B0 \o <<0, 0, 0, 128>>, B0 \o <<0, 0, 240, 63>>, <<1, 0, 0, 0, 0, 0, 248, 127>>,
                         <<1, 0, 0, 0, 0, 0, 240, 127>> >>
      [] k = "char" -> << B0, <<65, 0, 0, 0>>, <<127, 0, 0, 0>>, <<255, 215, 0, 0>>, <<0, 224, 0, 0>>, <<255, 255, 16, 0>> >>
      [] k = "string" -> << <<>>, <<97>>, <<226, 130, 172>>, <<97, 226, 130, 172, 98>> >>
      [] k = "errctx" -> << <<1, 0, 0, 0>>, <<255, 255, 255, 127>> >>

HandleVals == << <<1, 0, 0, 0>>, <<7, 0, 0, 0>>, <<255, 255, 255, 127>> >>

Sel(s) == IF Len(s) <= 3 THEN s ELSE <<s[1], s[2], s[Len(s)]>>
Cyc(s, i) == s[((i - 1) % Len(s)) + 1]

RECURSIVE Vals(_)
Vals(t) ==
    CASE t.k \in {"bool", "u8", "s8", "u16", "s16", "u32", "s32", "u64", "s64", "f32", "f64", "char", "string", "errctx"} -> PrimVals(t.k)
      [] t.k \in {"own", "borrow", "future", "stream"} -> HandleVals
      [] t.k = "list" ->
            LET e == Vals(t.t) IN << <<>>, <<e[1]>>, <<Cyc(e, 2), Cyc(e, 3), Cyc(e, 4)>>, <<e[Len(e)]>> >>
      [] t.k = "flist" ->
            LET e == Vals(t.t) IN IF t.n = 0 THEN << <<>> >>
                                   ELSE << [i \in 1..t.n |-> Cyc(e, i)], [i \in 1..t.n |-> Cyc(e, i + 1)], [i \in 1..t.n |-> e[Len(e)]] >>
      [] t.k = "map" ->
            LET ks == Vals(t.key)
                vs == Vals(t.val)
            IN << <<>>, << <<ks[1], vs[1]>> >>,
                  [i \in 1..(IF Len(ks) >= 3 THEN 3 ELSE Len(ks)) |-> <<ks[i], Cyc(vs, i + 1)>>] >>
      [] IsRecordLike(t) ->
            LET n == Len(t.fs)
                fv(i) == Vals(t.fs[i])
                base == [i \in 1..n |-> fv(i)[1]]
            IN << base, [i \in 1..n |-> Cyc(fv(i), 2)], [i \in 1..n |-> fv(i)[Len(fv(i))]] >>
               \o [j \in 1..n |-> [i \in 1..n |-> IF i = j THEN Cyc(fv(i), 3) ELSE fv(i)[1]]]
      [] t.k = "variant" ->
            FlattenSeq([c \in 1..Len(t.cs) |->
                IF IsNone(t.cs[c]) THEN << [c |-> c - 1, v |-> NoV] >>
                ELSE LET pv == Sel(Vals(t.cs[c])) IN [j \in 1..Len(pv) |-> [c |-> c - 1, v |-> pv[j]]]])
      [] t.k = "enum" -> IF t.n = 1 THEN <<0>> ELSE <<0, 1, t.n - 1>>
      [] t.k = "option" ->
            LET pv == Vals(t.t) IN << [some |-> FALSE, v |-> NoV] >> \o [j \in 1..Len(pv) |-> [some |-> TRUE, v |-> pv[j]]]
      [] t.k = "result" ->
            (IF IsNone(t.ok) THEN << [ok |-> TRUE, v |-> NoV] >>
             ELSE LET pv == Sel(Vals(t.ok)) IN [j \in 1..Len(pv) |-> [ok |-> TRUE, v |-> pv[j]]])
            \o (IF IsNone(t.err) THEN << [ok |-> FALSE, v |-> NoV] >>
                ELSE LET pv == Sel(Vals(t.err)) IN [j \in 1..Len(pv) |-> [ok |-> FALSE, v |-> pv[j]]])
      [] t.k = "flags" ->
            IF t.n = 0 THEN << <<>> >>
            ELSE << [i \in 1..t.n |-> FALSE], [i \in 1..t.n |-> TRUE], [i \in 1..t.n |-> i = 1],
                    [i \in 1..t.n |-> i = t.n], [i \in 1..t.n |-> i % 2 = 0] >>

-----------------------------------------------------------------------------
\* Types

T_list(t) == [k |-> "list", t |-> t]
T_flist(t, n) == [k |-> "flist", t |-> t, n |-> n]
T_map(a, b) == [k |-> "map", key |-> a, val |-> b]
T_rec(fs) == [k |-> "record", fs |-> fs]
T_tup(fs) == [k |-> "tuple", fs |-> fs]
T_var(cs) == [k |-> "variant", cs |-> cs]
T_enum(n) == [k |-> "enum", n |-> n]
T_opt(t) == [k |-> "option", t |-> t]
T_res(a, b) == [k |-> "result", ok |-> a, err |-> b]
T_flags(n) == [k |-> "flags", n |-> n]
T_own == [k |-> "own", r |-> 0]
T_borrow == [k |-> "borrow", r |-> 0]
T_future(t) == [k |-> "future", t |-> t]
T_stream(t) == [k |-> "stream", t |-> t]

PT == [i \in 1..Len(Prims) |-> P(Prims[i])]
NP == Len(PT)
MapKeys == <<P("bool"), P("u8"), P("s16"), P("u32"), P("s64"), P("char"), P("string")>>

Unary(t) == << T_list(t), T_opt(t), T_flist(t, 2), T_res(t, NoT), T_res(NoT, t), T_var(<<t>>), T_var(<<NoT, t>>),
               T_tup(<<t>>), T_map(P("string"), t) >>
Binary(a, b) == << T_tup(<<a, b>>), T_var(<<a, b>>), T_res(a, b) >>

Misc == << T_rec(<<P("u8"), P("u64"), P("u8")>>), T_rec(<<P("u8"), P("u16"), P("u32"), P("u64")>>),
           T_rec(<<P("u64"), P("u8")>>), T_tup(<<P("f32"), P("string"), P("u8")>>),
           T_rec(<<P("bool"), P("f64"), P("char"), P("s8"), P("string"), P("s16")>>),
           T_var(<<P("u8"), P("f32"), P("u64"), P("string"), NoT>>),
           T_var(<<P("f64"), P("f32")>>), T_var(<<T_tup(<<P("f32"), P("f32")>>), T_tup(<<P("u64"), P("u8")>>), P("string")>>),
           T_enum(1), T_enum(2), T_enum(256), T_enum(257),
           T_flags(1), T_flags(8), T_flags(9), T_flags(16), T_flags(17), T_flags(32), T_flags(33), T_flags(64), T_flags(65),
           T_own, T_borrow, T_future(NoT), T_future(P("string")), T_stream(P("u8")), T_stream(NoT),
           T_flist(P("u8"), 1), T_flist(P("u32"), 3), T_flist(P("string"), 3), T_flist(P("u64"), 4),
           T_res(NoT, NoT), T_opt(T_opt(P("u8"))) >>
         \o [i \in 1..Len(MapKeys) |-> T_map(MapKeys[i], P("u32"))]

Level1 == PT \o FlattenSeq([i \in 1..NP |-> Unary(PT[i])])
             \o FlattenSeq([i \in 1..NP |-> FlattenSeq([j \in 1..NP |-> Binary(PT[i], PT[j])])])
             \o Misc

\* representatives: every (alignment, size, flat shape, owns heap, owns handle) class
Reps == << P("u8"), P("u64"), P("f32"), P("string"), T_list(P("u8")), T_list(P("string")), T_opt(P("u32")),
           T_tup(<<P("u8"), P("u64")>>), T_var(<<P("f32"), P("string")>>), T_flags(9), T_own,
           T_res(P("string"), P("u16")), T_flist(P("u16"), 3), T_rec(<<P("string"), P("s16")>>), T_enum(3) >>
NR == Len(Reps)
Level2 == FlattenSeq([i \in 1..NR |-> <<T_list(Reps[i]), T_opt(Reps[i]), T_flist(Reps[i], 2), T_var(<<NoT, Reps[i]>>),
                                        T_map(P("string"), Reps[i]), T_map(P("u32"), Reps[i])>>])
          \o FlattenSeq([i \in 1..NR |-> FlattenSeq([j \in 1..NR |-> Binary(Reps[i], Reps[j])])])

AllTypes == IF Level >= 2 THEN Level1 \o Level2 ELSE Level1

-----------------------------------------------------------------------------
VARIABLES chunk, vec
NoVec == [ti |-> 0]

Init == chunk \in 0..(NChunks - 1) /\ vec = NoVec
Next == /\ vec = NoVec
        /\ \E ti \in 1..Len(AllTypes) :
              /\ ti % NChunks = chunk
              /\ \E vi \in 1..Len(Vals(AllTypes[ti])), W \in {4, 8} :
                    vec' = [ti |-> ti, vi |-> vi, W |-> W]
        /\ UNCHANGED chunk

\* ---- sanity of the spec itself (checked on every vector)
T == AllTypes[vec.ti]
V == Vals(T)[vec.vi]

CellsOK(cells, n) == Len(cells) = n
SizesConsistent ==
    vec # NoVec =>
      LET s == Store(T, V, vec.W, 0) IN
      /\ Len(s.cells) = Size(T, vec.W)
      /\ Size(T, vec.W) % Align(T, vec.W) = 0
      /\ \A b \in 1..Len(s.blocks) : Len(s.blocks[b].cells) = s.blocks[b].size
FlatConsistent ==
    vec # NoVec =>
      LET f == LowerFlat(T, V, vec.W, 0) IN
      /\ Len(f.vals) = Len(Flat(T, vec.W))
      /\ \A i \in 1..Len(f.vals) : f.vals[i].ty = Flat(T, vec.W)[i] /\ Len(f.vals[i].cells) = CoreBytes(f.vals[i].ty)
      /\ Len(f.blocks) = Len(Store(T, V, vec.W, 0).blocks)

Emit ==
    vec # NoVec =>
      LET s == Store(T, V, vec.W, 0)
          f == LowerFlat(T, V, vec.W, 0)
      IN PrintT(<<"VEC", ToJson([ti |-> vec.ti, vi |-> vec.vi, W |-> vec.W, t |-> T, v |-> V,
                                 size |-> Size(T, vec.W), align |-> Align(T, vec.W),
                                 flat |-> f.vals, mem |-> s.cells, blocks |-> s.blocks,
                                 handles |-> OwnedHandles(T, V), mayOwnHeap |-> MayOwnHeap(T)])>>)
=============================================================================
