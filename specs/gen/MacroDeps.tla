------------------------------ MODULE MacroDeps ------------------------------
(* Build dependencies recorded by the Rust `generate!` macro (crates/guest-rust/macro),     *)
(* property C32.                                                                             *)
(*                                                                                           *)
(* A crate layout is a set of optional files next to the always-present `wit/a.wit`:         *)
(*    "wit/b.wit"              a second file of the root package                             *)
(*    "wit/deps/d1/x.wit", "wit/deps/d1/y.wit"   a dependency package in a directory          *)
(*    "wit/deps/d2.wit"        a single-file dependency                                      *)
(*    "wit/deps/d1/deps/n.wit" a nested deps folder (NOT read by WIT resolution)             *)
(*    "wit/notes.md"           not a WIT file (not read)                                     *)
(*    "wit2/c.wit"             a second directory given as an extra path                     *)
(* and the macro is invoked in one of the forms below.  Which files WIT resolution reads is  *)
(* defined here (directory = its *.wit files + each entry of its deps/ folder, one level).   *)
EXTENDS Naturals, Sequences, FiniteSets, SequencesExt, TLC

Optional == {"wit/b.wit", "wit/deps/d1/x.wit", "wit/deps/d1/y.wit", "wit/deps/d2.wit", "wit/deps/d1/deps/n.wit", "wit/notes.md", "wit2/c.wit"}
Forms == {"default", "path-dir", "path-file", "paths-list", "world-in-path", "inline", "inline-path", "inline-no-default"}

\* layouts that make sense for a form
ValidLayout(files, form) ==
    /\ ("wit/deps/d1/deps/n.wit" \in files \/ "wit/deps/d1/y.wit" \in files) => "wit/deps/d1/x.wit" \in files
    /\ form \in {"paths-list", "inline-path"} <=> "wit2/c.wit" \in files
    /\ form = "path-file" => files \cap {"wit/b.wit", "wit/deps/d1/x.wit", "wit/deps/d2.wit"} = {}      \* a single file has no siblings to resolve

\* the files WIT resolution reads for a directory argument
DirRead(files, dir) ==
    IF dir = "wit"
    THEN {"wit/a.wit"} \cup (files \cap {"wit/b.wit", "wit/deps/d1/x.wit", "wit/deps/d1/y.wit", "wit/deps/d2.wit"})
    ELSE files \cap {"wit2/c.wit"}

\* the default directory `wit/` does not exist in this form (the layout generator omits it)
NoDefaultDir(form) == form = "inline-no-default"

Read(files, form) ==
    CASE form \in {"default", "path-dir", "world-in-path", "inline"} -> DirRead(files, "wit")
      [] form = "path-file" -> {"wit/a.wit"}
      [] form = "paths-list" -> DirRead(files, "wit") \cup DirRead(files, "wit2")
      [] form = "inline-path" -> DirRead(files, "wit2")        \* an explicit path replaces the default directory
      [] form = "inline-no-default" -> {}

\* C32 over an observation [form, files, opened, tracked]:
\*   opened  = the .wit files the compiler process really opened while expanding the macro (strace)
\*   tracked = the files cargo's dep-info lists for the crate
TracksAllRead(o) == ToSet(o.opened) \subseteq ToSet(o.tracked)
TracksExpected(o) == Read(ToSet(o.files), o.form) \subseteq ToSet(o.tracked)
ReadsExpected(o) == Read(ToSet(o.files), o.form) \subseteq ToSet(o.opened)       \* the model of WIT resolution agrees with the run
Conforms(o) == TracksAllRead(o) /\ TracksExpected(o)
Missing(o) == (ToSet(o.opened) \cup Read(ToSet(o.files), o.form)) \ ToSet(o.tracked)
=============================================================================
