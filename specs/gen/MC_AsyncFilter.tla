---------------------------- MODULE MC_AsyncFilter ----------------------------
EXTENDS AsyncFilter, Json
CONSTANTS MaxDirs

\* The probe package (harness/small/src/asyncfilter.rs renders exactly this):
\*   package t:p;  interface i { g: func(); h: async func(); resource r { m: func(); } }
\* A world is a set of items: "if" import f: func(), "ef" export f: func(), "ii" import i,
\* "ei" export i, "ek" export k: async func(), "ir" a resource declared in the world itself: resource c { f: func(); }
\* (its method is the world-level imported function "[method]c.f", whose item name equals the freestanding "f").
IFuncs(imp) == { [name |-> "t:p/i#g", imp |-> imp, decl |-> FALSE],
                 [name |-> "t:p/i#h", imp |-> imp, decl |-> TRUE],
                 [name |-> "t:p/i#[method]r.m", imp |-> imp, decl |-> FALSE] }
ItemFuncs(it) == CASE it = "if" -> {[name |-> "f", imp |-> TRUE, decl |-> FALSE]}
                   [] it = "ef" -> {[name |-> "f", imp |-> FALSE, decl |-> FALSE]}
                   [] it = "ii" -> IFuncs(TRUE)
                   [] it = "ei" -> IFuncs(FALSE)
                   [] it = "ek" -> {[name |-> "k", imp |-> FALSE, decl |-> TRUE]}
                   [] it = "ir" -> {[name |-> "[method]c.f", imp |-> TRUE, decl |-> FALSE]}
WorldItems == { {"if", "ef", "ii", "ei", "ek", "ir"}, {"if", "ir"}, {"if", "ii"}, {"ef", "ei", "ek"}, {"if", "ef"}, {"ii", "ek"}, {"ei"} }
FuncsOf(w) == UNION { ItemFuncs(it) : it \in w }
F5 == [name |-> "t:p/i#h", imp |-> TRUE, decl |-> TRUE]

DirNames == {"f", "t:p/i#g", "t:p/i#h", "t:p/i#[method]r.m", "g", "k", "[method]c.f"}
Directives == [en : BOOLEAN, kind : {"all"}, name : {""}]
              \cup [en : BOOLEAN, kind : {"fn", "import", "export"}, name : DirNames]

NoAns == [f |-> [name |-> "", imp |-> FALSE, decl |-> FALSE], ans |-> FALSE]

\* phase 1: choose the directive list and the world; phase 2: query every function
VARIABLES phase, world
Init == dirs = <<>> /\ funcs = {} /\ used = {} /\ asked = {} /\ last = NoAns /\ phase = "dirs" /\ world = {}
AddDir == /\ phase = "dirs" /\ Len(dirs) < MaxDirs
          /\ \E d \in Directives : dirs' = Append(dirs, d)
          /\ UNCHANGED <<funcs, used, asked, last, phase, world>>
Choose == /\ phase = "dirs"
          /\ \E w \in WorldItems : funcs' = FuncsOf(w) /\ world' = w
          /\ phase' = "ask"
          /\ UNCHANGED <<dirs, used, asked, last>>
Ask == /\ phase = "ask"
       /\ \E f \in funcs \ asked : Query(f)
       /\ UNCHANGED <<phase, world>>
Next == AddDir \/ Choose \/ Ask
NextGen == AddDir \/ Choose

\* GEN: one vector per (directive list, world) at the moment the world is chosen
Emit == (phase = "ask" /\ asked = {}) =>
        PrintT(<<"VEC", ToJson([dirs |-> dirs, world |-> world, funcs |-> funcs,
                                async |-> {f \in funcs : IsAsync(dirs, f)},
                                decisive |-> Decisive(dirs, funcs),
                                mustReject |-> MustReject(dirs, funcs),
                                mustAccept |-> MustAccept(dirs, funcs)])>>)
W_Shadowed == ~(phase = "ask" /\ asked = funcs /\ EnsureErr /\ ~MustReject(dirs, funcs))
W_DeclAsyncOverridden == ~(last.f = F5 /\ last.ans = FALSE)
=============================================================================
