---------------------------- MODULE MC_TestConfig ----------------------------
EXTENDS TestConfig, Json
CONSTANTS MaxLines

LineKinds == [ind : {0}, pre : {"m"}, body : Bodies]
             \cup [ind : {1}, pre : {"m"}, body : {"argsS2", "code"}]
             \cup [ind : {0}, pre : {"c", "o"}, body : {"argsS2", "code"}]
             \cup [ind : {0}, pre : {"n"}, body : {"blank", "code", "argsS2"}]

VARIABLE file
Init == file = <<>>
Next == Len(file) < MaxLines /\ \E l \in LineKinds : file' = Append(file, l)

\* Sanity of the spec itself: nothing after the first non-marker line matters
RECURSIVE CutAtFirstOther(_)
CutAtFirstOther(f) == IF f = <<>> \/ ~IsMarker(Head(f)) THEN <<>> ELSE <<Head(f)>> \o CutAtFirstOther(Tail(f))
OnlyLeadingMatters == Config(file) = Config(CutAtFirstOther(file))
\* string form == list form
StringListEquivalence ==
    LET swap(l) == IF l.body = "argsS" THEN [l EXCEPT !.body = "argsL"]
                   ELSE IF l.body = "flagsS" THEN [l EXCEPT !.body = "flagsL"] ELSE l
    IN Config(file) = Config([i \in 1..Len(file) |-> swap(file[i])])

Emit == PrintT(<<"VEC", ToJson([file |-> file, config |-> Config(file)])>>)
W_LaterMarkerIgnored == ~(Len(file) >= 3 /\ ~IsMarker(file[2]) /\ IsMarker(file[3]) /\ file[3].body = "argsS" /\ Config(file).ok /\ Config(file).args = <<>>)
=============================================================================
