---------------------------- MODULE MoonPkgGraph ----------------------------
(* The package graph of generated MoonBit code (property C30).                              *)
(*                                                                                          *)
(* Model worlds: one "user" interface a:p/my-api whose function mentions one type of each   *)
(* interface in Used, a non-empty subset of                                                 *)
(*      a:p/types   b:p/types   a:q-r/types   c:v/my-types@1.2.0   c:v/my-types@2.0.0       *)
(* (equal last segments across namespaces and packages, kebab-case package and interface    *)
(* names, two versions of one package), bound as import, export or both.                    *)
(*                                                                                          *)
(* An observation of the generator's output is                                               *)
(*    pkgs: sequence of [path, imports: sequence of [path, alias, ext], used: sequence of alias]  *)
(* where `path` is the package directory relative to the module root, `imports` the          *)
(* entries of its moon.pkg.json (ext = TRUE for packages of another module, i.e. MoonBit's   *)
(* core library) and `used` the `@alias.` qualifiers its .mbt files use.                     *)
EXTENDS Naturals, Sequences, FiniteSets, SequencesExt, TLC

TypeIfaces == << [ns |-> "a", pkg |-> "p", name |-> "types", ver |-> ""],
                 [ns |-> "b", pkg |-> "p", name |-> "types", ver |-> ""],
                 [ns |-> "a", pkg |-> "q-r", name |-> "types", ver |-> ""],
                 [ns |-> "c", pkg |-> "v", name |-> "my-types", ver |-> "1.2.0"],
                 [ns |-> "c", pkg |-> "v", name |-> "my-types", ver |-> "2.0.0"] >>
User == [ns |-> "a", pkg |-> "p", name |-> "my-api", ver |-> ""]

\* kebab-case names are preserved in package paths; the version is not part of the path, two
\* versions of one interface are told apart by a numeric suffix (Ns)
BasePath(i) == "interface/" \o i.ns \o "/" \o i.pkg \o "/" \o i.name
Digits == {"0", "1", "2", "3", "4", "5", "6", "7", "8", "9"}
IsPathOf(p, i) == p = BasePath(i) \/ \E d \in Digits : p = BasePath(i) \o d
UserPaths(dir) ==
    (IF dir \in {"import", "both"} THEN {BasePath(User)} ELSE {})
    \cup (IF dir \in {"export", "both"} THEN {"gen/" \o BasePath(User)} ELSE {})

\* aliases that need no declaration (none today: even the core library is referenced through declared packages)
Builtin == {}

PkgPaths(o) == {o.pkgs[k].path : k \in 1..Len(o.pkgs)}
Pkg(o, p) == CHOOSE k \in 1..Len(o.pkgs) : o.pkgs[k].path = p
Imports(pk) == ToSet(pk.imports)

\* C30, clause by clause ---------------------------------------------------------------
\* each package declares every other package it references ...
Declared(o) == \A k \in 1..Len(o.pkgs) : ToSet(o.pkgs[k].used) \subseteq {i.alias : i \in Imports(o.pkgs[k])} \cup Builtin
\* ... under exactly one alias that is unique within that package
OneAliasPerPackage(o) == \A k \in 1..Len(o.pkgs) : \A a, b \in Imports(o.pkgs[k]) : (a.path = b.path \/ a.alias = b.alias) => a = b
NoDuplicateEntries(o) == \A k \in 1..Len(o.pkgs) : Cardinality(Imports(o.pkgs[k])) = Len(o.pkgs[k].imports)
\* every referenced package exists in the generated output
Exists(o) == \A k \in 1..Len(o.pkgs) : \A i \in Imports(o.pkgs[k]) : i.ext \/ i.path \in PkgPaths(o)
\* the world's own structure: the user interface's package(s) exist and reference one distinct package per used interface,
\* whose path carries the WIT names verbatim
References(o) ==
    \A up \in UserPaths(o.dir) :
        /\ up \in PkgPaths(o)
        /\ LET pk == o.pkgs[Pkg(o, up)]
               tgt(u) == {i.path : i \in {j \in Imports(pk) : IsPathOf(j.path, TypeIfaces[u])}}
           IN /\ \A u \in ToSet(o.used) : tgt(u) # {}
              /\ \A u, v \in ToSet(o.used) :
                    (u # v /\ BasePath(TypeIfaces[u]) = BasePath(TypeIfaces[v])) => Cardinality(tgt(u)) >= 2
              /\ \A u \in ToSet(o.used) : \A a \in {j \in Imports(pk) : IsPathOf(j.path, TypeIfaces[u])} : a.alias \in ToSet(pk.used)

Conforms(o) == Declared(o) /\ OneAliasPerPackage(o) /\ NoDuplicateEntries(o) /\ Exists(o) /\ References(o)
Failing(o) == {n \in {"Declared", "OneAliasPerPackage", "NoDuplicateEntries", "Exists", "References"} :
                 ~(CASE n = "Declared" -> Declared(o) [] n = "OneAliasPerPackage" -> OneAliasPerPackage(o)
                     [] n = "NoDuplicateEntries" -> NoDuplicateEntries(o) [] n = "Exists" -> Exists(o) [] n = "References" -> References(o))}
=============================================================================
