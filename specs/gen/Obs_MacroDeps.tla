---------------------------- MODULE Obs_MacroDeps ----------------------------
EXTENDS MacroDeps, Json, IOUtils
Obs == ndJsonDeserialize(IOEnv.OBS)
VARIABLE i
Init == i = 1
Next == i < Len(Obs) /\ i' = i + 1
Inv == Conforms(Obs[i]) \/ Print(<<"MISMATCH", ToJson([id |-> Obs[i].id, missing |-> Missing(Obs[i])])>>, FALSE)
ModelAgrees == ReadsExpected(Obs[i]) \/ Print(<<"NOTE", ToJson([id |-> Obs[i].id, unread |-> Read(ToSet(Obs[i].files), Obs[i].form) \ ToSet(Obs[i].opened)])>>, FALSE)
=============================================================================
