INIT Init
NEXT Next
INVARIANT Inv
INVARIANT ModelAgrees
CHECK_DEADLOCK FALSE
