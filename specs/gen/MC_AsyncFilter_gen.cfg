CONSTANTS
  MaxDirs = 2
INIT Init
NEXT NextGen
INVARIANTS Emit
