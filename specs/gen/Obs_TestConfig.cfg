INIT Init
NEXT Next
INVARIANT Inv_Agrees
CHECK_DEADLOCK FALSE
