------------------------- MODULE MC_PkgModuleName -------------------------
EXTENDS PkgModuleName, Json

CONSTANTS MaxPkgs

F == "f"
O == "o"
Names == { <<F, O, O>>, <<F, O, O, "-", "b", "a", "r">>, <<F, O, O, "1">> }

Cores == { <<"1", ".", "0", ".", "0">>, <<"0", ".", "1", ".", "0">>, <<"1", "0", ".", "0", ".", "0">>, <<"1", ".", "0", "0", ".", "0">> }
Pres == { <<>>, <<"-", "r", "c">>, <<"-", "r", "c", ".", "1">>, <<"-", "r", "c", "-", "1">>, <<"-", "r", "c", "1">>,
          <<"-", "R", "C", ".", "1">>, <<"-", "r", "C">>, <<"-", "a">>, <<"-", "1">>, <<"-", "0", ".", "1">> }
Builds == { <<>>, <<"+", "a">>, <<"+", "1">>, <<"+", "r", "c", ".", "1">>, <<"+", "0", "-", "1">> }

Versions == {NoVer} \cup { c \o p \o b : c \in Cores, p \in Pres, b \in Builds }
Universe == [name : Names, ver : Versions]

VARIABLES pkgs

Init == pkgs = {}
Add(p) == /\ Cardinality(pkgs) < MaxPkgs
          /\ p \notin pkgs
          /\ pkgs' = pkgs \cup {p}
Next == \E p \in Universe : Add(p)

Inv_Injective == Injective(pkgs)

Emit == Cardinality(pkgs) = MaxPkgs =>
          PrintT(<<"VEC", ToJson([pkgs |-> {[name |-> p.name, ver |-> p.ver, mod |-> ModuleName(pkgs, p)] : p \in pkgs},
                                  injective |-> Injective(pkgs)])>>)
=============================================================================
