--------------------------- MODULE MC_MoonPkgGraph ---------------------------
(* GEN: every model world (non-empty Used x direction).  MC: the clauses are jointly         *)
(* satisfiable and independent -- for a reference observation all hold, and each single      *)
(* corruption of it violates exactly the clause it should (checked by ASSUME).               *)
EXTENDS MoonPkgGraph, Json

VARIABLES usedV, dirV
Init == usedV = {} /\ dirV = ""
Next == /\ usedV = {}
        /\ \E s \in (SUBSET (1..Len(TypeIfaces))) \ {{}}, d \in {"import", "export", "both"} : usedV' = s /\ dirV' = d
Emit == usedV # {} => PrintT(<<"VEC", ToJson([used |-> SetToSortSeq(usedV, <), dir |-> dirV,
                                                 ifaces |-> [k \in 1..Len(TypeIfaces) |-> TypeIfaces[k]]])>>)

\* a hand-written conforming observation and its corruptions (vacuity guard for the clauses)
Good == [dir |-> "import", used |-> <<1, 2>>,
         pkgs |-> << [path |-> "interface/a/p/types", imports |-> <<>>, used |-> <<>>],
                     [path |-> "interface/b/p/types", imports |-> <<>>, used |-> <<>>],
                     [path |-> "interface/a/p/my-api",
                      imports |-> << [path |-> "interface/a/p/types", alias |-> "types", ext |-> FALSE], [path |-> "interface/b/p/types", alias |-> "types0", ext |-> FALSE] >>,
                      used |-> <<"types", "types0">>] >>]
With(o, k, f) == [o EXCEPT !.pkgs[k] = f]
ASSUME Conforms(Good)
ASSUME Failing(With(Good, 3, [Good.pkgs[3] EXCEPT !.used = <<"types", "types0", "other">>])) = {"Declared"}
ASSUME Failing(With(Good, 3, [Good.pkgs[3] EXCEPT !.imports = << [path |-> "interface/a/p/types", alias |-> "types", ext |-> FALSE], [path |-> "interface/b/p/types", alias |-> "types", ext |-> FALSE] >>, !.used = <<"types">>])) = {"OneAliasPerPackage"}
ASSUME Failing(With(Good, 3, [Good.pkgs[3] EXCEPT !.imports = << [path |-> "interface/a/p/types", alias |-> "types", ext |-> FALSE], [path |-> "interface/b/p/typez", alias |-> "types0", ext |-> FALSE] >>])) = {"Exists", "References"}
ASSUME Failing(With(Good, 3, [Good.pkgs[3] EXCEPT !.path = "interface/a/p/my_api"])) = {"References"}
=============================================================================
