-------------------------- MODULE Trace_SourceBuf --------------------------
(* impl -> spec: each recorded call of the real `Source` carries the projected state after *)
(* the call; the model (Part 1 of SourceBuf) must produce exactly that state, and the      *)
(* text-level clauses of C25 are evaluated on every accepted step.                          *)
EXTENDS SourceBuf, Json, IOUtils, Integers

Rec == ndJsonDeserialize(IOEnv.TRACE)

VARIABLES st, doc, amb, litOK, l
tvars == <<st, doc, amb, litOK, l>>

TInit == st = Fresh /\ doc = <<>> /\ amb = FALSE /\ litOK = TRUE /\ l = 1

IsEv(op) == l <= Len(Rec) /\ Rec[l].op = op /\ l' = l + 1

Matches(s1) == /\ s1.s = Rec[l].s
               /\ s1.indent = Rec[l].indent
               /\ s1.cont = Rec[l].cont
               /\ s1.inC = Rec[l].inC

HasNL(f) == \E i \in 1..Len(f) : f[i] = NL

\* same exclusion as MC_SourceBuf!Ambiguous: once such a fragment was appended the content
\* clause is not judged for the rest of that history
AmbiguousHere(f) ==
    /\ st.cont /\ Len(SplitNL(f)) > 1
    /\ Head(SplitNL(f)) # <<>> /\ Head(Head(SplitNL(f))) = SP

TReset == IsEv("reset") /\ st' = Fresh /\ doc' = <<>> /\ amb' = FALSE /\ litOK' = TRUE

TPush(lit) ==
    /\ IsEv(IF lit THEN "lit" ELSE "push")
    /\ LET f == Rec[l].txt IN
       /\ st' = Push(st, f, ~lit)
       /\ Matches(st')
       /\ doc' = doc \o f
       /\ amb' = (amb \/ AmbiguousHere(f))
       /\ litOK' = (litOK /\ (lit => /\ st'.indent = st.indent
                                     /\ st'.inC = (IF HasNL(f) THEN FALSE ELSE st.inC)))

TIndent == IsEv("indent") /\ st' = IndentBy(st, 1) /\ Matches(st') /\ UNCHANGED <<doc, amb, litOK>>
TDeindent == IsEv("deindent") /\ st.indent >= 1 /\ st' = DeindentBy(st, 1) /\ Matches(st')
             /\ UNCHANGED <<doc, amb, litOK>>

TNext == TReset \/ TPush(TRUE) \/ TPush(FALSE) \/ TIndent \/ TDeindent

ContentPreserved == ~amb => Canon(st.s) = Canon(doc)
LiteralIsNeutral == litOK

Accepted ==
    LET d == TLCGet("stats").diameter IN
    IF d - 1 = Len(Rec) THEN TRUE
    ELSE Print(<<"REJECTED", ToJson([matched |-> d - 1, total |-> Len(Rec), next |-> Rec[d]])>>, FALSE)
=============================================================================
