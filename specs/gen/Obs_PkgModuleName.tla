------------------------- MODULE Obs_PkgModuleName -------------------------
(* impl -> spec (VAL): each observation is a package set with the module names the real    *)
(* `name_package_module` returned.  The spec must derive the same names (binding) and the  *)
(* names must be pairwise distinct (C27).  One TLC state per observation.                  *)
EXTENDS PkgModuleName, Json, IOUtils

Obs == ndJsonDeserialize(IOEnv.OBS)

VARIABLE i
Init == i = 1
Next == i < Len(Obs) /\ i' = i + 1

PkgSet(o) == { [name |-> o.pkgs[k].name, ver |-> o.pkgs[k].ver] : k \in 1..Len(o.pkgs) }

Agrees ==
    LET o == Obs[i]
        S == PkgSet(o)
    IN \A k \in 1..Len(o.pkgs) :
          ModuleName(S, [name |-> o.pkgs[k].name, ver |-> o.pkgs[k].ver]) = o.pkgs[k].mod

Distinct ==
    LET o == Obs[i]
    IN \A a, b \in 1..Len(o.pkgs) : a # b => o.pkgs[a].mod # o.pkgs[b].mod

Inv_Agrees == Agrees \/ Print(<<"MISMATCH", ToJson(Obs[i])>>, FALSE)
Inv_Distinct == Distinct \/ Print(<<"COLLISION", ToJson(Obs[i])>>, TRUE)
Done == i = Len(Obs) => TRUE
=============================================================================
