---------------------------- MODULE Obs_AsyncFilter ----------------------------
(* impl -> spec (VAL): observed answers of the real AsyncFilterSet for random directive lists; *)
(* the spec re-derives every answer and judges ensure_all_used.                                *)
EXTENDS AsyncFilter, Json, IOUtils

Obs == ndJsonDeserialize(IOEnv.OBS)
VARIABLE i
Init == i = 1 /\ dirs = <<>> /\ funcs = {} /\ used = {} /\ asked = {} /\ last = [f |-> 0, ans |-> FALSE]
Next == i < Len(Obs) /\ i' = i + 1 /\ UNCHANGED vars

FuncOf(a) == [name |-> a.name, imp |-> a.imp, decl |-> a.decl]
OFuncs(o) == { FuncOf(o.answers[k]) : k \in 1..Len(o.answers) }

Agrees ==
    LET o == Obs[i] IN
    /\ \A k \in 1..Len(o.answers) : o.answers[k].ans = IsAsync(o.dirs, FuncOf(o.answers[k]))
    /\ MustReject(o.dirs, OFuncs(o)) => o.err
    /\ MustAccept(o.dirs, OFuncs(o)) => ~o.err
Inv_Agrees == Agrees \/ Print(<<"MISMATCH", ToJson(Obs[i])>>, FALSE)
=============================================================================
