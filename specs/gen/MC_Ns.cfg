CONSTANTS
  Names = {"a", "a0", "a1", "b", "b0"}
  Bases = {"a", "b", "a0"}
  MaxOps = 7
INIT MCInit
NEXT MCNext
VIEW MCView
INVARIANTS FreshTmp ConflictReported EverythingHandedOutIsDefined Monotone
