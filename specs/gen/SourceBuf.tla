----------------------------- MODULE SourceBuf -----------------------------
(* The generated-source buffer (crates/core/src/source.rs, `Source`), property C25.        *)
(*                                                                                         *)
(* Text is a sequence of one-character strings over a small alphabet; "\n" is the newline. *)
(* Part 1 is a faithful, branch-by-branch model of `push_str_impl`, `indent`, `deindent`   *)
(* and `append_src` written as *functions on a state record* (so that they can be applied  *)
(* to a scratch buffer as well).  Part 2 states the clauses of the property on the text    *)
(* and on line structure, independently of Part 1.                                         *)
EXTENDS Naturals, Sequences, FiniteSets, TLC

NL == "\n"
SP == " "

-----------------------------------------------------------------------------
\* Generic sequence helpers

RECURSIVE SplitNL(_)
\* Rust `str::lines()` for text without "\r": split at NL, a trailing NL yields no extra line.
SplitNL(t) ==
    IF t = <<>> THEN <<>>
    ELSE LET RECURSIVE FirstNL(_)
             FirstNL(i) == IF i > Len(t) THEN 0 ELSE IF t[i] = NL THEN i ELSE FirstNL(i + 1)
             p == FirstNL(1)
         IN IF p = 0 THEN <<t>>
            ELSE <<SubSeq(t, 1, p - 1)>> \o SplitNL(SubSeq(t, p + 1, Len(t)))

RECURSIVE TrimStart(_)
TrimStart(t) == IF t # <<>> /\ Head(t) = SP THEN TrimStart(Tail(t)) ELSE t
RECURSIVE TrimEnd(_)
TrimEnd(t) == IF t # <<>> /\ t[Len(t)] = SP THEN TrimEnd(SubSeq(t, 1, Len(t) - 1)) ELSE t
Trim(t) == TrimEnd(TrimStart(t))

StartsWith(t, p) == Len(t) >= Len(p) /\ SubSeq(t, 1, Len(p)) = p
EndsWith(t, p) == Len(t) >= Len(p) /\ SubSeq(t, Len(t) - Len(p) + 1, Len(t)) = p
EndsNL(t) == t # <<>> /\ t[Len(t)] = NL

RECURSIVE Spaces(_)
Spaces(n) == IF n = 0 THEN <<>> ELSE <<SP>> \o Spaces(n - 1)

RECURSIVE Flatten(_)
Flatten(ss) == IF ss = <<>> THEN <<>> ELSE Head(ss) \o Flatten(Tail(ss))

-----------------------------------------------------------------------------
\* Part 1: the faithful model

Fresh == [s |-> <<>>, indent |-> 0, inC |-> FALSE, cont |-> FALSE]

Newline(st) == [st EXCEPT !.s = @ \o <<NL>>, !.inC = FALSE, !.cont = FALSE]

\* text after the last NL consists of blanks only (the `}` de-indentation removes only
\* indentation, never text: the "fix:" commit for finding F-C25-1)
RECURSIVE CurrentLineBlank(_)
CurrentLineBlank(t) == \/ t = <<>>
                       \/ t[Len(t)] = NL
                       \/ t[Len(t)] = SP /\ CurrentLineBlank(SubSeq(t, 1, Len(t) - 1))

\* one iteration of the `for (i, line)` loop
PushLine(st, line, single, interp, nlAfter) ==
    LET st1 == IF ~st.cont
               THEN [st EXCEPT !.s = IF line # <<>> THEN @ \o Spaces(2 * st.indent) ELSE @,
                               !.cont = TRUE]
               ELSE st
        trimmed == Trim(line)
        st2 == IF interp /\ StartsWith(trimmed, <<"/", "/">>) THEN [st1 EXCEPT !.inC = TRUE] ELSE st1
        active == interp /\ ~st2.inC
        st3 == IF active /\ StartsWith(trimmed, <<"}">>) /\ EndsWith(st2.s, <<SP, SP>>)
                  /\ CurrentLineBlank(st2.s)
               THEN [st2 EXCEPT !.s = SubSeq(@, 1, Len(@) - 2)] ELSE st2
        st4 == [st3 EXCEPT !.s = @ \o (IF single THEN line ELSE TrimStart(line))]
        st5 == IF active /\ EndsWith(trimmed, <<"{">>) THEN [st4 EXCEPT !.indent = @ + 1] ELSE st4
        st6 == IF active /\ StartsWith(trimmed, <<"}">>)
               THEN [st5 EXCEPT !.indent = IF @ = 0 THEN 0 ELSE @ - 1] ELSE st5
    IN IF nlAfter THEN Newline(st6) ELSE st6

RECURSIVE PushLines(_, _, _, _, _, _)
PushLines(st, lines, i, single, interp, endsNL) ==
    IF i > Len(lines) THEN st
    ELSE PushLines(PushLine(st, lines[i], single, interp, i # Len(lines) \/ endsNL),
                   lines, i + 1, single, interp, endsNL)

Push(st, src, interp) ==
    LET lines == SplitNL(src)
    IN PushLines(st, lines, 1, Len(lines) = 1, interp, EndsNL(src))

IndentBy(st, n) == [st EXCEPT !.indent = @ + n]
\* `deindent` is `self.indent -= amt` on a usize: a precondition, not modelled below zero
DeindentBy(st, n) == [st EXCEPT !.indent = @ - n]

AppendSrc(st, other) == [st EXCEPT !.s = @ \o other.s, !.indent = @ + other.indent, !.inC = other.inC]

-----------------------------------------------------------------------------
\* Part 2: the clauses of C25, defined on text / line structure only

\* (1) content is preserved up to whitespace at the start of lines
RECURSIVE StripLineStarts(_)
StripLineStarts(ls) == IF ls = <<>> THEN <<>> ELSE <<TrimStart(Head(ls))>> \o StripLineStarts(Tail(ls))
\* canonical form: the sequence of lines with leading blanks removed (a trailing NL is kept
\* as a final empty line so that "a" and "a\n" differ)
AllLines(t) == SplitNL(t) \o (IF t = <<>> \/ EndsNL(t) THEN <<<<>>>> ELSE <<>>)
Canon(t) == StripLineStarts(AllLines(t))

\* (2) line-level reference for indentation.  `ls` is a sequence of logical input lines
\* [txt, lit, base]: trimmed text, literal or not, explicit indentation in force.
IsComment(txt) == StartsWith(txt, <<"/", "/">>)
Opens(l) == ~l.lit /\ ~IsComment(l.txt) /\ EndsWith(l.txt, <<"{">>)
Closes(l) == ~l.lit /\ ~IsComment(l.txt) /\ StartsWith(l.txt, <<"}">>)

\* (4) brace-balanced sequence of logical lines: never below its start, back at the start
RECURSIVE BalancedFrom(_, _)
BalancedFrom(ls, d) ==
    IF ls = <<>> THEN d = 0
    ELSE LET l == Head(ls)
             d1 == IF Closes(l) THEN d - 1 ELSE d
         IN IF Closes(l) /\ d = 0 THEN FALSE
            ELSE BalancedFrom(Tail(ls), IF Opens(l) THEN d1 + 1 ELSE d1)

LeadingSpaces(t) == Len(t) - Len(TrimStart(t))
=============================================================================
