CONSTANT MaxLen = 6
INIT Init
NEXT Next
INVARIANT Safe
INVARIANT SafeWithoutRawHtml
INVARIANT Monotone
CHECK_DEADLOCK FALSE
