------------------------------ MODULE MC_TypeEq ------------------------------
(* GEN: model worlds = every sequence of N definitions drawn from the near-equal templates    *)
(* below (equal records, reordered / renamed fields, reordered cases, aliases, containers     *)
(* over earlier definitions, two resources of equal shape and handles to them), with a use    *)
(* site per definition that rotates with `salt`.  MC: DefEq is an equivalence relation and    *)
(* Facts is constant on its classes, on every enumerated world (the invariant Sane).          *)
EXTENDS TypeEq, Json
CONSTANTS N, Salts

F(n, t) == [n |-> n, t |-> t]
\* a bare resource name in a value position means own<r>; the templates say own/borrow explicitly, so containers and
\* record fields range over value definitions only (plain aliases `type t3 = t2` of a resource stay allowed)
IsValue(ds, j) == ds[Target(ds, j)].k # "resource"
Templates(ds, i) ==
    {[k |-> "record", fs |-> <<F("a", Prim("u32")), F("b", Prim("string"))>>],
     [k |-> "record", fs |-> <<F("b", Prim("string")), F("a", Prim("u32"))>>],
     [k |-> "record", fs |-> <<F("a", Prim("u32")), F("c", Prim("string"))>>],
     [k |-> "variant", cs |-> <<F("x", Prim("u32")), F("y", NoT)>>],
     [k |-> "variant", cs |-> <<F("y", NoT), F("x", Prim("u32"))>>],
     \* a type whose member list is a strict prefix of another one's is a different type
     [k |-> "variant", cs |-> <<F("x", Prim("u32")), F("y", NoT), F("z", Prim("string"))>>],
     [k |-> "record", fs |-> <<F("a", Prim("u32"))>>],
     [k |-> "enum", ns |-> <<"p">>], [k |-> "flags", ns |-> <<"p">>],
     [k |-> "tuple", ts |-> <<Prim("u32")>>], [k |-> "tuple", ts |-> <<Prim("u32"), Prim("string")>>],
     [k |-> "enum", ns |-> <<"p", "q">>], [k |-> "enum", ns |-> <<"q", "p">>], [k |-> "flags", ns |-> <<"p", "q">>],
     [k |-> "resource"],
     [k |-> "list", t |-> Prim("u8")]}
    \cup {Ref(j) : j \in 1..(i - 1)}
    \cup UNION {{[k |-> "record", fs |-> <<F("a", Ref(j))>>],
                 [k |-> "tuple", ts |-> <<Prim("u32"), Ref(j)>>],
                 [k |-> "list", t |-> Ref(j)],
                 [k |-> "option", t |-> Ref(j)],
                 [k |-> "result", ok |-> Prim("u32"), err |-> Ref(j)]} : j \in {j \in 1..(i - 1) : IsValue(ds, j)}}
\* handles can only point at resources
HandleTemplates(ds, i) ==
    UNION {{[k |-> "record", fs |-> <<F("h", [k |-> "own", i |-> j])>>],
            [k |-> "record", fs |-> <<F("h", [k |-> "borrow", i |-> j])>>]} : j \in {j \in 1..(i - 1) : ds[j].k = "resource"}}

VARIABLES defs, salt
Init == defs = <<>> /\ salt \in Salts
Next == /\ Len(defs) < N
        /\ \E t \in Templates(defs, Len(defs) + 1) \cup HandleTemplates(defs, Len(defs) + 1) : defs' = Append(defs, t)
        /\ UNCHANGED salt

Sites == <<"import-param", "export-result", "import-result", "export-error", "export-param", "import-error">>
SiteFor(d) == IF Has(defs, defs[d], "borrow")
              THEN (IF (d + salt) % 2 = 0 THEN "import-param" ELSE "export-param")
              ELSE Sites[((d + salt) % Len(Sites)) + 1]
Uses == {[d |-> d, site |-> SiteFor(d)] : d \in {d \in 1..Len(defs) : IsValue(defs, d)}}

Sane == /\ \A i, j \in 1..Len(defs) : DefEq(defs, i, j) = DefEq(defs, j, i)
        /\ \A i, j, l \in 1..Len(defs) : (DefEq(defs, i, j) /\ DefEq(defs, j, l)) => DefEq(defs, i, l)
        /\ \A i, j \in 1..Len(defs) : DefEq(defs, i, j) => Facts(defs, Uses, i) = Facts(defs, Uses, j)

Emit == Len(defs) = N =>
    PrintT(<<"VEC", ToJson([defs |-> defs, salt |-> salt,
                            uses |-> Uses,
                            classes |-> [i \in 1..N |-> ClassOf(defs, i)],
                            facts |-> [i \in 1..N |-> Facts(defs, Uses, i)]])>>)
\* vacuity: some world has a class of three and some world has two resources that stay apart
W_ClassOfThree == ~(Len(defs) = N /\ \E i \in 1..N : Cardinality(ClassOf(defs, i)) >= 3)
W_TwoResources == ~(Len(defs) = N /\ \E i, j \in 1..N : i # j /\ defs[i].k = "resource" /\ defs[j].k = "resource")
=============================================================================
