----------------------------- MODULE WorldGrammar -----------------------------
(* The bounded language of abstract WIT worlds that the generator-level checks enumerate     *)
(* (C09, C12, C13, C15, C16, C29, C30, C31).  A world is described by                         *)
(*   ctor   the type constructor under test         wrap  the position it is placed in        *)
(*   role   parameter or result                     fkind the kind of function using it       *)
(*   dir    imported / exported / both / world-level                                          *)
(* and is rendered to WIT text by vlib/witgen.py:  one interface `i` with a resource `r`,      *)
(* the named definitions the type needs, and one function of the given kind whose parameter   *)
(* or result has type Wrap(wrap, TypeOf(ctor)).  The obligation "every type constructor       *)
(* appears in every position" is the ASSUME at the end (coverage is not left to chance).      *)
EXTENDS CanonValues, Json

CONSTANTS K, Full    \* K: alternatives per cell in the reduced product; Full = TRUE: the whole product; FALSE: every (ctor, wrap, role) once, fkind/dir cycling

Ctors == <<"bool", "u8", "s16", "u32", "s64", "f32", "f64", "char", "string", "list", "list-string", "flist", "map",
           "record", "tuple", "variant", "enum", "option", "result", "result-empty", "flags", "flags33", "own", "borrow",
           "future", "future-unit", "stream", "stream-unit", "errctx", "nested-list", "option-option", "tuple17", "tuple9">>

TypeOf(c) ==
    CASE c \in {"bool", "u8", "s16", "u32", "s64", "f32", "f64", "char", "string", "errctx"} -> P(c)
      [] c = "list" -> T_list(P("u32"))
      [] c = "list-string" -> T_list(P("string"))
      [] c = "flist" -> T_flist(P("u16"), 3)
      [] c = "map" -> T_map(P("string"), P("u32"))
      [] c = "record" -> T_rec(<<P("u32"), P("string")>>)
      [] c = "tuple" -> T_tup(<<P("u8"), P("f64")>>)
      [] c = "variant" -> T_var(<<NoT, P("u32"), P("string")>>)
      [] c = "enum" -> T_enum(3)
      [] c = "option" -> T_opt(P("string"))
      [] c = "result" -> T_res(P("u32"), P("string"))
      [] c = "result-empty" -> T_res(NoT, NoT)
      [] c = "flags" -> T_flags(3)
      [] c = "flags33" -> T_flags(33)
      [] c = "own" -> T_own
      [] c = "borrow" -> T_borrow
      [] c = "future" -> T_future(P("u32"))
      [] c = "future-unit" -> T_future(NoT)
      [] c = "stream" -> T_stream(P("u8"))
      [] c = "stream-unit" -> T_stream(NoT)
      [] c = "nested-list" -> T_list(T_list(P("string")))
      [] c = "option-option" -> T_opt(T_opt(P("u8")))
      [] c = "tuple17" -> T_tup([i \in 1..17 |-> P("u32")])      \* more than MAX_FLAT_PARAMS core values
      [] c = "tuple9" -> T_tup([i \in 1..9 |-> P("u32")])        \* between the async (4) and the sync (16) flattening limits

Wraps == <<"bare", "typedef", "in-list", "in-option", "in-record", "in-variant", "in-tuple", "in-result-ok", "in-result-err",
           "in-future", "in-stream", "in-flist", "in-map-value", "world-type">>

Wrap(w, t) ==
    CASE w \in {"bare", "typedef", "world-type"} -> t
      [] w = "in-list" -> T_list(t)
      [] w = "in-option" -> T_opt(t)
      [] w = "in-record" -> T_rec(<<P("u8"), t>>)
      [] w = "in-variant" -> T_var(<<P("u64"), t>>)
      [] w = "in-tuple" -> T_tup(<<t, P("u16")>>)
      [] w = "in-result-ok" -> T_res(t, NoT)
      [] w = "in-result-err" -> T_res(NoT, t)
      [] w = "in-future" -> T_future(t)
      [] w = "in-stream" -> T_stream(t)
      [] w = "in-flist" -> T_flist(t, 2)
      [] w = "in-map-value" -> T_map(P("u32"), t)

Roles == <<"param", "result">>
FKinds == <<"free", "async-free", "method", "static", "async-method", "ctor">>
Dirs == <<"import", "export", "both", "world-func">>

\* what WIT itself forbids (not generated): borrows outside parameters or inside future/stream
\* payloads, constructors with results, world-level functions that are methods
ValidCombo(c, w, role, fk, d) ==
    /\ c = "borrow" => role = "param" /\ w \notin {"in-future", "in-stream"}
    /\ fk = "ctor" => role = "param"
    /\ d = "world-func" => fk \in {"free", "async-free"}
    /\ w = "world-type" => d = "world-func"

\* feature tags used for the exclusion rule of C16 / C13 (DESIGN.md, C16)
Features(c, w, role, fk, d) ==
    {"ctor:" \o c, "wrap:" \o w, "role:" \o role, "fkind:" \o fk, "dir:" \o d}
    \cup (IF fk \in {"async-free", "async-method"} THEN {"async"} ELSE {})
    \cup (IF c \in {"future", "future-unit", "stream", "stream-unit"} \/ w \in {"in-future", "in-stream"} THEN {"async", "future-or-stream"} ELSE {})
    \cup (IF c = "errctx" THEN {"error-context"} ELSE {})
    \cup (IF c = "flist" \/ w = "in-flist" THEN {"fixed-length-list"} ELSE {})
    \cup (IF c = "flist" /\ w = "typedef" THEN {"named-fixed-length-list"} ELSE {})
    \cup (IF c = "map" \/ w = "in-map-value" THEN {"map"} ELSE {})
    \cup (IF c \in {"own", "borrow"} \/ fk \in {"method", "static", "async-method", "ctor"} THEN {"resource"} ELSE {})

VARIABLES chunk, w
NoW == [ci |-> 0]
NChunks == 16
Init == chunk \in 0..(NChunks - 1) /\ w = NoW
Cyc2(s, i) == s[((i - 1) % Len(s)) + 1]
Next ==
    /\ w = NoW
    /\ \E ci \in 1..Len(Ctors), wi \in 1..Len(Wraps), ri \in 1..Len(Roles) :
         /\ (ci + wi) % NChunks = chunk
         /\ IF Full
            THEN \E fi \in 1..Len(FKinds), di \in 1..Len(Dirs) : w' = [ci |-> ci, wi |-> wi, ri |-> ri, fi |-> fi, di |-> di]
            ELSE \E k \in 0..K :
                   \* first valid (fkind, dir) in a cyclic order that depends on the cell
                   LET fi == ((ci + wi + ri + k) % Len(FKinds)) + 1
                       di == ((ci + 2 * wi + k) % Len(Dirs)) + 1
                   IN w' = [ci |-> ci, wi |-> wi, ri |-> ri, fi |-> fi, di |-> di]
    /\ UNCHANGED chunk

C == Ctors[w.ci]
Wp == Wraps[w.wi]
R == Roles[w.ri]
FK == FKinds[w.fi]
D == Dirs[w.di]

Emit == (w # NoW /\ ValidCombo(C, Wp, R, FK, D)) =>
    PrintT(<<"VEC", ToJson([ctor |-> C, wrap |-> Wp, role |-> R, fkind |-> FK, dir |-> D,
                            t |-> Wrap(Wp, TypeOf(C)), features |-> Features(C, Wp, R, FK, D)])>>)

\* coverage obligation: every constructor in every position that WIT allows
ASSUME \A ci \in 1..Len(Ctors), wi \in 1..Len(Wraps), ri \in 1..Len(Roles) :
          (\E fi \in 1..Len(FKinds), di \in 1..Len(Dirs) : ValidCombo(Ctors[ci], Wraps[wi], Roles[ri], FKinds[fi], Dirs[di]))
          \/ Ctors[ci] = "borrow"
=============================================================================
