---------------------------- MODULE Obs_TestConfig ----------------------------
(* impl -> spec (VAL): each observation is an abstract file with the configuration the real  *)
(* parser produced for one concrete rendering of it; the spec must derive the same.          *)
EXTENDS TestConfig, Json, IOUtils

Obs == ndJsonDeserialize(IOEnv.OBS)
VARIABLE i
Init == i = 1
Next == i < Len(Obs) /\ i' = i + 1
Agrees == Config(Obs[i].file) = Obs[i].config
Inv_Agrees == Agrees \/ Print(<<"MISMATCH", ToJson([obs |-> Obs[i], expected |-> Config(Obs[i].file)])>>, FALSE)
=============================================================================
