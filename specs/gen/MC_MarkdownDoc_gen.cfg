CONSTANT MaxLen = 6
INIT InitG
NEXT NextG
INVARIANT EmitG
CHECK_DEADLOCK FALSE
