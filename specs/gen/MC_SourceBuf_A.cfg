CONSTANTS
  Mode = "A"
  MaxOps = 3
INIT Init
NEXT Next
INVARIANTS ContentPreserved IndentFollowsNesting LiteralIsNeutral BalancedRestores
