CONSTANTS
  MaxFiles = 3
INIT Init
NEXT Next
INVARIANT Emit
