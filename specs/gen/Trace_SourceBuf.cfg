INIT TInit
NEXT TNext
INVARIANTS ContentPreserved LiteralIsNeutral
POSTCONDITION Accepted
CHECK_DEADLOCK FALSE
