------------------------------- MODULE TypeEq -------------------------------
(* Type analysis of wit_bindgen_core::Types (crates/core/src/types.rs), property C28.        *)
(*                                                                                           *)
(* A model world is a sequence `defs` of named type definitions of one interface; a          *)
(* definition body is a type expression                                                      *)
(*    [k |-> "prim", p]                       p in {"u32", "string", ...}                    *)
(*    [k |-> "ref", i]                        the i-th definition (i smaller than own index) *)
(*    [k |-> "record", fs]  fs: sequence of [n, t]      [k |-> "variant", cs] cs: [n, t|NoT] *)
(*    [k |-> "enum", ns]    [k |-> "flags", ns]         ns: sequence of names                *)
(*    [k |-> "tuple", ts]   [k |-> "list", t]  [k |-> "option", t]  [k |-> "result", ok, err]*)
(*    [k |-> "resource"]    [k |-> "own", i]  [k |-> "borrow", i]   (i: a resource def)      *)
(* and `uses` says where each definition is mentioned by functions:                          *)
(*    [d, site] with site in {"import-param", "import-result", "import-error",               *)
(*                            "export-param", "export-result", "export-error"}               *)
(* (-error: the function returns result<_, Td>).                                             *)
EXTENDS Naturals, Sequences, FiniteSets, TLC

NoT == [k |-> "none"]
Prim(p) == [k |-> "prim", p |-> p]
Ref(i) == [k |-> "ref", i |-> i]

\* ---- structural equality: same kind, same names in the same order, equal components;
\* named definitions and aliases are transparent; a resource is equal only to itself.
RECURSIVE Eq(_, _, _)
Eq(defs, a, b) ==
    CASE a.k = "ref" /\ b.k = "ref" /\ a.i = b.i -> TRUE
      [] a.k = "ref" /\ defs[a.i].k # "resource" -> Eq(defs, defs[a.i], b)
      [] b.k = "ref" /\ defs[b.i].k # "resource" -> Eq(defs, a, defs[b.i])
      [] a.k = "ref" \/ b.k = "ref" -> FALSE               \* a resource against something else (or another resource)
      [] a.k # b.k -> FALSE
      [] a.k = "none" -> TRUE
      [] a.k = "prim" -> a.p = b.p
      [] a.k = "record" -> Len(a.fs) = Len(b.fs) /\ \A j \in 1..Len(a.fs) : a.fs[j].n = b.fs[j].n /\ Eq(defs, a.fs[j].t, b.fs[j].t)
      [] a.k = "variant" -> Len(a.cs) = Len(b.cs) /\ \A j \in 1..Len(a.cs) : a.cs[j].n = b.cs[j].n /\ Eq(defs, a.cs[j].t, b.cs[j].t)
      [] a.k \in {"enum", "flags"} -> a.ns = b.ns
      [] a.k = "tuple" -> Len(a.ts) = Len(b.ts) /\ \A j \in 1..Len(a.ts) : Eq(defs, a.ts[j], b.ts[j])
      [] a.k \in {"list", "option"} -> Eq(defs, a.t, b.t)
      [] a.k = "result" -> Eq(defs, a.ok, b.ok) /\ Eq(defs, a.err, b.err)
      [] a.k \in {"own", "borrow"} -> a.i = b.i
      [] a.k = "resource" -> FALSE                         \* two distinct resource definitions

DefEq(defs, i, j) == i = j \/ Eq(defs, Ref(i), Ref(j))
\* the expected partition: classes of DefEq (an equivalence by construction; checked by MC)
ClassOf(defs, i) == {j \in 1..Len(defs) : DefEq(defs, i, j)}

\* ---- content facts of a type expression (what the definition implies)
RECURSIVE Has(_, _, _)
Has(defs, t, what) ==
    CASE t.k = "none" -> FALSE
      [] t.k = "prim" -> what = "list" /\ t.p = "string"
      [] t.k = "ref" -> Has(defs, defs[t.i], what)
      [] t.k = "record" -> \E j \in 1..Len(t.fs) : Has(defs, t.fs[j].t, what)
      [] t.k = "variant" -> \E j \in 1..Len(t.cs) : Has(defs, t.cs[j].t, what)
      [] t.k \in {"enum", "flags"} -> FALSE
      [] t.k = "tuple" -> what = "tuple" \/ \E j \in 1..Len(t.ts) : Has(defs, t.ts[j], what)
      [] t.k = "list" -> what = "list" \/ Has(defs, t.t, what)
      [] t.k = "option" -> Has(defs, t.t, what)
      [] t.k = "result" -> Has(defs, t.ok, what) \/ Has(defs, t.err, what)
      [] t.k = "resource" -> what = "resource"
      [] t.k = "own" -> what \in {"resource", "own"}
      [] t.k = "borrow" -> what \in {"resource", "borrow"}

\* ---- usage facts: a definition is used at a site if a function mentions it there directly
\* or mentions a definition that (transitively) contains it
RECURSIVE Mentions(_, _, _)
Mentions(defs, t, i) ==       \* does type expression t reach definition i?
    CASE t.k \in {"none", "prim", "enum", "flags", "resource"} -> FALSE
      [] t.k = "ref" -> t.i = i \/ Mentions(defs, defs[t.i], i)
      [] t.k = "record" -> \E j \in 1..Len(t.fs) : Mentions(defs, t.fs[j].t, i)
      [] t.k = "variant" -> \E j \in 1..Len(t.cs) : Mentions(defs, t.cs[j].t, i)
      [] t.k = "tuple" -> \E j \in 1..Len(t.ts) : Mentions(defs, t.ts[j], i)
      [] t.k \in {"list", "option"} -> Mentions(defs, t.t, i)
      [] t.k = "result" -> Mentions(defs, t.ok, i) \/ Mentions(defs, t.err, i)
      [] t.k \in {"own", "borrow"} -> t.i = i
Reaches(defs, d, i) == d = i \/ Mentions(defs, defs[d], i)

BorrowedSites == {"import-param"}
OwnedSites == {"import-result", "import-error", "export-param", "export-result", "export-error"}
ErrorSites == {"import-error", "export-error"}
\* the error fact is attached to the definition named in the error position itself (aliases chased)
RECURSIVE Target(_, _)
Target(defs, d) == IF defs[d].k = "ref" THEN Target(defs, defs[d].i) ELSE d

OwnFacts(defs, uses, i) ==
    [list |-> Has(defs, defs[i], "list"), tuple |-> Has(defs, defs[i], "tuple"), resource |-> Has(defs, defs[i], "resource"),
     own |-> Has(defs, defs[i], "own"), borrow |-> Has(defs, defs[i], "borrow"),
     borrowed |-> \E u \in uses : u.site \in BorrowedSites /\ Reaches(defs, u.d, i),
     owned |-> \E u \in uses : u.site \in OwnedSites /\ Reaches(defs, u.d, i),
     error |-> \E u \in uses : u.site \in ErrorSites /\ Target(defs, u.d) = i]
FactNames == {"list", "tuple", "resource", "own", "borrow", "borrowed", "owned", "error"}
\* equal types share the union of the facts of their class
Facts(defs, uses, i) == [f \in FactNames |-> \E j \in ClassOf(defs, i) : OwnFacts(defs, uses, j)[f]]
=============================================================================
