CONSTANTS
  Full = FALSE
  K = 1
INIT Init
NEXT Next
INVARIANT Emit
