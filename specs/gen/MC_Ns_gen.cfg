CONSTANTS
  Names = {"a", "a0", "a1", "b", "b0"}
  Bases = {"a", "b", "a0"}
  MaxOps = 5
INIT MCInit
NEXT MCNext
INVARIANTS FreshTmp ConflictReported EverythingHandedOutIsDefined Monotone Emit
