CONSTANTS
  MaxLines = 4
INIT Init
NEXT Next
INVARIANTS OnlyLeadingMatters StringListEquivalence Emit
