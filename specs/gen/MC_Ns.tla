------------------------------ MODULE MC_Ns ------------------------------
(* Bounded instance of Ns with a history variable for vector generation (GEN mode). *)
EXTENDS Ns, Json

VARIABLE hist
mcvars == <<vars, hist>>

MCInit == Init /\ hist = <<>>
MCNext == /\ nops < MaxOps
          /\ Next
          /\ hist' = Append(hist, last')
MCView == vars   \* MC mode: the history is not part of the state

\* GEN mode: one vector per maximal history
Emit == (nops = MaxOps) => PrintT(<<"VEC", ToJson([hist |-> hist, defined |-> defined, absent |-> (Names \cup Bases) \ defined])>>)
=============================================================================
