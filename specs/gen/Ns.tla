------------------------------- MODULE Ns -------------------------------
(* Namespace helper of the generators (crates/core/src/ns.rs), property C26.            *)
(*                                                                                       *)
(* State: the set of defined names and the shared counter used to build temporaries.     *)
(* One action per public call.  `last` is the observable result of the call (what the    *)
(* harness compares), `before` the set of names defined before the call (what the        *)
(* property talks about).                                                                *)
EXTENDS Naturals, Sequences, FiniteSets, TLC

CONSTANTS Names,      \* names that may be Insert-ed
          Bases,      \* names that may be asked as a temporary base
          MaxOps      \* bound on the history length (state constraint)

VARIABLES defined, tmp, last, before, nops

vars == <<defined, tmp, last, before, nops>>

NoCall == [op |-> "none"]

Init == /\ defined = {}
        /\ tmp = 0
        /\ last = NoCall
        /\ before = {}
        /\ nops = 0

\* --- Insert: Ok exactly when the name was not defined
Insert(n) ==
    /\ before' = defined
    /\ defined' = defined \cup {n}
    /\ last' = [op |-> "insert", arg |-> n, res |-> IF n \in defined THEN "err" ELSE "ok"]
    /\ UNCHANGED tmp
    /\ nops' = nops + 1

\* --- Tmp: the loop of ns.rs.  `k` is the number of loop iterations; the result is the
\* base itself when k = 0 and base ++ (tmp + k - 1) otherwise.
Candidate(b, t, k) == IF k = 0 THEN b ELSE b \o ToString(t + k - 1)

RECURSIVE Iterations(_, _, _)
Iterations(b, t, k) ==
    IF Candidate(b, t, k) \in defined THEN Iterations(b, t, k + 1) ELSE k

Tmp(b) ==
    LET k == Iterations(b, tmp, 0)
        r == Candidate(b, tmp, k)
    IN /\ before' = defined
       /\ defined' = defined \cup {r}
       /\ tmp' = tmp + k
       /\ last' = [op |-> "tmp", arg |-> b, res |-> r]
       /\ nops' = nops + 1

Next == \/ \E n \in Names : Insert(n)
        \/ \E b \in Bases : Tmp(b)

Spec == Init /\ [][Next]_vars

Bound == nops <= MaxOps

-----------------------------------------------------------------------------
\* The property (C26), stated on observable results only.

FreshTmp == last.op = "tmp" => last.res \notin before
ConflictReported == last.op = "insert" => (last.res = "err" <=> last.arg \in before)
EverythingHandedOutIsDefined == last.op # "none" => (IF last.op = "tmp" THEN last.res ELSE last.arg) \in defined
Monotone == before \subseteq defined

\* Witnesses (negated in MC_Ns_witness.cfg to prove non-vacuity)
W_TmpWithSuffix == ~(last.op = "tmp" /\ last.res # last.arg)
W_TmpSkipsDefinedSuffix == ~(last.op = "tmp" /\ last.arg = "a" /\ last.res = "a1" /\ {"a", "a0"} \subseteq before)
W_InsertErr == ~(last.op = "insert" /\ last.res = "err")
=============================================================================
