--------------------------- MODULE MC_MarkdownDoc ---------------------------
(* MC: over every well-formed event string up to MaxLen, the rewriting pass introduces no     *)
(* nesting as long as the documentation contains no raw HTML anchors; with raw anchors it can *)
(* (witness W_RawAnchor: the model's prediction of finding F-C29-1).                          *)
(* GEN: documents for the real generator: every pair of documentation line kinds on the three *)
(* documented positions (function, type, field).                                              *)
EXTENDS MarkdownDoc, Json
CONSTANT MaxLen

VARIABLES s, doc
Init == s = <<>> /\ doc = <<>>
Next == Len(s) < MaxLen /\ (\E e \in Events : s' = Append(s, e)) /\ UNCHANGED doc

\* raw anchors properly nested with respect to Markdown links (what a browser would accept as input)
RECURSIVE BalancedFrom(_, _, _)
BalancedFrom(t, i, stack) ==
    IF i > Len(t) THEN stack = <<>>
    ELSE CASE t[i] \in {"L+", "H+"} -> BalancedFrom(t, i + 1, Append(stack, t[i]))
           [] t[i] = "L-" -> stack # <<>> /\ stack[Len(stack)] = "L+" /\ BalancedFrom(t, i + 1, SubSeq(stack, 1, Len(stack) - 1))
           [] t[i] = "H-" -> stack # <<>> /\ stack[Len(stack)] = "H+" /\ BalancedFrom(t, i + 1, SubSeq(stack, 1, Len(stack) - 1))
           [] OTHER -> BalancedFrom(t, i + 1, stack)
Balanced(t) == BalancedFrom(t, 1, <<>>)
Safe == (WellFormed(s) /\ Balanced(s)) => NoNewNesting(s)
SafeWithoutRawHtml == (WellFormed(s) /\ ~HasRawAnchor(s)) => NoNewNestingOld(s)
W_RawAnchor == ~(WellFormed(s) /\ Balanced(s) /\ MaxDepth(s) <= 1 /\ MaxDepth(RewriteOld(s)) > 1)
Monotone == WellFormed(s) => MaxDepth(Rewrite(s)) >= MaxDepth(s)

\* ---- GEN
LineKinds == <<"braces", "slashes", "known-code", "md-link-code", "html-link-code", "unknown-code", "meta", "leading-brace", "padded", "comment-markers">>
InitG == doc = <<>> /\ s = <<>>
NextG == UNCHANGED s /\ doc = <<>> /\ \E a \in 1..Len(LineKinds), b \in 1..Len(LineKinds), pos \in {"func", "type", "field"} : doc' = <<LineKinds[a], LineKinds[b], pos>>
EmitG == doc # <<>> => PrintT(<<"VEC", ToJson([first |-> doc[1], second |-> doc[2], pos |-> doc[3]])>>)
=============================================================================
