----------------------------- MODULE MarkdownDoc -----------------------------
(* Markdown/HTML documentation generator (crates/markdown/src/lib.rs), property C29.         *)
(*                                                                                           *)
(* Part 1 -- the link-rewriting pass of Markdown::finish as a machine over the event stream  *)
(* of the Markdown parser.  Events:                                                          *)
(*    "L+" / "L-"   start / end of a Markdown link           (parser guarantees: not nested) *)
(*    "H+" / "H-"   raw inline HTML `<a href=..>` / `</a>`   (passed through verbatim)       *)
(*    "K"           a code span whose text is a key of `hrefs` (a known item name)           *)
(*    "U"           any other code span,   "T" text                                          *)
(* Output: the same events, a "K" outside a *Markdown* link wrapped as  "W+" "K" "W-".       *)
(* Link depth of the rendered HTML counts L, W and H anchors.                                *)
(*                                                                                           *)
(* Part 2 -- the clauses of C29 over an observation of a generated document:                 *)
(*    tokens   the `<a ...>` / `</a>` sequence of the HTML: "open-link", "open-anchor"        *)
(*             (an <a> without href), "close"                                                *)
(*    ids      all id attributes,   refs   all href="#frag" fragments                        *)
(*    docs     the documentation lines of the world (trimmed, non-empty)                     *)
(*    md       the lines of the generated Markdown source (trimmed)                          *)
EXTENDS Naturals, Sequences, FiniteSets, SequencesExt, TLC

Events == {"L+", "L-", "H+", "H-", "K", "U", "T"}

\* what the Markdown parser can produce: L+/L- balanced and not nested; H+/H- arbitrary (raw HTML is not parsed)
RECURSIVE WellFormedFrom(_, _, _)
WellFormedFrom(s, i, inL) ==
    IF i > Len(s) THEN ~inL
    ELSE CASE s[i] = "L+" -> ~inL /\ WellFormedFrom(s, i + 1, TRUE)
           [] s[i] = "L-" -> inL /\ WellFormedFrom(s, i + 1, FALSE)
           [] OTHER -> WellFormedFrom(s, i + 1, inL)
WellFormed(s) == WellFormedFrom(s, 1, FALSE)

\* Markdown::finish.  `raw` = TRUE: raw HTML anchors toggle the in-link flag as well (the code after fix F-C29-1);
\* raw = FALSE is the pass as it was, kept to show what the fix changed (MC_MarkdownDoc.W_RawAnchor).
RECURSIVE RewriteFrom(_, _, _, _)
RewriteFrom(s, i, inLink, raw) ==
    IF i > Len(s) THEN <<>>
    ELSE CASE s[i] = "L+" -> <<"L+">> \o RewriteFrom(s, i + 1, TRUE, raw)
           [] s[i] = "L-" -> <<"L-">> \o RewriteFrom(s, i + 1, FALSE, raw)
           [] s[i] = "H+" /\ raw -> <<"H+">> \o RewriteFrom(s, i + 1, TRUE, raw)
           [] s[i] = "H-" /\ raw -> <<"H-">> \o RewriteFrom(s, i + 1, FALSE, raw)
           [] s[i] = "K" /\ ~inLink -> <<"W+", "K", "W-">> \o RewriteFrom(s, i + 1, inLink, raw)
           [] OTHER -> <<s[i]>> \o RewriteFrom(s, i + 1, inLink, raw)
Rewrite(s) == RewriteFrom(s, 1, FALSE, TRUE)
RewriteOld(s) == RewriteFrom(s, 1, FALSE, FALSE)

Opens == {"L+", "W+", "H+"}
Closes == {"L-", "W-", "H-"}
RECURSIVE MaxDepthFrom(_, _, _, _)
MaxDepthFrom(s, i, d, m) ==
    IF i > Len(s) THEN m
    ELSE IF s[i] \in Opens THEN MaxDepthFrom(s, i + 1, d + 1, IF d + 1 > m THEN d + 1 ELSE m)
    ELSE IF s[i] \in Closes THEN MaxDepthFrom(s, i + 1, IF d > 0 THEN d - 1 ELSE 0, m)
    ELSE MaxDepthFrom(s, i + 1, d, m)
MaxDepth(s) == MaxDepthFrom(s, 1, 0, 0)

\* C29 clause 1 on the model: a document whose own links are not nested stays that way
NoNewNesting(s) == MaxDepth(s) <= 1 => MaxDepth(Rewrite(s)) <= 1
NoNewNestingOld(s) == MaxDepth(s) <= 1 => MaxDepth(RewriteOld(s)) <= 1
HasRawAnchor(s) == \E i \in 1..Len(s) : s[i] \in {"H+", "H-"}

-----------------------------------------------------------------------------
\* Part 2: observations
RECURSIVE LinkDepthFrom(_, _, _, _, _)
\* stack of open <a> elements as a sequence of "link"/"anchor"; nesting = a link opened while a link is open
LinkDepthFrom(toks, i, stack, open, worst) ==
    IF i > Len(toks) THEN worst
    ELSE CASE toks[i] = "open-link" -> LinkDepthFrom(toks, i + 1, Append(stack, "link"), open + 1, IF open + 1 > worst THEN open + 1 ELSE worst)
           [] toks[i] = "open-anchor" -> LinkDepthFrom(toks, i + 1, Append(stack, "anchor"), open, worst)
           [] toks[i] = "close" ->
                 IF stack = <<>> THEN LinkDepthFrom(toks, i + 1, stack, open, worst)
                 ELSE LinkDepthFrom(toks, i + 1, SubSeq(stack, 1, Len(stack) - 1),
                                    IF stack[Len(stack)] = "link" THEN open - 1 ELSE open, worst)
           [] OTHER -> LinkDepthFrom(toks, i + 1, stack, open, worst)
LinkDepth(toks) == LinkDepthFrom(toks, 1, <<>>, 0, 0)

NoNestedLinks(o) == LinkDepth(o.tokens) <= 1
RefsDefined(o) == ToSet(o.refs) \subseteq ToSet(o.ids)
DocsVerbatim(o) == ToSet(o.docs) \subseteq ToSet(o.md)
Conforms(o) == NoNestedLinks(o) /\ RefsDefined(o) /\ DocsVerbatim(o)
Failing(o) == (IF NoNestedLinks(o) THEN {} ELSE {"NoNestedLinks"}) \cup (IF RefsDefined(o) THEN {} ELSE {"RefsDefined"})
              \cup (IF DocsVerbatim(o) THEN {} ELSE {"DocsVerbatim"})
Missing(o) == [refs |-> ToSet(o.refs) \ ToSet(o.ids), docs |-> ToSet(o.docs) \ ToSet(o.md)]
=============================================================================
