--------------------------- MODULE PkgModuleName ---------------------------
(* Generated module names for WIT packages (crates/core/src/path.rs), property C27.        *)
(*                                                                                         *)
(* A package is [name, ver]: `name` a kebab-case name and `ver` a semantic version, both as *)
(* sequences of one-character strings; `NoVer` (the empty sequence) means unversioned.     *)
(* All packages of a set live in one namespace.                                            *)
EXTENDS Naturals, Sequences, FiniteSets, TLC

NoVer == <<>>

Lower == {"a", "b", "c", "r", "f", "o"}
Upper == {"A", "B", "C", "R"}
Digit == {"0", "1", "2", "3", "4", "5", "6", "7", "8", "9"}
ToLower(c) == CASE c = "A" -> "a" [] c = "B" -> "b" [] c = "C" -> "c" [] c = "R" -> "r" [] OTHER -> c

RECURSIVE MapSeq(_, _)
MapSeq(Op(_), s) == IF s = <<>> THEN <<>> ELSE <<Op(Head(s))>> \o MapSeq(Op, Tail(s))

\* --- heck::ToSnakeCase on this alphabet: words are separated by any non-alphanumeric
\* character and by a lower-case -> upper-case boundary; also an upper-case run followed by
\* a lower-case letter starts a new word at its last upper-case letter ("ABc" -> "a_bc").
IsSep(c) == c \notin (Lower \cup Upper \cup Digit)

RECURSIVE SnakeWords(_, _, _)
\* s: remaining chars, cur: current word (reversed order not needed, appended), prev: previous char or ""
SnakeWords(s, cur, words) ==
    IF s = <<>> THEN (IF cur = <<>> THEN words ELSE Append(words, cur))
    ELSE LET c == Head(s)
             rest == Tail(s)
             prev == IF cur = <<>> THEN "" ELSE cur[Len(cur)]
             next == IF rest = <<>> THEN "" ELSE Head(rest)
         IN IF IsSep(c) THEN SnakeWords(rest, <<>>, IF cur = <<>> THEN words ELSE Append(words, cur))
            ELSE IF cur # <<>> /\ c \in Upper /\ prev \in Lower
                 THEN SnakeWords(rest, <<c>>, Append(words, cur))
            ELSE IF cur # <<>> /\ c \in Upper /\ prev \in Upper /\ next \in Lower
                 THEN SnakeWords(rest, <<c>>, Append(words, cur))
            ELSE SnakeWords(rest, Append(cur, c), words)

RECURSIVE JoinWords(_)
JoinWords(ws) == IF ws = <<>> THEN <<>>
                 ELSE IF Len(ws) = 1 THEN MapSeq(ToLower, ws[1])
                 ELSE MapSeq(ToLower, ws[1]) \o <<"_">> \o JoinWords(Tail(ws))

Snake(s) == JoinWords(SnakeWords(s, <<>>, <<>>))

\* --- the transcription of name_package_module
ReplaceSeps(v) == MapSeq(LAMBDA c : IF c \in {".", "-", "+"} THEN "_" ELSE c, v)

ModuleName(pkgs, p) ==
    LET same == {q \in pkgs : q.name = p.name}
        base == Snake(p.name)
    IN IF Cardinality(same) = 1 THEN base
       ELSE IF p.ver = NoVer THEN base
       ELSE base \o Snake(ReplaceSeps(p.ver))

\* --- C27
Injective(pkgs) == \A p, q \in pkgs : p # q => ModuleName(pkgs, p) # ModuleName(pkgs, q)
=============================================================================
