------------------------------ MODULE CheckMode ------------------------------
(* `wit-bindgen <lang> --check` (src/bin/wit-bindgen.rs), property C33.                     *)
(*                                                                                          *)
(* The output directory holds, for every file the generator would write, one of:            *)
(*   "same"     identical bytes            "missing"  no such file                          *)
(*   "altered"  some byte changed          "crlf"     only LF -> CRLF changed (text files)  *)
(*   "truncated" / "extended" / "empty"    the length differs, the common part does not      *)
(* plus possibly unrelated extra files.  A check run must succeed exactly when every file    *)
(* is "same", must say so when the only differences are line endings, and must leave the     *)
(* directory exactly as it found it.                                                         *)
EXTENDS Naturals, Sequences, FiniteSets, TLC

\* "truncated" (a proper prefix), "extended" (the expected bytes followed by more) and "empty" differ from the expected
\* contents in length only: no byte of the common part changed
States == {"same", "missing", "altered", "crlf", "truncated", "extended", "empty"}

AllSame(fs) == \A i \in 1..Len(fs) : fs[i] = "same"
OnlyLineEndings(fs) == ~AllSame(fs) /\ \A i \in 1..Len(fs) : fs[i] \in {"same", "crlf"}

\* the obligations on one run: observed = [exit0, saysLineEndings, dirChanged]
Conforms(fs, obs) ==
    /\ obs.exit0 <=> AllSame(fs)
    /\ OnlyLineEndings(fs) => obs.saysLineEndings
    /\ AllSame(fs) => ~obs.saysLineEndings
    /\ ~obs.dirChanged
=============================================================================
