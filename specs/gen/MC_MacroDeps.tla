---------------------------- MODULE MC_MacroDeps ----------------------------
EXTENDS MacroDeps, Json
VARIABLE lay
Init == lay = <<>>
Next == lay = <<>> /\ \E fs \in SUBSET Optional, f \in Forms : ValidLayout(fs, f) /\ lay' = <<fs, f>>
Emit == lay # <<>> => PrintT(<<"VEC", ToJson([files |-> SetToSeq(lay[1]), form |-> lay[2], read |-> SetToSeq(Read(lay[1], lay[2]))])>>)
\* sanity of the model: nothing outside the layout is read, non-WIT and nested files never are
Sane == lay # <<>> => /\ Read(lay[1], lay[2]) \subseteq lay[1] \cup {"wit/a.wit"}
                      /\ Read(lay[1], lay[2]) \cap {"wit/notes.md", "wit/deps/d1/deps/n.wit"} = {}
=============================================================================
