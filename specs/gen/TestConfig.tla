------------------------------ MODULE TestConfig ------------------------------
(* Test configuration in leading comments (crates/test/src/config.rs), property C34.        *)
(*                                                                                          *)
(* A file is a sequence of lines.  A line is [ind, pre, body]: `ind` leading blanks, `pre`  *)
(* the comment prefix it starts with ("m" = the language's marker such as //@ or ;;@,       *)
(* "c" = a plain line comment, "o" = another language's marker, "n" = none), and `body` an  *)
(* abstract TOML fragment.  The harness renders lines to text; the *meaning* of each body    *)
(* is fixed here:                                                                           *)
(*    argsS / argsL   args = '--x  --y'   /  args = ['--x', '--y']     (same words)          *)
(*    argsS2          args = ' -z '                                                           *)
(*    flagsS / flagsL wasmtime-flags = '-W a' / ['-W', 'a']                                 *)
(*    bogus           unknown-key = 1          (rejected: unknown field)                    *)
(*    blank           nothing after the prefix                                              *)
(*    code            something that is not TOML                                            *)
EXTENDS Naturals, Sequences, FiniteSets, TLC

Bodies == {"argsS", "argsL", "argsS2", "flagsS", "flagsL", "bogus", "blank", "code"}

Key(b) == CASE b \in {"argsS", "argsL", "argsS2"} -> "args"
            [] b \in {"flagsS", "flagsL"} -> "flags"
            [] b = "bogus" -> "bogus"
            [] OTHER -> "none"

Words(b) == CASE b \in {"argsS", "argsL"} -> <<"--x", "--y">>
              [] b = "argsS2" -> <<"-z">>
              [] b = "flagsS" -> <<"-W", "a">>
              [] b = "flagsL" -> <<"-W", "a">>
              [] OTHER -> <<>>

IsMarker(l) == l.ind = 0 /\ l.pre = "m"

RECURSIVE Leading(_)
\* the leading block: lines up to (excluding) the first line that does not start with the marker
Leading(f) == IF f = <<>> \/ ~IsMarker(Head(f)) THEN <<>> ELSE <<Head(f)>> \o Leading(Tail(f))

\* The configuration denoted by a block of marker lines (the TOML document of their bodies):
\* an error if it contains non-TOML text, an unknown key or a repeated key.
Err == [ok |-> FALSE, args |-> <<>>, flags |-> <<>>]
Unset == [ok |-> TRUE, args |-> <<"unset">>, flags |-> <<"unset">>]

RECURSIVE Fold(_, _)
Fold(block, acc) ==
    IF ~acc.ok \/ block = <<>> THEN acc
    ELSE LET b == Head(block).body
         IN IF b = "blank" THEN Fold(Tail(block), acc)
            ELSE IF b = "code" \/ b = "bogus" THEN Err
            ELSE IF Key(b) = "args" THEN (IF acc.args # <<"unset">> THEN Err
                                           ELSE Fold(Tail(block), [acc EXCEPT !.args = Words(b)]))
            ELSE (IF acc.flags # <<"unset">> THEN Err
                  ELSE Fold(Tail(block), [acc EXCEPT !.flags = Words(b)]))

Defaults(c) == IF ~c.ok THEN c
               ELSE [ok |-> TRUE,
                     args |-> IF c.args = <<"unset">> THEN <<>> ELSE c.args,
                     flags |-> IF c.flags = <<"unset">> THEN <<>> ELSE c.flags]

Config(f) == Defaults(Fold(Leading(f), Unset))
=============================================================================
