CONSTANTS
  Names = {}
  Bases = {}
  MaxOps = 0
INIT TInit
NEXT TNext
INVARIANTS FreshTmp ConflictReported EverythingHandedOutIsDefined Monotone
POSTCONDITION Accepted
CHECK_DEADLOCK FALSE
