INIT Init
NEXT Next
INVARIANTS Inv_Agrees Inv_Distinct
CHECK_DEADLOCK FALSE
