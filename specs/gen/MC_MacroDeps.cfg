INIT Init
NEXT Next
INVARIANT Emit
INVARIANT Sane
CHECK_DEADLOCK FALSE
