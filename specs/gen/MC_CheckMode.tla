----------------------------- MODULE MC_CheckMode -----------------------------
(* GEN: all directory states over up to MaxFiles generated files (binary files cannot be     *)
(* in state "crlf"), with and without an unrelated extra file.  VAL: observations of real    *)
(* runs (file OBS) are judged by Conforms.                                                   *)
EXTENDS CheckMode, Json, IOUtils
CONSTANTS MaxFiles

VARIABLES dir
Init == dir = <<>>
Next == Len(dir) < MaxFiles /\ \E s \in States : dir' = Append(dir, s)
Emit == Len(dir) >= 1 => PrintT(<<"VEC", ToJson([files |-> dir, mustSucceed |-> AllSame(dir), mustSayLineEndings |-> OnlyLineEndings(dir)])>>)
=============================================================================
