--------------------------- MODULE Obs_MoonPkgGraph ---------------------------
EXTENDS MoonPkgGraph, Json, IOUtils
Obs == ndJsonDeserialize(IOEnv.OBS)
VARIABLE i
Init == i = 1
Next == i < Len(Obs) /\ i' = i + 1
Inv == Conforms(Obs[i]) \/ Print(<<"MISMATCH", ToJson([id |-> Obs[i].id, failing |-> Failing(Obs[i])])>>, FALSE)
=============================================================================
