----------------------------- MODULE Trace_Ns -----------------------------
(* Trace validation of recorded Ns histories (impl -> spec).  Each line of the ndjson     *)
(* file named by the environment variable TRACE is one public call with its result; the   *)
(* spec's own action must produce exactly that result.  `reset` starts a new history.     *)
EXTENDS Ns, Json, IOUtils

Rec == ndJsonDeserialize(IOEnv.TRACE)

VARIABLE l
tvars == <<vars, l>>

TInit == Init /\ l = 1

IsEv(op) == l <= Len(Rec) /\ Rec[l].op = op /\ l' = l + 1

TReset == /\ IsEv("reset")
          /\ defined' = {} /\ tmp' = 0 /\ last' = NoCall /\ before' = {} /\ nops' = 0

TInsert == /\ IsEv("insert")
           /\ Insert(Rec[l].arg)
           /\ last'.res = Rec[l].res

TTmp == /\ IsEv("tmp")
        /\ Tmp(Rec[l].arg)
        /\ last'.res = Rec[l].res

TNext == TReset \/ TInsert \/ TTmp

TSpec == TInit /\ [][TNext]_tvars

Accepted ==
    LET d == TLCGet("stats").diameter IN
    IF d - 1 = Len(Rec) THEN TRUE
    ELSE Print(<<"REJECTED", ToJson([matched |-> d - 1, total |-> Len(Rec), next |-> Rec[d]])>>, FALSE)
=============================================================================
