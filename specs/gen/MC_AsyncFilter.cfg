CONSTANTS
  MaxDirs = 2
INIT Init
NEXT Next
INVARIANTS AnswerIsDocumented UsedAreDecisive RejectsWhatMatchedNothing AcceptsWhenAllDecisive
