INIT Init
NEXT Next
INVARIANT Deterministic
CHECK_DEADLOCK FALSE
