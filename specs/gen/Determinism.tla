----------------------------- MODULE Determinism -----------------------------
(* Property C15: binding generation is a *function* of (WIT input, backend, options) -- not  *)
(* of the process that runs it.  An observation is one such unit with the outputs of k        *)
(* independent processes, each summarised as a sequence of <<file name, content hash>> pairs  *)
(* sorted by name; `check` is the exit status of a following --check run against the first    *)
(* output (it must not report a spurious difference).                                          *)
EXTENDS Naturals, Sequences, TLC, Json, IOUtils

Obs == ndJsonDeserialize(IOEnv.OBS)
VARIABLE i
Init == i = 1
Next == i < Len(Obs) /\ i' = i + 1

SameOutputs(o) == \A a, b \in 1..Len(o.runs) : o.runs[a] = o.runs[b]
CheckAgrees(o) == o.check = "skipped" \/ o.check = "ok"
Deterministic ==
    LET o == Obs[i] IN
    (SameOutputs(o) /\ CheckAgrees(o)) \/ Print(<<"NONDET", ToJson([unit |-> o.unit, check |-> o.check, differing |-> o.differing])>>, FALSE)
=============================================================================
