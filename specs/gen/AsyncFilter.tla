----------------------------- MODULE AsyncFilter -----------------------------
(* --async selection directives (crates/core/src/async_.rs), property C17.                   *)
(*                                                                                           *)
(* A directive is [en, kind, name]: kind "all" | "fn" | "import" | "export".                 *)
(* A function is [name, imp, decl]: its qualified name ("f", "ns:pkg/iface#f",               *)
(* "ns:pkg/iface#[method]r.m"), whether it is imported, whether the WIT declares it async.   *)
EXTENDS Naturals, Sequences, FiniteSets, TLC

Matches(d, f) ==
    \/ d.kind = "all"
    \/ d.kind = "fn" /\ d.name = f.name
    \/ d.kind = "import" /\ f.imp /\ d.name = f.name
    \/ d.kind = "export" /\ ~f.imp /\ d.name = f.name

\* index of the first directive matching f, 0 if none
RECURSIVE FirstMatchFrom(_, _, _)
FirstMatchFrom(dirs, f, i) ==
    IF i > Len(dirs) THEN 0 ELSE IF Matches(dirs[i], f) THEN i ELSE FirstMatchFrom(dirs, f, i + 1)
FirstMatch(dirs, f) == FirstMatchFrom(dirs, f, 1)

\* C17, clause 1: the documented selection
IsAsync(dirs, f) == LET i == FirstMatch(dirs, f) IN IF i = 0 THEN f.decl ELSE dirs[i].en

\* directives that decided some function of the world
Decisive(dirs, funcs) == { FirstMatch(dirs, f) : f \in funcs } \ {0}
\* directives that match no function of the world at all ("matched nothing")
MatchesNothing(dirs, funcs) == { i \in 1..Len(dirs) : dirs[i].kind # "all" /\ \A f \in funcs : ~Matches(dirs[i], f) }

\* C17, clause 3 (Rust): a directive that matched nothing must be rejected; if every
\* non-"all" directive decided some function there is nothing to reject.  (A directive that
\* names an existing function but is shadowed by an earlier one is not judged.)
MustReject(dirs, funcs) == MatchesNothing(dirs, funcs) # {}
MustAccept(dirs, funcs) == \A i \in 1..Len(dirs) : dirs[i].kind = "all" \/ i \in Decisive(dirs, funcs)

\* ---- the stateful object: answers are given one query at a time, `used` accumulates
VARIABLES dirs, funcs, used, asked, last
vars == <<dirs, funcs, used, asked, last>>

Query(f) ==
    /\ f \in funcs
    /\ LET i == FirstMatch(dirs, f) IN
       /\ used' = IF i = 0 THEN used ELSE used \cup {i}
       /\ last' = [f |-> f, ans |-> IF i = 0 THEN f.decl ELSE dirs[i].en]
    /\ asked' = asked \cup {f}
    /\ UNCHANGED <<dirs, funcs>>

\* ensure_all_used, as implemented: error iff some non-"all" directive is unused
EnsureErr == \E i \in 1..Len(dirs) : i \notin used /\ dirs[i].kind # "all"

\* invariants
AnswerIsDocumented == last.f \in funcs => last.ans = IsAsync(dirs, last.f)
UsedAreDecisive == used = Decisive(dirs, asked)
RejectsWhatMatchedNothing == asked = funcs => (MustReject(dirs, funcs) => EnsureErr)
AcceptsWhenAllDecisive == asked = funcs => (MustAccept(dirs, funcs) => ~EnsureErr)
=============================================================================
