CONSTANTS
  MaxPkgs = 2
INIT Init
NEXT Next
INVARIANT Inv_Injective
