--------------------------- MODULE MC_SourceBuf ---------------------------
(* Bounded state machine over call histories of `Source` for C25.                          *)
(*   Mode "A": whole-line fragments.  The output must equal, character for character,      *)
(*             a line-level reference (indentation = 2 * brace/explicit level).            *)
(*   Mode "B": fragments that split lines, carry leading/trailing blanks, etc.  Content    *)
(*             preservation, literal neutrality and balanced-restore are checked.          *)
(* Inputs on which the statement of C25 is silent are not generated (see `Ambiguous`).     *)
EXTENDS SourceBuf, Json, Integers

CONSTANTS Mode, MaxOps

VARIABLES st,        \* the model of the real buffer (Part 1 of SourceBuf)
          hist,      \* calls so far: [op, txt]  (GEN mode replays this)
          doc,       \* all appended text, concatenated          (clause 1)
          ref,       \* Mode A: expected output by the line-level reference (clause 2)
          lvl,       \* Mode A: reference nesting level
          litOK,     \* clause 3 held at every literal append so far
          balOK      \* clause 4 held at every balanced append so far

mcvars == <<st, hist, doc, ref, lvl, litOK, balOK>>

x == "x"
LinesA == << <<x>>, <<x, SP, "{">>, <<"}">>, <<"}", SP, x, SP, "{">>, <<"/", "/", x>>,
             <<"/", "/", SP, "{">>, <<"/", "/", "}">>, <<>>, <<"{">>, <<x, "}", x>>,
             <<"{", "}">>, <<"}", "{">> >>

WithNL(l) == l \o <<NL>>
TwoA == { WithNL(<<x, SP, "{">>) \o WithNL(<<SP, SP, x>>),
          WithNL(<<x, SP, "{">>) \o WithNL(<<"}">>),
          WithNL(<<"}">>) \o WithNL(<<"}">>),
          WithNL(<<"/", "/", SP, "{">>) \o WithNL(<<x>>),
          <<NL, NL>>,
          WithNL(<<x, SP, "{">>) \o WithNL(<<SP, SP, "/", "/", "}">>),
          WithNL(<<SP, x, SP, "{">>) \o WithNL(<<SP, SP, SP, "}", SP, x>>),
          WithNL(<<x>>) \o WithNL(<<>>) \o WithNL(<<"{">>) }
FragsA == { WithNL(LinesA[i]) : i \in 1..Len(LinesA) } \cup TwoA

FragsB == { <<x>>, <<x, SP>>, <<SP, x>>, <<"{">>, <<"}">>, <<x, SP, "{">>, <<"}", SP>>,
            <<"/", "/">>, <<"/", "/", x, SP, "{">>, <<SP, SP>>, <<x, SP, SP>>,
            <<x, NL>>, <<"{", NL>>, <<"}", NL>>, <<NL>>, <<SP, x, NL>>,
            <<x, NL, SP, SP, x>>, <<SP, SP, x, NL, x>>, <<x, SP, "{", NL, "}", NL>> }

Frags == IF Mode = "A" THEN FragsA ELSE FragsB

\* Inputs the statement does not speak about (not generated, DESIGN.md 2.5 rule 1):
\*  a multi-line fragment whose first line starts with blanks, appended in the middle of a
\*  buffer line (are those blanks "at the start of a line"?).
Ambiguous(f) ==
    /\ st.cont
    /\ Len(SplitNL(f)) > 1
    /\ Head(SplitNL(f)) # <<>> /\ Head(Head(SplitNL(f))) = SP

-----------------------------------------------------------------------------
\* line-level reference (Mode A only; every fragment is a sequence of complete lines)

LogicalLines(f, lit) ==
    LET ls == SplitNL(f) IN [i \in 1..Len(ls) |-> [txt |-> Trim(ls[i]), lit |-> lit, raw |-> ls[i]]]

RECURSIVE RefLines(_, _, _, _)
\* returns [out, lvl]; lvl = -1 marks input that closes a brace at level 0 (malformed code:
\* the statement says nothing about it, the implementation saturates -- not generated)
RefLines(ls, i, out, L) ==
    IF i > Len(ls) THEN [out |-> out, lvl |-> L]
    ELSE IF Closes(ls[i]) /\ L = 0 THEN [out |-> out, lvl |-> 0 - 1]
    ELSE LET l == ls[i]
             here == IF Closes(l) /\ L > 0 THEN L - 1 ELSE L
             after == IF Opens(l) THEN here + 1 ELSE here
             body == IF Len(ls) = 1 THEN l.raw ELSE TrimStart(l.raw)
             line == (IF l.raw = <<>> THEN <<>> ELSE Spaces(2 * here)) \o body \o <<NL>>
         IN RefLines(ls, i + 1, out \o line, after)

-----------------------------------------------------------------------------
Init == /\ st = Fresh /\ hist = <<>> /\ doc = <<>> /\ ref = <<>> /\ lvl = 0
        /\ litOK = TRUE /\ balOK = TRUE

HasNL(f) == \E i \in 1..Len(f) : f[i] = NL

DoPush(f, lit) ==
    /\ ~Ambiguous(f)
    /\ st' = Push(st, f, ~lit)
    /\ hist' = Append(hist, [op |-> IF lit THEN "lit" ELSE "push", txt |-> f])
    /\ doc' = doc \o f
    /\ IF Mode = "A"
       THEN LET r == RefLines(LogicalLines(f, lit), 1, <<>>, lvl)
            IN r.lvl >= 0 /\ ref' = ref \o r.out /\ lvl' = r.lvl
       ELSE UNCHANGED <<ref, lvl>>
    /\ litOK' = (litOK /\ (lit => /\ st'.indent = st.indent
                                  /\ st'.inC = (IF HasNL(f) THEN FALSE ELSE st.inC)))
    /\ balOK' = (balOK /\ ((~lit /\ ~st.cont /\ EndsNL(f) /\ BalancedFrom(
                               LET ll == LogicalLines(f, FALSE) IN [i \in 1..Len(ll) |-> ll[i]], 0))
                            => st'.indent = st.indent))

DoIndent ==
    /\ st' = IndentBy(st, 1)
    /\ hist' = Append(hist, [op |-> "indent", txt |-> <<>>])
    /\ lvl' = lvl + 1
    /\ UNCHANGED <<doc, ref, litOK, balOK>>

DoDeindent ==
    /\ st.indent >= 1
    /\ st' = DeindentBy(st, 1)
    /\ hist' = Append(hist, [op |-> "deindent", txt |-> <<>>])
    /\ lvl' = IF lvl > 0 THEN lvl - 1 ELSE 0
    /\ UNCHANGED <<doc, ref, litOK, balOK>>

Next == /\ Len(hist) < MaxOps
        /\ \/ \E f \in Frags : DoPush(f, FALSE)
           \/ \E f \in Frags : DoPush(f, TRUE)
           \/ DoIndent
           \/ DoDeindent

-----------------------------------------------------------------------------
\* The clauses

ContentPreserved == Canon(st.s) = Canon(doc)
IndentFollowsNesting == Mode = "A" => (st.s = ref /\ st.indent = lvl)
LiteralIsNeutral == litOK
BalancedRestores == balOK

\* GEN: every reachable history with the model state the real buffer must be in
Emit == PrintT(<<"VEC", ToJson([hist |-> hist, s |-> st.s, indent |-> st.indent,
                                inC |-> st.inC, cont |-> st.cont])>>)

\* witnesses
W_Pop == ~(\E i \in 1..Len(hist) : hist[i].op = "push" /\ hist[i].txt # <<>> /\ Head(hist[i].txt) = "}" /\ st.indent = 0 /\ Len(hist) >= 2)
W_CommentBrace == ~(st.inC /\ st.cont)
W_Deep == ~(st.indent >= 3)
=============================================================================
