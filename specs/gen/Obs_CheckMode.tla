----------------------------- MODULE Obs_CheckMode -----------------------------
EXTENDS CheckMode, Json, IOUtils
Obs == ndJsonDeserialize(IOEnv.OBS)
VARIABLE i
Init == i = 1
Next == i < Len(Obs) /\ i' = i + 1
Inv == Conforms(Obs[i].files, Obs[i].obs) \/ Print(<<"MISMATCH", ToJson(Obs[i])>>, FALSE)
=============================================================================
