CONSTANTS
  N = 3
  Salts = {0, 3}
INIT Init
NEXT Next
INVARIANT Sane
INVARIANT Emit
CHECK_DEADLOCK FALSE
