INIT TInit
NEXT TNext
POSTCONDITION Accepted
CHECK_DEADLOCK FALSE
