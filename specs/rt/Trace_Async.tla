------------------------------ MODULE Trace_Async ------------------------------
(* Trace validation of the real Rust async guest runtime (properties C18-C23).              *)
(*                                                                                          *)
(* Each line of the ndjson file TRACE is one event recorded while the real                   *)
(* `wit_bindgen::rt::async_support` ran natively against the mock host of harness/async-mock: *)
(*   - every canonical built-in call with its arguments and result, every host action         *)
(*     (transfer, peer drop, subtask progress) and every callback entry/exit  -> CMHost;      *)
(*   - the runtime's internal transitions reported by the tracer hook (rt.register,           *)
(*     rt.unregister, rt.deliver, rt.cabiwake, rt.sleep, rt.wake, rt.answer, rt.taskdrop,     *)
(*     rt.opdrop);                                                                            *)
(*   - what the user program did and what it was told (user events), and the lowering ledger of    *)
(*     the `tracked` payload (led events) and of the instrumented async import (sub events).            *)
(* The whole state is one record S; Step(S, e) applies one event.  A violated rule records   *)
(* the first problem in S.bad (the host rules in S.H.trap) and the run goes on, so that the   *)
(* invariants `NoTrap` / `NoViolation` point at the first offending event.                    *)
EXTENDS CMHost, Json, IOUtils

Rec == ndJsonDeserialize(IOEnv.TRACE)

VARIABLES l, S
tvars == <<l, S>>

Has(r, k) == k \in DOMAIN r
NoEv == <<>>

S0 == [ H |-> H0,
        T |-> Empty,          \* task -> [ctx, returned, cancelled, cancelDelivered, exited, inCb, finished, envdrops]
        cur |-> 0 - 1,
        \* runtime mirror
        reg |-> Empty,        \* rtask -> [waitable -> ptr]
        dropped |-> {},       \* completion-status pointers whose operation has been dropped
        sleep |-> Empty,      \* rtask -> 0 polling / 1 woken / 2 sleeping
        setOf |-> Empty,      \* rtask -> its waitable set (learned from rt.answer / set.new)
        rtOf |-> Empty,       \* task -> rtask
        handed |-> NoEv,      \* event handed to the guest and not yet delivered: <<w, payload>>
        taskdrops |-> Empty,  \* rtask -> number of rt.taskdrop events
        wakeR |-> Empty,      \* rtask -> reader handle of its wakeup stream
        wakeW |-> Empty,      \* rtask -> writer handle of its wakeup stream
        wakeReading |-> {},   \* rtasks with a wakeup read in flight
        expectWake |-> 0,     \* rtask whose wakeup write must come next (0 = none)
        wakeWrites |-> Empty, \* rtask -> wakeup items written since it went to sleep
        curRt |-> 0,
        \* user-level accounting
        ends |-> Empty,       \* <<kind, id>> -> [w, r] handles of user streams/futures
        ops |-> Empty,        \* op -> [k, h, items, moved, ...]
        byHandle |-> Empty,   \* handle -> op currently copying on it
        lowered |-> {}, hostlists |-> {}, deallocd |-> {}, lifted |-> {}, dropvals |-> Empty,
        everLedger |-> {},    \* ids of the tracked payload (the u8 payload has no ledger)
        mustDrop |-> {},      \* ids handed back to the user: must be dropped exactly once
        gone |-> {},          \* ids the host took: must never be dropped by the guest
        subs |-> Empty,       \* op -> [dealloc, own, lift, statuses, handle]
        subOfHandle |-> Empty,
        mockTrapLag |-> 0, deadlocked |-> FALSE, expectCabi |-> <<>>, lastCallOp |-> 0 - 1, lastNew |-> [r |-> 0, w |-> 0], mockTrap |-> "",
        bad |-> "" ]

Bad(St, msg) == IF St.bad = "" THEN [St EXCEPT !.bad = msg] ELSE St
Need(St, cond, msg) == IF cond THEN St ELSE Bad(St, msg)
GetOr(f, k, d) == IF k \in Dom(f) THEN f[k] ELSE d
Ret(e) == e.ret

SeqToSet(s) == { s[i] : i \in 1..Len(s) }
IsPrefix(a, b) == Len(a) <= Len(b) /\ SubSeq(b, 1, Len(a)) = a

-----------------------------------------------------------------------------
\* helpers on the runtime mirror

AllRegistered(St) == UNION { Dom(St.reg[t]) : t \in Dom(St.reg) }
RegOf(St, t) == GetOr(St.reg, t, Empty)

\* C18 LeaveBeforeCancelOrDrop: a waitable that is cancelled or dropped is in no set and in
\* no task's registration map
LeftEverything(St, w, what) ==
    Need(Need(St, w \notin Dom(St.H.member), what \o ": the waitable is still a member of a waitable set (C18)"),
         w \notin AllRegistered(St), what \o ": the waitable is still registered with a task (C18)")

\* an event (e0, w, payload) is handed to the guest (callback entry, poll or wait)
Hand(St, e0, w, payload) ==
    IF e0 = EVENT_NONE \/ e0 = EVENT_CANCEL THEN St
    ELSE [Need(St, St.handed = NoEv, "an event was handed to the guest before the previous one was delivered (C18)")
          EXCEPT !.handed = <<w, payload>>]

-----------------------------------------------------------------------------
\* one step per event kind

Reset(St, e) == S0

CbEnter(St, e) ==
    LET t == e.task
        isStart == Has(e, "start")
        T1 == IF isStart THEN Put(St.T, t, [ctx |-> 0, returned |-> FALSE, cancelled |-> FALSE, cancelDelivered |-> FALSE,
                                           exited |-> FALSE, inCb |-> TRUE, finished |-> FALSE, envdrops |-> 0])
              ELSE [St.T EXCEPT ![t].inCb = TRUE, ![t].cancelDelivered = @ \/ e.e[1] = EVENT_CANCEL]
        St1 == [St EXCEPT !.T = T1, !.cur = t]
        St2 == Need(St1, isStart \/ (t \in Dom(St.T) /\ ~St.T[t].exited /\ St.T[t].ctx # 0),
                    "callback entered for a task without stored task state (C22)")
        \* host-side consistency of the delivered event
        St3 == IF isStart \/ e.e[1] = EVENT_NONE \/ e.e[1] = EVENT_CANCEL THEN St2
               ELSE LET w == e.e[2] IN
                    IF w \in Dom(St2.H.pend) /\ St2.H.pend[w].code = e.e[1] /\ St2.H.pend[w].payload = e.e[3]
                       /\ w \in Dom(St2.H.member)
                    THEN [St2 EXCEPT !.H = Consume(St2.H, w)]
                    ELSE [St2 EXCEPT !.H = Trap(St2.H, "callback delivered an event that is not pending in the task's set (mock/spec drift)")]
    IN Hand(St3, e.e[1], e.e[2], e.e[3])

CbExit(St, e) ==
    LET t == e.task
        rt == GetOr(St.rtOf, t, 0)
        St1 == [St EXCEPT !.T[t].inCb = FALSE]
        St2 == Need(St1, St.handed = NoEv, "the callback returned without delivering the event it was given (C18)")
        \* C22 context slot: holds the task state between callbacks, empty after exit
        St3 == Need(St2, IF e.code = 0 THEN St.T[t].ctx = 0 ELSE St.T[t].ctx # 0,
                    "context slot does not hold the task state between callbacks / is not cleared on exit (C22)")
        \* C18 NoDanglingRegistration + RegisteredImpliesJoined at the quiescent point
        St4 == Need(St3, \A x \in Dom(St.reg) : \A w \in Dom(St.reg[x]) : St.reg[x][w] \notin St.dropped,
                    "a dropped operation's completion pointer is still registered with a task (C18)")
        St5 == IF e.code = 0 \/ rt = 0 THEN St4
               ELSE LET s == IF e.code = 2 THEN e.set ELSE GetOr(St.setOf, rt, 0)
                        regd == Dom(RegOf(St, rt))
                        wr == GetOr(St.wakeR, rt, 0)
                    IN Need(Need(St4, \A w \in regd : w \in Dom(St.H.member) /\ St.H.member[w] = s,
                                 "an operation is registered with the task but its waitable is not in the task's set (C18)"),
                            e.code # 2 \/ \A w \in Dom(St.H.member) : St.H.member[w] = s => (w \in regd \/ (w = wr /\ rt \in St.wakeReading)),
                            "the task's waitable set contains a waitable that no operation is registered for (C18)")
        St6 == Need(St5, St.expectWake = 0, "a sleeping task was woken but no wakeup item was written (C23)")
        \* C23: a task that suspends with its wakeup read in flight must have the wakeup stream's readable end in the set it
        \* waits on, or the item another task writes can never wake it
        St7 == IF e.code # 2 \/ rt = 0 \/ rt \notin St.wakeReading THEN St6
               ELSE LET wr == GetOr(St.wakeR, rt, 0) IN
                    Need(St6, wr \in Dom(St.H.member) /\ St.H.member[wr] = e.set,
                         "the task went to sleep with its wakeup read outside the waitable set it waits on: a cross-task wake would be lost (C23)")
    IN St7

Decide(St, e) == St
Note(St, e) == IF e.msg = "dropped while joined" THEN Bad(St, "a waitable was dropped while still a member of a waitable set (C18)") ELSE St

CtxSet(St, e) == [St EXCEPT !.T[e.task].ctx = e.v]

HostEvent(St, e) ==
    CASE e.ev = "set.new" ->
            LET St1 == [St EXCEPT !.H = SetNew(St.H, e.ret)] IN
            IF St.curRt # 0 THEN [St1 EXCEPT !.setOf = Put(@, St.curRt, e.ret)] ELSE St1
      [] e.ev = "set.drop" -> [St EXCEPT !.H = SetDrop(St.H, e.s)]
      [] e.ev = "join" -> [St EXCEPT !.H = Join(St.H, e.w, e.s)]
      [] e.ev \in {"set.poll", "set.wait"} ->
            Hand([St EXCEPT !.H = PollOrWait(St.H, e.s, e.ret[1], e.ret[2], e.ret[3], e.ev = "set.wait")],
                 e.ret[1], e.ret[2], e.ret[3])
      [] e.ev \in {"stream.new", "future.new"} ->
            LET St1 == [St EXCEPT !.H = ChanNew(St.H, e.chan, e.ev = "future.new", e.r, e.w), !.lastNew = [r |-> e.r, w |-> e.w]] IN
            IF e.unit /\ St.curRt # 0
            THEN [St1 EXCEPT !.wakeR = Put(@, St.curRt, e.r), !.wakeW = Put(@, St.curRt, e.w)]
            ELSE St1
      [] e.ev = "host.take_end" -> [St EXCEPT !.H = TakeEnd(St.H, e.h)]
      [] e.ev = "host.rendezvous" ->
            \* a copy inside the component: the writer's operation gave `witems`, the reader's got `ritems`
            LET wop == GetOr(St.byHandle, e.w, 0 - 1)
                rop == GetOr(St.byHandle, e.r, 0 - 1)
                St1 == IF wop \in Dom(St.ops) THEN [St EXCEPT !.ops[wop].moved = @ \o e.witems] ELSE St
                St2 == IF rop \in Dom(St1.ops) THEN [St1 EXCEPT !.ops[rop].moved = @ \o e.ritems] ELSE St1
            IN [St2 EXCEPT !.gone = @ \cup SeqToSet(e.witems)]
      [] e.ev = "host.peerdrop" -> IF Has(e, "h") THEN [St EXCEPT !.H = HostComplete(St.H, e.h, DROPPED, 0)] ELSE St
      [] e.ev = "host.subtask" -> [St EXCEPT !.H = HostSubtask(St.H, e.h, e.to)]
      [] e.ev = "subtask.drop" ->
            LET St1 == LeftEverything(St, e.h, "subtask.drop") IN [St1 EXCEPT !.H = SubtaskDrop(St1.H, e.h)]
      [] e.ev = "subtask.cancel" ->
            LET St1 == LeftEverything(St, e.h, "subtask.cancel")
                op == GetOr(St.subOfHandle, e.h, 0 - 1)
                St2 == [St1 EXCEPT !.H = SubtaskCancel(St1.H, e.h, e.ret)]
            IN IF op \in Dom(St2.subs) THEN [St2 EXCEPT !.subs[op].statuses = Append(@, e.ret)] ELSE St2

\* {stream,future}.{read,write}
CopyEv(St, e, write, future) ==
    LET h == e.h
        St1 == [St EXCEPT !.H = Copy(St.H, h, write, future, e.n, e.ret)]
        isWakeW == \E x \in Dom(St.wakeW) : St.wakeW[x] = h
        isWakeR == \E x \in Dom(St.wakeR) : St.wakeR[x] = h
    IN IF isWakeW
       THEN \* C23: exactly one item, only when a sleeping task was woken, completes at once
            LET x == CHOOSE x \in Dom(St.wakeW) : St.wakeW[x] = h
                n == GetOr(St.wakeWrites, x, 0)
            IN [Need(Need(Need(St1, St.expectWake = x, "a wakeup item was written although the target task was not asleep (duplicate wakeup, C23)"),
                           e.n = 1 /\ e.ret = Pack(COMPLETED, 1, FALSE), "the wakeup write did not transfer exactly one item immediately (C23)"),
                     n = 0, "more than one wakeup item written during one sleep (C23)")
                EXCEPT !.expectWake = 0, !.wakeWrites = Put(@, x, n + 1)]
       ELSE IF isWakeR
       THEN LET x == CHOOSE x \in Dom(St.wakeR) : St.wakeR[x] = h IN
            [Need(St1, e.ret = BLOCKED /\ x \notin St.wakeReading, "wakeup stream read while one is already pending / not blocking (C23)")
             EXCEPT !.wakeReading = @ \cup {x}, !.wakeWrites = Put(@, x, 0)]
       ELSE St1

\* the host moved k items for handle h (immediately, later, or while cancelling)
Transfer(St, e) ==
    LET h == e.h
        St0 == IF h \in Dom(St.H.ends) /\ St.H.ends[h].st = "copying" /\ h \notin Dom(St.H.pend) /\ ~Has(e, "during")
               THEN St ELSE St
        op == GetOr(St.byHandle, h, 0 - 1)
        St1 == IF op \in Dom(St.ops) THEN [St0 EXCEPT !.ops[op].moved = @ \o e.items] ELSE St0
        \* written items now belong to the host
        St2 == IF h \in Dom(St.H.ends) /\ St.H.ends[h].write THEN [St1 EXCEPT !.gone = @ \cup SeqToSet(e.items)] ELSE St1
    IN St2

\* host.transfer outside of a read/write/cancel call completes the pending copy
\* (with `drop`: the peer also dropped its end before the event was delivered; the host reports one event,
\* DROPPED carrying the number of items copied)
TransferLater(St, e) ==
    [Transfer(St, e) EXCEPT !.H = HostComplete(St.H, e.h, IF Has(e, "drop") THEN DROPPED ELSE COMPLETED, e.k)]

CancelEv(St, e, write, future) ==
    LET St1 == LeftEverything(St, e.h, e.ev)
        isWakeR == \E x \in Dom(St.wakeR) : St.wakeR[x] = e.h
        St2 == [St1 EXCEPT !.H = CancelCopy(St1.H, e.h, write, future, e.ret)]
    IN IF isWakeR
       THEN LET x == CHOOSE x \in Dom(St.wakeR) : St.wakeR[x] = e.h IN [St2 EXCEPT !.wakeReading = @ \ {x}]
       ELSE St2

DropEv(St, e, write, future) ==
    LET St1 == LeftEverything(St, e.h, e.ev) IN [St1 EXCEPT !.H = DropEnd(St1.H, e.h, write, future)]

TaskReturn(St, e) ==
    LET t == e.task IN
    [Need(St, ~St.T[t].returned /\ ~St.T[t].cancelled, "task.return twice or after task.cancel (C08/C22)") EXCEPT !.T[t].returned = TRUE]
TaskCancel(St, e) ==
    LET t == e.task IN
    [Need(Need(St, St.T[t].cancelDelivered, "task.cancel without a delivered cancellation request"),
          ~St.T[t].returned /\ ~St.T[t].cancelled, "task.cancel after the task returned / cancelled twice")
     EXCEPT !.T[t].cancelled = TRUE]
TaskExit(St, e) ==
    LET t == e.task
        rt == GetOr(St.rtOf, t, 0)
    IN [Need(Need(Need(Need(St, St.T[t].returned \/ St.T[t].cancelled, "task exited without task.return or task.cancel"),
                       GetOr(St.taskdrops, rt, 0) = 1, "task state not released exactly once on exit (C22)"),
                  St.T[t].envdrops = 1, "the task body's destructors did not run exactly once (C22)"),
             rt \notin St.wakeReading, "task destroyed with its wakeup read still pending (C23)")
        EXCEPT !.T[t].exited = TRUE]

-----------------------------------------------------------------------------
\* runtime hook events

RtSleep(St, e) ==
    LET rt == e.rtask
        St1 == [St EXCEPT !.sleep = Put(@, rt, e.state), !.curRt = rt,
                          !.rtOf = IF St.cur >= 0 /\ St.cur \notin Dom(@) THEN Put(@, St.cur, rt) ELSE @]
        \* C23: before polling again a pending wakeup read has been cancelled (after leaving the set)
        St2 == IF e.state = 0 THEN Need(St1, rt \notin St.wakeReading, "the task polls again while its wakeup read is still pending (C23)") ELSE St1
    IN St2

RtWake(St, e) ==
    LET rt == e.rtask
        St1 == [St EXCEPT !.sleep = Put(@, rt, 1)]
    IN IF e.state = 2 THEN [Need(St1, St.expectWake = 0, "two wakeups of sleeping tasks without a wakeup write in between (C23)") EXCEPT !.expectWake = rt]
       ELSE St1

RtRegister(St, e) ==
    LET rt == e.rtask
        m == RegOf(St, rt)
        St1 == Need(St, e.w \notin Dom(m) \/ m[e.w] = e.ptr, "a waitable was re-registered while another operation's pointer is still registered for it (C18)")
        St2 == Need(St1, \A x \in Dom(St.reg) : x = rt \/ e.w \notin Dom(St.reg[x]),
                    "an operation registered with a new task before leaving the previous one (C18)")
    IN [St2 EXCEPT !.reg = Put(@, rt, Put(m, e.w, e.ptr)), !.dropped = @ \ {e.ptr}]

RtUnregister(St, e) ==
    LET rt == e.rtask
        m == RegOf(St, rt)
    IN [St EXCEPT !.reg = Put(@, rt, IF e.w \in Dom(m) THEN Del(m, e.w) ELSE m)]

RtDeliver(St, e) ==
    LET rt == e.rtask
        m == RegOf(St, rt)
        isWake == GetOr(St.wakeR, rt, 0) = e.w
        St1 == Need(St, St.handed = <<e.w, e.code>>, "the runtime delivered an event other than the one it was handed (C18)")
        St2 == [St1 EXCEPT !.handed = NoEv]
    IN IF isWake
       THEN [Need(St2, rt \in St.wakeReading, "wakeup event delivered without a pending wakeup read (C23)") EXCEPT !.wakeReading = @ \ {rt}]
       ELSE [Need(St2, e.w \in Dom(m), "a completion was delivered for a waitable no operation is registered for (C18)")
             EXCEPT !.reg = Put(@, rt, IF e.w \in Dom(m) THEN Del(m, e.w) ELSE m),
                    !.expectCabi = IF e.w \in Dom(m) THEN <<m[e.w], e.code>> ELSE <<>>]

RtCabiWake(St, e) ==
    [Need(Need(St, St.expectCabi = <<e.ptr, e.code>>, "completion delivered to the wrong operation or with the wrong code (C18)"),
          e.ptr \notin St.dropped, "completion delivered to an operation that was already dropped (use after free, C18)")
     EXCEPT !.expectCabi = <<>>]

RtAnswer(St, e) ==
    LET rt == e.rtask
        m == RegOf(St, rt)
        t == St.cur
        St1 == Need(St, St.expectCabi = <<>>, "a delivered completion never reached its operation (C18)")
    IN CASE e.code = 0 /\ e.x = 0 ->   \* Exit
              Need(Need(St1, Dom(m) = {}, "the task exits while operations are still registered (C22)"),
                   St.T[t].finished, "the task exits before its Rust work finished (C22)")
         [] e.code = 0 /\ e.x = 1 ->   \* Exit on cancellation
              Need(St1, St.T[t].cancelDelivered, "cancel exit without EVENT_CANCEL")
         [] e.code = 1 ->              \* Yield
              Need(Need(St1, GetOr(St.sleep, rt, 0) = 1, "the task yields although it was not woken during polling (C22)"),
                   ~St.T[t].finished, "the task yields although its Rust work finished (C22)")
         [] e.code = 2 ->              \* Wait
              Need(Need(Need(St1, e.x \in St.H.sets /\ GetOr(St.setOf, rt, 0) = e.x, "the task waits on a set that is not its own (C22)"),
                        Dom(m) # {} \/ rt \in St.wakeReading, "the task waits although nothing is pending (C22)"),
                   St.T[t].finished \/ GetOr(St.sleep, rt, 0) = 2, "the task waits with unfinished work without going to sleep (C22)")

RtTaskDrop(St, e) == [St EXCEPT !.taskdrops = Put(@, e.rtask, GetOr(@, e.rtask, 0) + 1)]
RtOpDrop(St, e) == [St EXCEPT !.dropped = @ \cup {e.ptr}]

-----------------------------------------------------------------------------
\* user events: accounting of values (C19, C20) and of the async import (C21)

EndKey(kind, id) == <<kind, id>>

UserNew(St, e) ==
    IF e.ev = "user.snew" THEN [St EXCEPT !.ends = Put(@, EndKey("s", e.s), St.lastNew)]
    ELSE [St EXCEPT !.ends = Put(@, EndKey("f", e.f), St.lastNew)]

NewOp(St, e, k, h, items) ==
    [St EXCEPT !.ops = Put(@, e.op, [k |-> k, h |-> h, items |-> items, moved |-> <<>>]),
               !.byHandle = Put(@, h, e.op)]

UserStart(St, e) ==
    CASE e.ev = "user.swrite" -> NewOp(St, e, "swrite", St.ends[EndKey("s", e.s)].w, e.items)
      [] e.ev = "user.swrite_all" -> NewOp(St, e, "swrite_all", St.ends[EndKey("s", e.s)].w, e.items)
      [] e.ev = "user.sread" -> NewOp(St, e, "sread", St.ends[EndKey("s", e.s)].r, <<>>)
      [] e.ev \in {"user.snext", "user.scollect"} -> NewOp(St, e, "sreadall", St.ends[EndKey("s", e.s)].r, <<>>)
      [] OTHER -> St

\* values handed back to the user program must be dropped by it exactly once
HandBack(St, ids) == [St EXCEPT !.mustDrop = @ \cup (SeqToSet(ids) \cap St.everLedger)]

UserDone(St, e) ==
    LET op == e.op IN
    IF op \notin Dom(St.ops) THEN St
    ELSE LET o == St.ops[op]
             r == e.r
             St1 == [St EXCEPT !.ops = Del(@, op), !.byHandle = IF o.h \in Dom(@) /\ @[o.h] = op THEN Del(@, o.h) ELSE @]
         IN CASE o.k = "swrite" ->
                   LET n == IF r.res = "complete" THEN r.n ELSE 0 IN
                   HandBack(
                     Need(Need(Need(St1, Len(o.moved) = n, "a stream write reported a different count than the host transferred (C19)"),
                               IsPrefix(o.moved, o.items), "the host received values out of order or not the written ones (C19)"),
                          r.back = SubSeq(o.items, n + 1, Len(o.items)), "values that were not transferred were not returned to the writer (C19)"),
                     r.back)
              [] o.k = "swrite_all" ->
                   HandBack(
                     Need(Need(St1, IsPrefix(o.moved, o.items), "write_all: the host received values out of order or not the written ones (C19)"),
                          r.back = SubSeq(o.items, Len(o.moved) + 1, Len(o.items)), "write_all: untransferred values were not returned (C19)"),
                     r.back)
              [] o.k \in {"sread", "sreadall"} ->
                   HandBack(
                     Need(Need(St1, r.items = o.moved, "a stream read returned other values than the host wrote, or in another order (C19)"),
                          o.k # "sread" \/ r.res # "complete" \/ r.n = Len(o.moved), "a stream read reported a different count than the host transferred (C19)"),
                     r.items)
              [] o.k = "fwrite" ->
                   IF r.res \in {"written", "already-sent"}
                   THEN Need(St1, o.moved = <<o.items[1]>>, "a future write was reported as delivered but the host did not receive the value (C20)")
                   ELSE HandBack(Need(Need(St1, o.moved = <<>>, "a future write was reported as not delivered but the host received the value (C20)"),
                                      r.value = o.items[1], "the value handed back by a failed future write is not the written one (C20)"),
                                 <<r.value>>)
              [] o.k = "fread" ->
                   IF r.res = "value"
                   THEN HandBack(Need(St1, o.moved = <<r.value>>, "a future read yielded a value the host did not write (C20)"), <<r.value>>)
                   ELSE Need(St1, o.moved = <<>>, "a future read was reported as cancelled although the value had been transferred (C20)")
              [] OTHER -> St1

\* after an in-flight operation was dropped: what it had moved stays moved, the rest must have
\* been disposed of by the runtime (checked through the ledgers at the end of the run)
UserDropOpDone(St, e) ==
    LET op == e.op IN
    IF op \notin Dom(St.ops) THEN St
    ELSE LET o == St.ops[op] IN
         [St EXCEPT !.ops = Del(@, op), !.byHandle = IF o.h \in Dom(@) /\ @[o.h] = op THEN Del(@, o.h) ELSE @]

Ledger(St, e) ==
    CASE e.ev = "led.lower" -> [Need(St, e.id \notin St.lowered, "value lowered twice") EXCEPT !.lowered = @ \cup {e.id}, !.everLedger = @ \cup {e.id}]
      [] e.ev = "led.hostlist" -> [St EXCEPT !.hostlists = @ \cup {e.id}, !.everLedger = @ \cup {e.id}]
      [] e.ev = "led.dealloc" ->
            [Need(St, e.id \in St.lowered, "dealloc_lists of a value that is not in lowered form (C19/C20)")
             EXCEPT !.lowered = @ \ {e.id}, !.deallocd = @ \cup {e.id}]
      [] e.ev = "led.lift" ->
            [Need(St, e.id \in St.lowered \/ e.id \in St.hostlists, "lift of a value that is not in lowered form (C19/C20)")
             EXCEPT !.lowered = @ \ {e.id}, !.hostlists = @ \ {e.id}, !.lifted = @ \cup {e.id}]
      [] e.ev \in {"led.dealloc-null", "led.lift-null"} -> Bad(St, "heap buffer of a lowered value released twice (C19/C20)")
      [] e.ev = "user.dropval" ->
            [Need(St, e.id \notin Dom(St.dropvals), "a value was dropped twice (C19/C20)") EXCEPT !.dropvals = Put(@, e.id, 1)]
      [] e.ev = "user.default" -> St

SubEv(St, e) ==
    LET op == e.op
        s == GetOr(St.subs, op, [dealloc |-> 0, own |-> 0, lift |-> 0, statuses |-> <<>>, handle |-> 0, lowered |-> 0])
        started == \E i \in 1..Len(s.statuses) : s.statuses[i] \in {ST_STARTED, ST_RETURNED, ST_RETURNED_CANCELLED}
    IN CASE e.ev = "sub.params_lower" -> [St EXCEPT !.subs = Put(@, op, [s EXCEPT !.lowered = @ + 1]), !.lastCallOp = op]
         [] e.ev = "sub.call_import" -> [St EXCEPT !.lastCallOp = op]
         [] e.ev = "sub.params_dealloc_lists" ->
               [Need(Need(St, s.dealloc = 0, "parameter lists of an async import freed twice (C21)"),
                     started, "parameter lists of an async import freed before the callee started (C21)")
                EXCEPT !.subs = Put(@, op, [s EXCEPT !.dealloc = @ + 1])]
         [] e.ev = "sub.params_dealloc_lists_and_own" ->
               [Need(Need(St, s.own = 0 /\ s.dealloc = 0, "parameters of an async import released twice (C21)"),
                     s.statuses # <<>> /\ s.statuses[Len(s.statuses)] = ST_STARTED_CANCELLED,
                     "owned parameters released although the call was not cancelled before starting (C21)")
                EXCEPT !.subs = Put(@, op, [s EXCEPT !.own = @ + 1])]
         [] e.ev = "sub.results_lift" ->
               [Need(Need(St, s.lift = 0, "results of an async import lifted twice (C21)"),
                     s.statuses # <<>> /\ s.statuses[Len(s.statuses)] = ST_RETURNED, "results lifted although the call did not return (C21)")
                EXCEPT !.subs = Put(@, op, [s EXCEPT !.lift = @ + 1])]

\* statuses the host reported for a subtask (call result, delivered events, cancel result)
SubStatus(St, h, st) ==
    LET op == GetOr(St.subOfHandle, h, 0 - 1) IN
    IF op \in Dom(St.subs) THEN [St EXCEPT !.subs[op].statuses = Append(@, st)] ELSE St

\* at the end of an async-import operation (result, or drop finished)
SubClose(St, op) ==
    IF op \notin Dom(St.subs) THEN St
    ELSE LET s == St.subs[op]
             last == IF s.statuses = <<>> THEN 0 - 1 ELSE s.statuses[Len(s.statuses)]
             started == \E i \in 1..Len(s.statuses) : s.statuses[i] \in {ST_STARTED, ST_RETURNED, ST_RETURNED_CANCELLED}
         IN Need(Need(Need(Need(St, started => s.dealloc = 1, "parameter lists of a started async import were never freed (C21)"),
                           (last = ST_STARTED_CANCELLED) => s.own = 1, "parameters of a call cancelled before start were not released (C21)"),
                      (last = ST_RETURNED) => s.lift = 1, "results of a returned async import were not lifted (C21)"),
                 s.handle = 0 \/ s.handle \notin Dom(St.H.subs), "subtask handle not dropped when the operation ended (C21)")

UserEv(St, e) ==
    CASE e.ev \in {"user.snew", "user.fnew"} -> UserNew(St, e)
      [] e.ev \in {"user.swrite", "user.swrite_all", "user.sread", "user.snext", "user.scollect"} -> UserStart(St, e)
      [] e.ev = "user.fwrite" -> NewOp(St, e, "fwrite", St.ends[EndKey("f", e.f)].w, <<e.v>>)
      [] e.ev = "user.fread" -> NewOp(St, e, "fread", St.ends[EndKey("f", e.f)].r, <<>>)
      [] e.ev = "user.call" -> St
      [] e.ev \in {"user.result", "user.cancelled"} -> SubClose(UserDone(St, e), e.op)
      [] e.ev = "user.dropop" -> St
      [] e.ev = "user.dropop.done" -> SubClose(UserDropOpDone(St, e), e.op)
      [] e.ev = "user.finish" -> [St EXCEPT !.T[e.task].finished = TRUE]
      [] e.ev = "user.envdrop" -> [St EXCEPT !.T[e.task].envdrops = @ + 1]
      [] e.ev = "user.poll" ->
            \* C22: the task state is absent from the context slot while a callback runs
            Need(St, e.task \notin Dom(St.T) \/ St.T[e.task].ctx = 0 \/ ~St.T[e.task].inCb, "task state present in the context slot while the task runs (C22)")
      [] OTHER -> St

End(St, e) ==
    LET St1 == Need(St, e.live = <<>>, "handles left in the component's table at the end of the run (leak)")
        St2 == Need(St1, St.lowered = {} /\ St.hostlists = {}, "heap buffers of lowered values were never released (C19/C20)")
        St3 == Need(St2, \A id \in St.mustDrop : id \in Dom(St.dropvals), "a value handed back to the user was never dropped")
        St4 == Need(St3, \A id \in Dom(St.dropvals) : id \notin St.gone \/ id \in St.mustDrop, "a value that was transferred to the host was also dropped by the guest (C19)")
        St5 == Need(St4, \A op \in Dom(St.subs) : St.subs[op].handle = 0 \/ St.subs[op].handle \notin Dom(St.H.subs), "subtask handle leaked (C21)")
    IN IF e.trap = "null" THEN St5 ELSE St5

\* after the first trap / violation of a run nothing more is judged until the next run
Dead(St) == St.H.trap # "" \/ St.bad # "" \/ St.deadlocked

Step(St, e) ==
    IF Dead(St) /\ e.ev # "reset" THEN St ELSE
    CASE e.ev = "reset" -> S0
      [] e.ev = "cb.enter" -> CbEnter(St, e)
      [] e.ev = "cb.exit" -> CbExit(St, e)
      [] e.ev = "decide" -> St
      [] e.ev = "NOTE" -> Note(St, e)
      [] e.ev = "TRAP" -> [St EXCEPT !.mockTrap = e.msg, !.mockTrapLag = 0]
      [] e.ev = "LIVELOCK" -> Bad(St, "the run does not terminate: the runtime keeps calling built-ins without making progress (C22)")
      [] e.ev = "DEADLOCK" ->
            \* the user program deadlocked; a wakeup that was requested but never written is a C23 violation
            [Need(St, St.expectWake = 0, "deadlock after a sleeping task was woken without a wakeup write (C23)") EXCEPT !.deadlocked = TRUE]
      [] e.ev = "PANIC" -> Bad(St, "the guest runtime panicked: " \o e.msg)
      [] e.ev = "ctx.set" -> CtxSet(St, e)
      [] e.ev \in {"set.new", "set.drop", "join", "set.poll", "set.wait", "stream.new", "future.new", "host.take_end",
                   "host.rendezvous", "host.peerdrop", "host.subtask", "subtask.drop", "subtask.cancel"} ->
            (IF e.ev = "host.subtask" THEN SubStatus(HostEvent(St, e), e.h, e.to) ELSE HostEvent(St, e))
      [] e.ev \in {"stream.write", "stream.read", "future.write", "future.read"} ->
            CopyEv(St, e, e.ev \in {"stream.write", "future.write"}, e.ev \in {"future.write", "future.read"})
      [] e.ev = "host.transfer" ->
            (IF Has(e, "during") THEN Transfer(St, e) ELSE TransferLater(St, e))
      [] e.ev \in {"stream.cancel-write", "stream.cancel-read", "future.cancel-write", "future.cancel-read"} ->
            CancelEv(St, e, e.ev \in {"stream.cancel-write", "future.cancel-write"}, e.ev \in {"future.cancel-write", "future.cancel-read"})
      [] e.ev \in {"stream.drop-writable", "stream.drop-readable", "future.drop-writable", "future.drop-readable"} ->
            DropEv(St, e, e.ev \in {"stream.drop-writable", "future.drop-writable"}, e.ev \in {"future.drop-writable", "future.drop-readable"})
      [] e.ev = "call" ->
            LET St1 == [St EXCEPT !.H = AsyncCall(St.H, e.ret_status, e.h)]
                op == St.lastCallOp
                s == St1.subs[op]
            IN [St1 EXCEPT !.subs[op] = [s EXCEPT !.handle = e.h, !.statuses = Append(@, e.ret_status)],
                           !.subOfHandle = IF e.h # 0 THEN Put(@, e.h, op) ELSE @]
      [] e.ev = "task.return" -> TaskReturn(St, e)
      [] e.ev = "task.cancel" -> TaskCancel(St, e)
      [] e.ev = "task.exit" -> TaskExit(St, e)
      [] e.ev = "rt.sleep" -> RtSleep(St, e)
      [] e.ev = "rt.wake" -> RtWake(St, e)
      [] e.ev = "rt.register" -> RtRegister(St, e)
      [] e.ev = "rt.unregister" -> RtUnregister(St, e)
      [] e.ev = "rt.deliver" -> RtDeliver(St, e)
      [] e.ev = "rt.cabiwake" -> RtCabiWake(St, e)
      [] e.ev = "rt.answer" -> RtAnswer(St, e)
      [] e.ev = "rt.taskdrop" -> RtTaskDrop(St, e)
      [] e.ev = "rt.opdrop" -> RtOpDrop(St, e)
      [] e.ev \in {"led.lower", "led.hostlist", "led.dealloc", "led.lift", "led.dealloc-null", "led.lift-null", "user.dropval", "user.default"} -> Ledger(St, e)
      [] e.ev \in {"sub.params_lower", "sub.call_import", "sub.params_dealloc_lists", "sub.params_dealloc_lists_and_own", "sub.results_lift"} -> SubEv(St, e)
      [] e.ev = "end" -> End(St, e)
      [] e.ev = "block_on.enter" ->
            [St EXCEPT !.T = Put(@, 0, [ctx |-> 0, returned |-> TRUE, cancelled |-> FALSE, cancelDelivered |-> FALSE,
                                       exited |-> FALSE, inCb |-> TRUE, finished |-> FALSE, envdrops |-> 0]),
                       !.cur = 0]
      [] e.ev = "block_on.exit" ->
            LET rt == GetOr(St.rtOf, 0, 0) IN
            Need(Need(Need(Need(St, St.T[0].finished, "block_on returned before its future finished (C22)"),
                           GetOr(St.taskdrops, rt, 0) = 1, "block_on: task state not released exactly once (C22)"),
                      St.T[0].envdrops = 1, "block_on: the future's destructors did not run exactly once (C22)"),
                 Dom(RegOf(St, rt)) = {}, "block_on returned while operations are still registered (C22)")
      [] e.ev \in {"thread.yield", "backpressure.inc", "backpressure.dec", "summary",
                   "error-context.new", "error-context.drop"} -> St
      [] OTHER -> UserEv(St, e)

TInit == l = 1 /\ S = S0
\* A breach / host trap is reported (PrintT, TRUE) by the step that causes it; the run it belongs to is dead from then on
\* (Step ignores events until the next "reset"), and the runs after it in the same log are still judged.  Reporting through
\* a violated invariant would stop TLC at the first breach of the whole log and hide every later one.
Report(St, St1, k) ==
    /\ (St1.H.trap # "" /\ St.H.trap = "") => PrintT(<<"HOSTTRAP", ToJson([what |-> St1.H.trap, at |-> k, event |-> Rec[k]])>>)
    /\ (St1.bad # "" /\ St.bad = "") => PrintT(<<"BREACH", ToJson([what |-> St1.bad, at |-> k, event |-> Rec[k]])>>)
TNext == /\ l <= Len(Rec) /\ l' = l + 1
         /\ S' = LET St1 == Step(S, Rec[l]) IN
                 IF St1.mockTrap # "" /\ Rec[l].ev \notin {"TRAP", "reset", "decide", "host.transfer", "NOTE"} THEN [St1 EXCEPT !.mockTrapLag = @ + 1] ELSE St1
         /\ Report(S, S', l)

\* the mock host and the spec must agree on what traps
MockAgrees == (S.mockTrap = "") \/ (S.H.trap # "") \/ S.mockTrapLag < 1
              \/ Print(<<"DRIFT", ToJson([mock |-> S.mockTrap, at |-> l - 1])>>, FALSE)

Accepted ==
    LET d == TLCGet("stats").diameter IN
    IF d - 1 = Len(Rec) THEN TRUE
    ELSE Print(<<"REJECTED", ToJson([matched |-> d - 1, total |-> Len(Rec), next |-> Rec[d]])>>, FALSE)
=============================================================================
