INIT TInit
NEXT TNext
INVARIANTS NoTrap NoViolation MockAgrees
POSTCONDITION Accepted
CHECK_DEADLOCK FALSE
