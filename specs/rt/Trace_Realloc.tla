---------------------------- MODULE Trace_Realloc ----------------------------
(* impl -> spec: logs of the real `cabi_realloc` / `Cleanup` (entry calls, returns, and the  *)
(* global-allocator calls they made) are replayed against Realloc.tla; the log is accepted   *)
(* only if every event is an enabled action, and `NoBreach` etc. hold after every event.     *)
EXTENDS Realloc, Json, IOUtils

Rec == ndJsonDeserialize(IOEnv.TRACE)
VARIABLE l
tvars == <<vars, l>>

TInit == Init /\ l = 1
IsEv(e) == l <= Len(Rec) /\ Rec[l].ev = e /\ l' = l + 1
R == Rec[l]

TReset == IsEv("reset") /\ heap' = <<>> /\ blocks' = <<>> /\ cleanups' = <<>> /\ pend' = NoCall /\ bad' = ""
TCall == IsEv("call") /\ Call(R.oldp, R.oldn, R.align, R.newn)
TRet == IsEv("ret") /\ Ret(R.ret, R.kept)
TSysAlloc == IsEv("sys.alloc") /\ SysAlloc(R.size, R.align, R.p)
TSysRealloc == IsEv("sys.realloc") /\ SysRealloc(R.p, R.size, R.align, R.new, R.q)
TSysDealloc == IsEv("sys.dealloc") /\ SysDealloc(R.p, R.size, R.align)
TCNew == IsEv("cnew") /\ CleanupNew(R.id, R.size, R.align, R.p, R.has)
TCDrop == IsEv("cdrop") /\ CleanupDrop(R.id)
TCForget == IsEv("cforget") /\ CleanupForget(R.id)
\* a panic inside the entry point: never allowed for a valid request
TPanic == IsEv("panic") /\ bad' = "entry point panicked" /\ UNCHANGED <<heap, blocks, cleanups, pend>>

TNext == TReset \/ TCall \/ TRet \/ TSysAlloc \/ TSysRealloc \/ TSysDealloc \/ TCNew \/ TCDrop \/ TCForget \/ TPanic

BreachInfo == bad = "" \/ Print(<<"BREACH", ToJson([what |-> bad, at |-> l - 1, event |-> Rec[l - 1]])>>, FALSE)

Accepted ==
    LET d == TLCGet("stats").diameter IN
    IF d - 1 = Len(Rec) THEN TRUE
    ELSE Print(<<"REJECTED", ToJson([matched |-> d - 1, total |-> Len(Rec), next |-> Rec[d]])>>, FALSE)
=============================================================================
