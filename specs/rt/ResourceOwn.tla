---------------------------- MODULE ResourceOwn ----------------------------
(* Ownership of resource handles in generated Rust bindings (property C07), for the fixed    *)
(* world harness/res-exec/res.wit: an imported resource `r` (constructor, method, static,    *)
(* functions taking own / borrow / own inside a record or a list, returning own inside a     *)
(* tuple, an option and a list) and an exported resource `x` (constructor, method, functions *)
(* taking own<x> / borrow<x>, returning x and option<x>).                                    *)
(*                                                                                           *)
(* Part 1 (GEN): the histories -- sequences of guest-side operations (on slots that hold the *)
(* guest's `R` values) and host-side operations (on keys that name the host's handles of x). *)
(* Only meaningful histories are generated (a slot is used only while it holds a value...).  *)
(* Part 2: the monitor over the event log of a run of the real bindings (Trace_ResourceOwn). *)
EXTENDS Naturals, Sequences, FiniteSets, TLC

Slots == 0..2
Keys == 0..1

\* abstract state of a history under construction: which slots hold a value, which keys name a live host handle
GuestOps(full, live) ==
    {[op |-> "new", s |-> s, v |-> 7] : s \in Slots \ full} \cup {[op |-> "make", s |-> s, v |-> 8] : s \in Slots \ full}
    \cup {[op |-> o, s |-> s] : o \in {"get", "peek", "consume", "drop", "giverec"}, s \in full}
    \cup (IF Cardinality(full) >= 2 THEN {[op |-> "givelist", ss |-> <<0, 1>>]} \cap {x \in {[op |-> "givelist", ss |-> <<0, 1>>]} : {0, 1} \subseteq full} ELSE {})
    \cup (IF {0, 1} \cap full = {} THEN {[op |-> "pair", s |-> 0, t |-> 1, some |-> b] : b \in BOOLEAN} ELSE {})
    \cup (IF full = {} THEN {[op |-> "many", s |-> 0, n |-> n] : n \in {0, 2}} ELSE {})
HostOps(full, live) ==
    {[op |-> o, k |-> k, v |-> 4] : o \in {"xnew", "xmake"}, k \in Keys \ live}
    \cup {[op |-> "xmakeopt", k |-> k, v |-> v] : k \in Keys \ live, v \in {4, 5}}
    \cup {[op |-> o, k |-> k] : o \in {"xget", "xlook", "xtake", "xunwrap", "xdrop"}, k \in live}

FullAfter(full, o) ==
    CASE o.op \in {"new", "make"} -> full \cup {o.s}
      [] o.op \in {"consume", "drop", "giverec"} -> full \ {o.s}
      [] o.op = "givelist" -> full \ {0, 1}
      [] o.op = "pair" -> full \cup {o.s} \cup (IF o.some THEN {o.t} ELSE {})
      [] o.op = "many" -> full \cup {i \in Slots : i < o.n}
      [] OTHER -> full
LiveAfter(live, o) ==
    CASE o.op \in {"xnew", "xmake"} -> live \cup {o.k}
      [] o.op = "xmakeopt" -> IF o.v % 2 = 0 THEN live \cup {o.k} ELSE live
      [] o.op \in {"xtake", "xunwrap", "xdrop"} -> live \ {o.k}
      [] OTHER -> live

-----------------------------------------------------------------------------
\* Part 2: the monitor.  St: own = handles of r the guest owns; gone = handles it gave away or dropped;
\* xs = exported objects [id -> state]; hx = handles of x [h -> [rep, holder]]
Put(f, k, v) == [x \in DOMAIN f \cup {k} |-> IF x = k THEN v ELSE f[x]]
Bad(St, msg) == IF St.bad = "" THEN [St EXCEPT !.bad = msg] ELSE St
Need(St, c, msg) == IF c THEN St ELSE Bad(St, msg)
Empty == [x \in {} |-> 0]
S0 == [own |-> {}, gone |-> {}, hx |-> Empty, repOf |-> Empty, created |-> {}, destroyed |-> {}, inDtor |-> 0,
       lent |-> {}, given |-> {}, moved |-> {}, unwrapping |-> 0, bad |-> ""]

Step(St, e) ==
    CASE e.ev = "history" -> S0
      [] e.ev = "r.new" -> Need([St EXCEPT !.own = @ \cup {e.h}], e.h \notin St.own \cup St.gone, "the host reused a handle (harness error)")
      [] e.ev = "r.use" ->
            Need(St, e.h \in St.own, "a handle of the imported resource was used after it was dropped or given away, or was never owned (C07)")
      [] e.ev = "r.transfer" ->
            Need([St EXCEPT !.own = @ \ {e.h}, !.gone = @ \cup {e.h}], e.h \in St.own,
                 "an own handle was passed to an import although the guest does not own it any more (transferred twice / after drop) (C07)")
      [] e.ev = "r.drop" ->
            Need([St EXCEPT !.own = @ \ {e.h}, !.gone = @ \cup {e.h}], e.h \in St.own,
                 "resource-drop of a handle the guest does not own: dropped twice, dropped after being given away, or a borrowed handle (C07)")
      [] e.ev = "guest-scope-end" -> St
      [] e.ev = "x.created" -> [St EXCEPT !.created = @ \cup {e.id}]
      [] e.ev = "x.new" -> [St EXCEPT !.hx = Put(@, e.h, [rep |-> e.rep, holder |-> "host"]), !.repOf = Put(@, e.rep, e.h)]
      [] e.ev = "x.host-got" -> Need(St, e.h \in DOMAIN St.hx, "an export returned a handle of x that resource-new never produced (C07)")
      [] e.ev = "x.borrow" -> [St EXCEPT !.lent = @ \cup {e.h}]
      [] e.ev = "x.borrow-end" -> [St EXCEPT !.lent = @ \ {e.h}]
      [] e.ev = "x.give" -> [St EXCEPT !.given = @ \cup {e.h}, !.hx = IF e.h \in DOMAIN @ THEN [@ EXCEPT ![e.h].holder = "guest"] ELSE @]
      [] e.ev = "x.give-end" ->
            Need(St, e.h \notin DOMAIN St.hx \/ St.hx[e.h].holder = "dropped",
                 "an own handle of the exported resource given to the guest was not dropped when its Rust value went out of scope (C07)")
      [] e.ev = "x.rep" -> Need(St, e.h \in DOMAIN St.hx /\ St.hx[e.h].holder # "dropped", "resource-rep of a dead handle of x (C07)")
      [] e.ev = "x.guestdrop" ->
            Need([St EXCEPT !.hx = IF e.h \in DOMAIN @ THEN [@ EXCEPT ![e.h].holder = "dropped"] ELSE @],
                 e.h \in DOMAIN St.hx /\ St.hx[e.h].holder = "guest",
                 "the guest dropped a handle of x it does not own: a borrowed one, one it already dropped, or one the host still owns (C07)")
      [] e.ev = "x.hostdrop" -> [St EXCEPT !.hx = IF e.h \in DOMAIN @ THEN [@ EXCEPT ![e.h].holder = "dropped"] ELSE @]
      [] e.ev = "x.dtor" -> [St EXCEPT !.inDtor = e.rep]
      [] e.ev = "x.dtor-done" ->
            \* every handle that is gone accounts for one Rust value: destroyed by the destructor, or moved out by `into_inner`
            LET out == St.moved \cup (IF St.unwrapping # 0 THEN {St.unwrapping} ELSE {}) IN
            Need([St EXCEPT !.inDtor = 0],
                 Cardinality(St.destroyed \ out) + Cardinality(out) = Cardinality({r \in DOMAIN St.repOf : St.hx[St.repOf[r]].holder = "dropped"}),
                 "the destructor export did not destroy the Rust value of the resource exactly once (C07)")
      [] e.ev = "x.unwrap-begin" -> [St EXCEPT !.unwrapping = e.id]
      [] e.ev = "x.unwrap-end" -> [Need(St, e.id \notin St.destroyed, "a Rust value taken out of its handle with into_inner was destroyed by the destructor all the same (C07)")
                                   EXCEPT !.unwrapping = 0, !.moved = @ \cup {e.id}]
      [] e.ev = "x.destroyed" ->
            Need(Need([St EXCEPT !.destroyed = @ \cup {e.id}], e.id \notin St.destroyed, "the Rust value of an exported resource was destroyed twice (C07)"),
                 (St.inDtor # 0 /\ e.id # St.unwrapping) \/ (St.inDtor = 0 /\ e.id \in St.moved),
                 "the Rust value of an exported resource was destroyed outside its destructor call (while only borrowed, or although the host still holds it), "
                 \o "or by the destructor although it had been moved out with into_inner (C07)")
      [] e.ev = "x.seen" -> Need(St, e.id \in St.created /\ e.id \notin St.destroyed, "an exported function was handed a destroyed or foreign Rust value (C07)")
      [] e.ev = "history-end" ->
            Need(Need(St, St.own = {}, "own handles of the imported resource were never dropped nor given away (leak) (C07)"),
                 St.created = St.destroyed, "Rust values of the exported resource were never destroyed although every handle is gone (C07)")
      [] OTHER -> St
=============================================================================
