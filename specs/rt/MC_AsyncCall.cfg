INIT Init
NEXT Next
INVARIANTS Inv Emit
CHECK_DEADLOCK FALSE
