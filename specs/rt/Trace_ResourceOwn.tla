-------------------------- MODULE Trace_ResourceOwn --------------------------
EXTENDS ResourceOwn, Json, IOUtils
Rec == ndJsonDeserialize(IOEnv.TRACE)
VARIABLES l, S
TInit == l = 1 /\ S = S0
TNext == l <= Len(Rec) /\ l' = l + 1 /\ S' = Step(S, Rec[l])
\* reported with PrintT (TRUE): a violated invariant would make TLC reconstruct the whole prefix of the log for every breach
NoViolation == S.bad = "" \/ PrintT(<<"BREACH", ToJson([what |-> S.bad, at |-> l - 1, event |-> Rec[l - 1]])>>)
Accepted == LET d == TLCGet("stats").diameter IN
            IF d - 1 = Len(Rec) THEN TRUE ELSE Print(<<"REJECTED", ToJson([matched |-> d - 1, total |-> Len(Rec)])>>, FALSE)
=============================================================================
