-------------------------- MODULE Trace_ResourceOwn --------------------------
EXTENDS ResourceOwn, Json, IOUtils
Rec == ndJsonDeserialize(IOEnv.TRACE)
VARIABLES l, S
TInit == l = 1 /\ S = S0
TNext == l <= Len(Rec) /\ l' = l + 1 /\ S' = Step(S, Rec[l])
NoViolation == S.bad = "" \/ Print(<<"BREACH", ToJson([what |-> S.bad, at |-> l - 1, event |-> Rec[l - 1]])>>, FALSE)
Accepted == LET d == TLCGet("stats").diameter IN
            IF d - 1 = Len(Rec) THEN TRUE ELSE Print(<<"REJECTED", ToJson([matched |-> d - 1, total |-> Len(Rec)])>>, FALSE)
=============================================================================
