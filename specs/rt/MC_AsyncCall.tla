---------------------------- MODULE MC_AsyncCall ----------------------------
(* Model checking of AsyncCall (every guest that respects the guards x every host schedule) and GEN of   *)
(* the host schedules: every (modes, cancelAt) with which a task can run to its end.                       *)
EXTENDS AsyncCall, TLC, Json
VARIABLE St
\* n = the number of ASYNC import calls of the body: 2 (f, f) or 3 (f, f, echo); 0 when the imports are bound synchronously
Init == \/ \E n \in {2, 3}, aexp \in BOOLEAN : St = S0(n, TRUE, aexp)
        \/ \E lent \in {{}, {5}, {5, 6}} : St = [S0(0, FALSE, TRUE) EXCEPT !.lent = lent]
Next == \/ \E e \in Candidates(St) : LET nx == Apply(St, e) IN nx.bad = "" /\ St' = nx
        \/ (St.ended /\ UNCHANGED St)
Inv == OneOutcome(St) /\ DoneMeansReported(St) /\ StartedMeansRead(St) /\ NeverReadIfCancelledBeforeStart(St) /\ EndedClean(St) /\ NoBorrowOutlivesTheCall(St)
Emit == (St.ended /\ St.n > 0 /\ St.yields = 0) => PrintT(<<"VEC", ToJson([n |-> St.n, aimp |-> St.aimp, aexp |-> St.aexp, modes |-> St.modes, cancelAt |-> St.cancelAt,
                                            waits |-> St.waits, ret |-> St.ret, canc |-> St.canc])>>)
\* self-check: the guards reject what C08 forbids
W == S0(2, TRUE, TRUE)
C1 == [ev |-> "import.call", idx |-> 0, mode |-> "G", h |-> 1, status |-> 0, checked |-> FALSE, errors |-> 0]
AfterCall == Apply(W, C1)
ASSUME AfterCall.bad = "" /\ AfterCall.cur = 1
ASSUME Apply(AfterCall, [ev |-> "subtask.drop", h |-> 1]).bad # ""                     \* dropped while in flight
ASSUME Apply(AfterCall, [ev |-> "task.return", errors |-> 0]).bad # ""                 \* returned before its calls finished
ASSUME Apply(AfterCall, [ev |-> "answer", code |-> "wait", set |-> 1]).bad # ""        \* waits without having joined
ASSUME Apply(AfterCall, [ev |-> "answer", code |-> "exit", set |-> 0]).bad # ""        \* exit without outcome
ASSUME LET b0 == [S0(0, FALSE, TRUE) EXCEPT !.lent = {5}]
       IN Apply(b0, [ev |-> "task.return", errors |-> 0]).bad # ""                       \* returns while still holding a borrow
          /\ Apply(Apply(b0, [ev |-> "borrow.drop", h |-> 5]), [ev |-> "task.return", errors |-> 0]).bad = ""
          /\ Apply(Apply(b0, [ev |-> "borrow.drop", h |-> 5]), [ev |-> "borrow.drop", h |-> 5]).bad # ""   \* dropped twice
ASSUME LET a == Apply(AfterCall, [ev |-> "set.new", set |-> 1])
           b == Apply(a, [ev |-> "join", h |-> 1, set |-> 1])
           c == Apply(b, [ev |-> "answer", code |-> "wait", set |-> 1])
           d == Apply(c, [ev |-> "event", kind |-> "subtask", h |-> 1, status |-> 1, checked |-> TRUE, errors |-> 1])
           d2 == Apply(c, [ev |-> "event", kind |-> "subtask", h |-> 1, status |-> 1, checked |-> TRUE, errors |-> 0])
       IN c.bad = "" /\ d.bad # "" /\ d2.bad = "" /\ d2.subs[1].checked
=============================================================================
