CONSTANTS
  Addrs = {1,2,3,4,5,6,7,8}
  Sizes = {1, 2, 4}
  Aligns = {1, 2, 4}
  MaxReq = 3
INIT MCInit
NEXT MCNext
INVARIANTS NoBreach Emit
