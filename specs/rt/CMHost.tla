-------------------------------- MODULE CMHost --------------------------------
(* The slice of the Component Model async semantics that the Rust guest runtime depends on,  *)
(* written from the Component Model explainer (Async.md / CanonicalABI.md: waitable sets,     *)
(* stream/future copy states, cancel-copy, drop rules, subtasks, task.return/cancel) as       *)
(* *functions on a host state record* H.  A violated rule does not block: it records the      *)
(* first trap in H.trap, so that both the trace spec (Trace_Async) and the model-checking     *)
(* spec (AsyncSystem) can state `NoTrap`.                                                     *)
(*                                                                                          *)
(*   H.sets    set of waitable-set handles                                                   *)
(*   H.ends    [handle -> [chan, write, future, st \in {"idle","copying","done"}, n]]          *)
(*   H.subs    [handle -> [st \in 0..4, resolved, cancelReq]]                                  *)
(*   H.member  [waitable -> set]            waitable.join                                     *)
(*   H.pend    [waitable -> [code, payload]] at most one pending event per waitable           *)
(*   H.chans   [chan -> [future, rGuest, wGuest (handle or 0 = host peer), rDropped,          *)
(*                       wDropped, resolved]]                                                 *)
(*   H.trap    "" or the first trap message                                                   *)
EXTENDS Integers, Sequences, FiniteSets, TLC

EVENT_NONE == 0
EVENT_SUBTASK == 1
EVENT_STREAM_READ == 2
EVENT_STREAM_WRITE == 3
EVENT_FUTURE_READ == 4
EVENT_FUTURE_WRITE == 5
EVENT_CANCEL == 6

BLOCKED == 0 - 1          \* 0xffffffff as logged by the harness (mapped to -1 by the trace spec)
COMPLETED == 0
DROPPED == 1
CANCELLED == 2

ST_STARTING == 0
ST_STARTED == 1
ST_RETURNED == 2
ST_STARTED_CANCELLED == 3
ST_RETURNED_CANCELLED == 4
Resolved(st) == st \in {ST_RETURNED, ST_STARTED_CANCELLED, ST_RETURNED_CANCELLED}

Dom(f) == DOMAIN f
Put(f, k, v) == [x \in Dom(f) \cup {k} |-> IF x = k THEN v ELSE f[x]]
Del(f, k) == [x \in Dom(f) \ {k} |-> f[x]]
Empty == <<>>

H0 == [sets |-> {}, ends |-> Empty, subs |-> Empty, member |-> Empty, pend |-> Empty, chans |-> Empty, trap |-> ""]

Trap(H, msg) == IF H.trap = "" THEN [H EXCEPT !.trap = msg] ELSE H

IsWaitable(H, w) == w \in Dom(H.ends) \/ w \in Dom(H.subs)
Handles(H) == H.sets \cup Dom(H.ends) \cup Dom(H.subs)
\* lowest free index (index reuse is what makes a stale registration dangerous)
RECURSIVE LowestFreeFrom(_, _)
LowestFreeFrom(S, i) == IF i \in S THEN LowestFreeFrom(S, i + 1) ELSE i
LowestFree(H) == LowestFreeFrom(Handles(H), 1)

Kind(payload) == payload % 16
Count(payload) == payload \div 16
Pack(kind, k, future) == IF future THEN kind ELSE kind + 16 * k

EventCodeOf(e) == IF e.future THEN (IF e.write THEN EVENT_FUTURE_WRITE ELSE EVENT_FUTURE_READ)
                  ELSE (IF e.write THEN EVENT_STREAM_WRITE ELSE EVENT_STREAM_READ)

-----------------------------------------------------------------------------
\* waitable sets

SetNew(H, s) ==
    IF s # LowestFree(H) THEN Trap(H, "handle allocation is not lowest-free (mock/spec drift)")
    ELSE [H EXCEPT !.sets = @ \cup {s}]

SetDrop(H, s) ==
    IF s \notin H.sets THEN Trap(H, "waitable-set.drop: not a waitable set")
    ELSE IF \E w \in Dom(H.member) : H.member[w] = s THEN Trap(H, "waitable-set.drop: set still has members")
    ELSE [H EXCEPT !.sets = @ \ {s}]

Join(H, w, s) ==
    IF ~IsWaitable(H, w) THEN Trap(H, "waitable.join: not a waitable")
    ELSE IF s = 0 THEN [H EXCEPT !.member = IF w \in Dom(@) THEN Del(@, w) ELSE @]
    ELSE IF s \notin H.sets THEN Trap(H, "waitable.join: not a waitable set")
    ELSE [H EXCEPT !.member = Put(@, w, s)]

\* handing the pending event of w to the guest: the copy leaves "copying", a resolved
\* subtask counts as delivered
Consume(H, w) ==
    LET p == H.pend[w]
        H1 == [H EXCEPT !.pend = Del(@, w)]
    IN IF w \in Dom(H.ends)
       THEN LET e == H.ends[w]
                st == IF e.future THEN (IF Kind(p.payload) = CANCELLED THEN "idle" ELSE "done")
                      ELSE (IF Kind(p.payload) = DROPPED THEN "done" ELSE "idle")
            IN [H1 EXCEPT !.ends[w].st = st]
       ELSE IF Resolved(p.payload) THEN [H1 EXCEPT !.subs[w].resolved = TRUE] ELSE H1

ReadyIn(H, s) == { w \in Dom(H.pend) : w \in Dom(H.member) /\ H.member[w] = s }

\* waitable-set.poll / wait returning (e0, w, payload); (0, 0, 0) = no event
PollOrWait(H, s, e0, w, payload, isWait) ==
    IF s \notin H.sets THEN Trap(H, "waitable-set.poll/wait: not a waitable set")
    ELSE IF e0 = EVENT_NONE
         THEN (IF ReadyIn(H, s) # {} THEN Trap(H, "host returned no event although one is pending (mock/spec drift)")
               ELSE IF isWait THEN Trap(H, "waitable-set.wait can never return: no event can arrive (lost wakeup)")
               ELSE H)
    ELSE IF w \notin ReadyIn(H, s) THEN Trap(H, "host delivered an event that is not pending in that set (mock/spec drift)")
    ELSE IF H.pend[w].code # e0 \/ H.pend[w].payload # payload THEN Trap(H, "host delivered a different event than the pending one (mock/spec drift)")
    ELSE Consume(H, w)

-----------------------------------------------------------------------------
\* streams and futures

ChanNew(H, c, future, r, w) ==
    LET H1 == [H EXCEPT !.ends = Put(@, r, [chan |-> c, write |-> FALSE, future |-> future, st |-> "idle", n |-> 0])]
        H2 == [H1 EXCEPT !.ends = Put(@, w, [chan |-> c, write |-> TRUE, future |-> future, st |-> "idle", n |-> 0])]
    IN IF r # LowestFree(H) \/ w # LowestFree(H1) THEN Trap(H, "handle allocation is not lowest-free (mock/spec drift)")
       ELSE [H2 EXCEPT !.chans = Put(@, c, [future |-> future, rGuest |-> r, wGuest |-> w,
                                              rDropped |-> FALSE, wDropped |-> FALSE, resolved |-> FALSE])]

\* the guest passes an end to the host (lowering it in a call)
TakeEnd(H, h) ==
    IF h \notin Dom(H.ends) THEN Trap(H, "transfer of something that is not a stream/future end")
    ELSE LET e == H.ends[h] IN
         IF e.st = "copying" THEN Trap(H, "end transferred while a copy is in progress")
         ELSE IF h \in Dom(H.member) THEN Trap(H, "end transferred while it is a member of a waitable set")
         ELSE [H EXCEPT !.ends = Del(@, h),
                        !.chans[e.chan] = IF e.write THEN [@ EXCEPT !.wGuest = 0] ELSE [@ EXCEPT !.rGuest = 0]]

PeerDropped(H, e) == IF e.write THEN H.chans[e.chan].rDropped ELSE H.chans[e.chan].wDropped
PeerGuest(H, e) == IF e.write THEN H.chans[e.chan].rGuest ELSE H.chans[e.chan].wGuest

\* {stream,future}.{read,write}(h, n) returning `ret`; `rdv` = the guest peer end that
\* received a rendezvous event (0 if none)
Copy(H, h, write, future, n, ret) ==
    IF h \notin Dom(H.ends) THEN Trap(H, "read/write: not a stream/future end")
    ELSE LET e == H.ends[h] IN
    IF e.write # write \/ e.future # future THEN Trap(H, "read/write: wrong kind of end")
    ELSE IF e.st # "idle" THEN Trap(H, "read/write on an end that is not idle (copy in progress, or done after the peer dropped / the future resolved)")
    ELSE IF ret = BLOCKED
         THEN IF PeerDropped(H, e) THEN Trap(H, "host blocked a copy although the peer is dropped (mock/spec drift)")
              ELSE [H EXCEPT !.ends[h].st = "copying", !.ends[h].n = n]
    ELSE IF Kind(ret) = DROPPED
         THEN [H EXCEPT !.ends[h].st = "done",
                        !.chans[e.chan] = IF PeerGuest(H, e) = 0
                                          THEN (IF write THEN [@ EXCEPT !.rDropped = TRUE] ELSE [@ EXCEPT !.wDropped = TRUE])
                                          ELSE @]
    ELSE IF Kind(ret) = COMPLETED
         THEN IF ~future /\ Count(ret) > n THEN Trap(H, "host transferred more items than the buffer holds (mock/spec drift)")
              ELSE LET pg == PeerGuest(H, e)
                       H1 == [H EXCEPT !.ends[h].st = IF future THEN "done" ELSE "idle",
                                       !.chans[e.chan].resolved = IF future THEN TRUE ELSE @]
                   IN IF pg # 0 /\ pg \in Dom(H.ends) /\ H.ends[pg].st = "copying" /\ pg \notin Dom(H.pend)
                      THEN \* rendezvous inside the component: the peer's copy completes with the same count
                           [H1 EXCEPT !.pend = Put(@, pg, [code |-> EventCodeOf(H.ends[pg]), payload |-> ret])]
                      ELSE IF pg # 0 THEN Trap(H, "host completed a copy immediately although the guest peer has no copy pending (mock/spec drift)")
                      ELSE H1
    ELSE Trap(H, "read/write returned an impossible code (mock/spec drift)")

\* the host peer (or a peer drop) completes a pending copy: an event becomes pending
HostComplete(H, h, kind, k) ==
    IF h \notin Dom(H.ends) \/ H.ends[h].st # "copying" \/ h \in Dom(H.pend)
    THEN Trap(H, "host completed a copy that is not in progress (mock/spec drift)")
    ELSE LET e == H.ends[h] IN
         [H EXCEPT !.pend = Put(@, h, [code |-> EventCodeOf(e), payload |-> Pack(kind, k, e.future)]),
                   !.chans[e.chan] = IF kind = DROPPED
                                     THEN (IF e.write THEN [@ EXCEPT !.rDropped = TRUE] ELSE [@ EXCEPT !.wDropped = TRUE])
                                     ELSE IF e.future THEN [@ EXCEPT !.resolved = TRUE] ELSE @]

\* synchronous {stream,future}.cancel-{read,write}(h) returning `ret`
CancelCopy(H, h, write, future, ret) ==
    IF h \notin Dom(H.ends) THEN Trap(H, "cancel: not a stream/future end")
    ELSE LET e == H.ends[h] IN
    IF e.write # write \/ e.future # future THEN Trap(H, "cancel: wrong kind of end")
    ELSE IF e.st # "copying" THEN Trap(H, "cancel-read/write without a copy in progress")
    ELSE LET H1 == IF h \in Dom(H.member) THEN Trap(H, "synchronous cancel-read/write while the end is still a member of a waitable set") ELSE H IN
         IF h \in Dom(H1.pend)
         THEN (IF H1.pend[h].payload # ret THEN Trap(H1, "cancel did not return the already queued completion (mock/spec drift)")
               ELSE Consume(H1, h))
         ELSE IF Kind(ret) # CANCELLED THEN Trap(H1, "cancel returned a completion that was never queued (mock/spec drift)")
         ELSE [H1 EXCEPT !.ends[h].st = "idle"]

DropEnd(H, h, write, future) ==
    IF h \notin Dom(H.ends) THEN Trap(H, "drop: not a stream/future end")
    ELSE LET e == H.ends[h] IN
    IF e.write # write \/ e.future # future THEN Trap(H, "drop: wrong kind of end")
    ELSE IF e.st = "copying" THEN Trap(H, "stream/future end dropped while a copy is still in progress")
    ELSE IF future /\ write /\ e.st # "done"
         THEN Trap(H, "writable future end dropped before a value was written or the reader was seen dropped")
    ELSE LET pg == PeerGuest(H, e)
             H1 == [H EXCEPT !.ends = Del(@, h),
                             !.member = IF h \in Dom(@) THEN Del(@, h) ELSE @,
                             !.pend = IF h \in Dom(@) THEN Del(@, h) ELSE @,
                             !.chans[e.chan] = IF write THEN [@ EXCEPT !.wDropped = TRUE, !.wGuest = 0]
                                               ELSE [@ EXCEPT !.rDropped = TRUE, !.rGuest = 0]]
         IN IF pg # 0 /\ pg \in Dom(H1.ends) /\ H1.ends[pg].st = "copying" /\ pg \notin Dom(H1.pend)
            THEN [H1 EXCEPT !.pend = Put(@, pg, [code |-> EventCodeOf(H1.ends[pg]), payload |-> Pack(DROPPED, 0, H1.ends[pg].future)])]
            ELSE H1

-----------------------------------------------------------------------------
\* subtasks

AsyncCall(H, st, h) ==
    IF st = ST_RETURNED THEN (IF h # 0 THEN Trap(H, "returned call with a subtask handle (mock/spec drift)") ELSE H)
    ELSE IF st \notin {ST_STARTING, ST_STARTED} \/ h # LowestFree(H) THEN Trap(H, "bad async call result (mock/spec drift)")
    ELSE [H EXCEPT !.subs = Put(@, h, [st |-> st, resolved |-> FALSE, cancelReq |-> FALSE])]

HostSubtask(H, h, to) ==
    IF h \notin Dom(H.subs) \/ h \in Dom(H.pend) \/ H.subs[h].resolved \/ ~(H.subs[h].st < to /\ to \in {ST_STARTED, ST_RETURNED})
    THEN Trap(H, "host advanced a subtask illegally (mock/spec drift)")
    ELSE [H EXCEPT !.subs[h].st = to, !.pend = Put(@, h, [code |-> EVENT_SUBTASK, payload |-> to])]

SubtaskCancel(H, h, ret) ==
    IF h \notin Dom(H.subs) THEN Trap(H, "subtask.cancel: not a subtask")
    ELSE LET t == H.subs[h]
             H1 == IF t.resolved THEN Trap(H, "subtask.cancel after the subtask's resolution was delivered")
                   ELSE IF t.cancelReq THEN Trap(H, "subtask.cancel twice")
                   ELSE IF h \in Dom(H.member) THEN Trap(H, "synchronous subtask.cancel while the subtask is a member of a waitable set")
                   ELSE H
         IN IF h \in Dom(H1.pend) /\ Resolved(H1.pend[h].payload)
            THEN (IF ret # H1.pend[h].payload THEN Trap(H1, "cancel did not return the queued resolution (mock/spec drift)") ELSE Consume(H1, h))
            ELSE IF ~Resolved(ret) \/ (ret = ST_STARTED_CANCELLED /\ t.st # ST_STARTING)
                 THEN Trap(H1, "subtask.cancel returned an impossible status (mock/spec drift)")
            ELSE [H1 EXCEPT !.subs[h] = [st |-> ret, resolved |-> TRUE, cancelReq |-> TRUE],
                            !.pend = IF h \in Dom(@) THEN Del(@, h) ELSE @]

SubtaskDrop(H, h) ==
    IF h \notin Dom(H.subs) THEN Trap(H, "subtask.drop: not a subtask")
    ELSE IF ~H.subs[h].resolved THEN Trap(H, "subtask.drop before the subtask resolved (or before its resolution was delivered)")
    ELSE [H EXCEPT !.subs = Del(@, h), !.member = IF h \in Dom(@) THEN Del(@, h) ELSE @]
=============================================================================
