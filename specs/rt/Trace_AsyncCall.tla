-------------------------- MODULE Trace_AsyncCall --------------------------
(* Validation of the event log of real tasks (harness/vhost/src/ahost.rs) against AsyncCall: the log is    *)
(* a sequence of tasks, each opened by `task.begin` (which carries what the spec needs to know about the    *)
(* task); every event is folded through AsyncCall!Apply.  A breach is reported by the step that causes it   *)
(* (PrintT, see Trace_Async), the task it belongs to is dead from then on, the next task is judged afresh.   *)
EXTENDS AsyncCall, Json, IOUtils, TLC
Rec == ndJsonDeserialize(IOEnv.TRACE)
VARIABLES l, St
Idle == [S0(0, FALSE, FALSE) EXCEPT !.ended = TRUE]
Step(S, e) ==
    CASE e.ev = "task.begin" -> S0(e.n, e.aimp, e.aexp)
      [] e.ev = "stuck" -> Bad(S, "the task waits but nothing it waits for can make progress: it would hang (C08)")
      [] e.ev = "task.end" ->
            LET n == Apply(S, e) IN
            Need(n, e.returned = S.ret /\ e.cancelled = S.canc /\ (e.undropped = 0) /\ (e.live_sets = 0),
                 "the host's own counters disagree with the spec state at the end of the task (harness drift)")
      [] OTHER -> Apply(S, e)
TInit == l = 1 /\ St = Idle
TNext == /\ l <= Len(Rec) /\ l' = l + 1
         /\ St' = Step(St, Rec[l])
         /\ (St'.bad # "" /\ (St.bad = "" \/ Rec[l].ev = "task.begin")) => PrintT(<<"BREACH", ToJson([what |-> St'.bad, at |-> l, event |-> Rec[l]])>>)
Accepted ==
    LET d == TLCGet("stats").diameter IN
    IF d - 1 = Len(Rec) THEN TRUE ELSE Print(<<"REJECTED", ToJson([matched |-> d - 1, total |-> Len(Rec)])>>, FALSE)
=============================================================================
